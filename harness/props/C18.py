"""C18 — snapshot operations honour the tree lock (schedules).

Nine kinds of cases (plus the extractor self-tests), all evaluated by the Coq lock machine (CaseLock.run18) and by the code:

  sched  arbitrary thread programs (Acq/Rel/Read/Write) under an arbitrary schedule, re-executed by REAL
         threads on the `_lock` object of a real nutree Tree, one event per scheduler tick
         (`acquire(blocking=False)` tells whether the tick was enabled);
  trace  one snapshot operation runs single-threaded on a tree whose `_lock` is a recording wrapper and
         whose structure reads are recorded (harness-side monkeypatching of `Tree._root/_node_by_id/
         _nodes_by_data_id` and of the `Node._children/_parent` slots); the recorded Acq/Read/Write/Rel
         trace must be an unfolding of the GENERATED skeleton of that operation, bracketed, one section;
  park   a writer thread parks inside `with tree:` between two groups of mutations, a reader thread
         calls the operation: it must not complete before the release and its result must be the
         committed final state (the owner also calls the operation re-entrantly while parked);
  owner  the owner nests `with tree:` n times and calls the operation inside (no deadlock), a contender
         probes the lock in the middle (must be refused) and at the end (must be granted).

  free   FREE-RUNNING writer threads (sections of two mutations, some nested) and reader threads calling the
         operations; the global history (Acq after it was granted, Rel before it is given up, structure reads,
         mutations) is recorded and replayed on the machine: it must be one of its behaviours (every recorded
         tick enabled) and the versions the readers saw must be the machine's; oracle: no snapshot with an odd
         number of a writer's nodes, nothing executed without the lock.  (Not replayable bit for bit: the
         interleaving is the scheduler's.)

  after  an operation RAISES (refused copy_to, unwritable path, failing predicate/mapper, ...), the caller
         catches; then ANOTHER thread must be able to enter `with tree:` and run every operation with the
         results it gave before, and the target tree's lock must be free ("depth returns to 0" on the
         exceptional exit); the raising thread is kept alive meanwhile (thread idents are reused);
  inv    the owner calls an operation INSIDE `with tree:` while a reader is ALREADY blocked on the tree lock
         (signalled by a probe wrapper of the lock): the owner must complete (re-entrancy; no second lock
         taken in the opposite order), then the reader completes on the committed state.

  alias  PRIVATE SNAPSHOT: save() serialises after the release, to_dict_list() hands its result out - so nothing in the
         document given to json.dump (captured by wrapping json.dump for the call) / in the returned list may BE
         (`is`) a live node-data dict, a nested mutable of it, a meta dict or a child list; for every stock mapper
         (none, Tree/TypedTree.serialize_mapper, DictWrapper.serialize_mapper, a user mapper) x str / DictWrapper data
         x stream / path; a shared object is one more Read at the moment it is consumed (json.dump time, or after
         the return) in the trace that the machine judges;
  dump   the schedule for it (Events only): the reader is paused in its first write() - after the release for
         Tree.save, under the lock for to_dotfile and TypedTree.save - while a writer changes two nodes' data IN
         PLACE inside one `with tree:`; the written document must be the state before the section.

Waiting for something that must NOT happen (0.12 s) can only fail to detect; waiting for something that
must happen is bounded by 20 s (a false alarm needs a 20 s stall of a trivial operation).
threading.RLock, the GIL and the atomicity of single Python reads are the runtime: modelled, not verified.
"""
from __future__ import annotations

import io
import itertools
import json
import queue
import shutil
import tempfile
import threading

import common as H
from common import Case, Node, Tree, TypedTree

A, L, R, W = 0, 1, 2, 3          # event codes shared with CaseLock.ev_of
EV_NAMES = "ALRW"

# ---------------------------------------------------------------------------
# instrumentation (this process only; nothing in /repo is touched)
# ---------------------------------------------------------------------------
_ARM = {"tree": None, "log": None, "tid": None}
_slot_tree = Node.__dict__["_tree"]


_FREE = {"tree": None, "hist": None, "ids": {}}     # free-running threads: one global history


def _rec(tree, ev):
    if tree is None:
        return
    if tree is _ARM["tree"]:
        if threading.get_ident() == _ARM["tid"]:
            _ARM["log"].append(ev)
    elif tree is _FREE["tree"] and ev == R:
        i = _FREE["ids"].get(threading.get_ident())
        if i is not None:
            h = _FREE["hist"]
            if not h or h[-1] != (i, R):
                h.append((i, R))


def _free_log(ev):
    i = _FREE["ids"].get(threading.get_ident())
    if i is not None:
        _FREE["hist"].append((i, ev))        # list.append is atomic: the history is a linearisation


def _tree_of(node):
    try:
        return _slot_tree.__get__(node)
    except AttributeError:
        return None


def _patch_node_slot(name):
    orig = Node.__dict__[name]
    if isinstance(orig, property):  # already patched
        return

    def fget(self):
        _rec(_tree_of(self), R)
        return orig.__get__(self)

    def fset(self, v):
        _rec(_tree_of(self), W)
        orig.__set__(self, v)

    setattr(Node, name, property(fget, fset))


def _patch_tree_attr(name):
    if isinstance(Tree.__dict__.get(name), property):
        return

    def fget(self):
        _rec(self, R)
        try:
            return self.__dict__[name]
        except KeyError:
            raise AttributeError(name) from None

    def fset(self, v):
        if name in self.__dict__:
            _rec(self, W)   # rebinding the root / an index of a live tree is a mutation
        self.__dict__[name] = v

    setattr(Tree, name, property(fget, fset))


for _nm in ("_children", "_parent"):
    _patch_node_slot(_nm)
for _nm in ("_root", "_node_by_id", "_nodes_by_data_id"):
    _patch_tree_attr(_nm)


class RecLock:
    """Recording wrapper around the tree's own lock object."""

    def __init__(self, real, tree):
        self.real, self.tree = real, tree

    def acquire(self, *a, **k):
        ok = self.real.acquire(*a, **k)
        if ok:
            _rec(self.tree, A)
        return ok

    def release(self):
        _rec(self.tree, L)
        self.real.release()

    def __enter__(self):
        return self.acquire()

    def __exit__(self, *a):
        self.release()

    def _is_owned(self):
        return self.real._is_owned()


_STATE = {"deadlock_seen": False}
_FAILED: dict = {}      # digest(desc) -> first failing Case of a real-thread scenario (see Prop.run)


def T(long):
    """Timeout for something that MUST happen: very generous (the machine may be heavily loaded; a false
    alarm needs a 20 s stall), but short once a deadlock was seen in this run (a non-re-entrant lock makes
    every nested call hang; one long wait is enough to establish that)."""
    return 0.5 if _STATE["deadlock_seen"] else long


def guarded(fn, timeout):
    """Run fn() in a daemon thread; (finished, result | None).  A call that never returns (deadlock)
    leaves the thread behind and is reported, it does not hang the check."""
    box = {}

    def body():
        try:
            box["res"] = fn()
        except BaseException as e:  # noqa: BLE001
            box["res"] = _err(e)

    th = threading.Thread(target=body, daemon=True)
    th.start()
    th.join(timeout)
    if th.is_alive():
        _STATE["deadlock_seen"] = True
        return False, None
    return True, box.get("res")


class FreeLock:
    """Wrapper that writes Acq (after it was granted) / Rel (before it is given up) of every registered
    thread into the global history."""

    def __init__(self, real):
        self.real = real

    def acquire(self, *a, **k):
        ok = self.real.acquire(*a, **k)
        if ok:
            _free_log(A)
        return ok

    def release(self):
        _free_log(L)
        self.real.release()

    def _is_owned(self):
        return self.real._is_owned()


class ProbeLock:
    """Wrapper that tells when a registered thread is about to wait for the tree lock."""

    def __init__(self, real):
        self.real = real
        self.waiting: dict = {}          # thread ident -> Event set right before its acquire()

    def acquire(self, *a, **k):
        ev = self.waiting.get(threading.get_ident())
        if ev is not None:
            ev.set()
        return self.real.acquire(*a, **k)

    def release(self):
        self.real.release()

    def _is_owned(self):
        return self.real._is_owned()


def record(tree, fn):
    """Run fn() (guarded) with recording armed for `tree` in the thread that runs it;
    (raw trace, result, finished)."""
    log: list = []

    def body():
        _ARM.update(tree=tree, log=log, tid=threading.get_ident())
        return fn()

    finished, res = guarded(body, T(20))
    _ARM.update(tree=None, log=None, tid=None)
    return list(log), res, finished


def collapse(tr):
    out = []
    for e in tr:
        if e == R and out and out[-1] == R:
            continue
        out.append(e)
    return out


# ---------------------------------------------------------------------------
# trees, snapshot operations, canonical results
# ---------------------------------------------------------------------------
SHAPES = {          # small ordered forests: nested tuples of children
    "empty": (),
    "one": ((),),
    "chain": ((((),),),),
    "wide": ((), (), ()),
    "mixed": (((), ((),)), (), ((),)),
    "deep": (((((), ()),), ()), ((),)),
}
KINDS = ["a", "b", "c"]


def build_tree(typed: bool, shape_name: str):
    tree = TypedTree("src") if typed else Tree("src")
    cnt = itertools.count()

    def add(parent, shape):
        for kids in shape:
            i = next(cnt)
            n = parent.add(f"n{i}", kind=KINDS[i % 2]) if typed else parent.add(f"n{i}")
            add(n, kids)

    add(tree, SHAPES[shape_name])
    return tree


def mutate(tree, typed, k):
    """The k-th Write of a writer: a structural mutation that changes every snapshot result
    (typed: a node of a kind that did not exist before, so a stale kind table shows)."""
    if typed:
        tree.add(f"w{k}", kind=f"wk{k}")
    else:
        tree.add(f"w{k}")


def canon(tree):
    """Structure of a tree read through the pointers (not through the API under test)."""
    def go(n):
        return [str(n._data), getattr(n, "_kind", None), [go(c) for c in (n._children or [])]]
    return [go(c) for c in (tree._root._children or [])]


def _err(e):
    return f"ERR:{type(e).__name__}"


def _read_text(path):
    with open(path) as fp:
        return fp.read()


def op_copy(tree, tmp):
    return canon(tree.copy())


def op_copy_pred(tree, tmp):
    return canon(tree.copy(predicate=lambda n: True))


def op_filtered(tree, tmp):
    return canon(tree.filtered(lambda n: True))


def _target_for(tree):
    target = TypedTree("dst") if isinstance(tree, TypedTree) else Tree("dst")
    tree.__dict__["_c18_target"] = target      # so that a later probe can ask whether ITS lock is free too
    return target


def op_copy_to(tree, tmp):
    target = _target_for(tree)
    tree.copy_to(target)
    return canon(target)


def op_copy_to_shallow(tree, tmp):
    target = _target_for(tree)
    tree.copy_to(target, deep=False)
    return canon(target)


def op_copy_to_dup(tree, tmp):
    """Refused copy: the target already has a top node with the data of the source's first top node."""
    target = _target_for(tree)
    if isinstance(tree, TypedTree):          # build_tree: the first top node is "n0" of kind KINDS[0]
        target.add("n0", kind=KINDS[0])       # (constants: the harness must not read the armed tree itself)
    else:
        target.add("n0")
    tree.copy_to(target)                       # UniqueConstraintError
    return canon(target)


def op_save_bad_path(tree, tmp):
    tree.save(f"{tmp}/no_such_dir/x.json")      # FileNotFoundError


def op_to_dotfile_bad_path(tree, tmp):
    tree.to_dotfile(f"{tmp}/no_such_dir/x.gv")  # FileNotFoundError


def op_to_dict_list(tree, tmp):
    return tree.to_dict_list()


def op_save(tree, tmp):
    fp = io.StringIO()
    tree.save(fp)
    return json.loads(fp.getvalue())


def op_save_path(tree, tmp):
    p = f"{tmp}/t{threading.get_ident()}.json"
    tree.save(p)
    return json.loads(_read_text(p))


def op_to_dotfile(tree, tmp):
    fp = io.StringIO()
    tree.to_dotfile(fp)
    return fp.getvalue()


def op_to_dotfile_path(tree, tmp):
    p = f"{tmp}/t{threading.get_ident()}.gv"
    tree.to_dotfile(p)
    return _read_text(p)


def op_filtered_none(tree, tmp):
    return canon(tree.filtered(None))           # refused (ValueError) before anything is read


def op_to_dotfile_fmt_stream(tree, tmp):
    tree.to_dotfile(io.StringIO(), format="png")  # refused (RuntimeError: needs a path) before anything is read
    return None


class _Boom(Exception):
    pass


def _raiser(after):
    calls = [0]

    def cb(*a, **k):
        calls[0] += 1
        if calls[0] > after:
            raise _Boom("callback failure in the middle of the snapshot")
        return None

    return cb


def op_copy_pred_raises(tree, tmp):
    return canon(tree.copy(predicate=_raiser(1)))


def op_to_dict_list_mapper_raises(tree, tmp):
    return tree.to_dict_list(mapper=_raiser(1))


def op_save_mapper_raises(tree, tmp):
    tree.save(io.StringIO(), mapper=_raiser(0))


def op_to_dotfile_mapper_raises(tree, tmp):
    tree.to_dotfile(io.StringIO(), node_mapper=_raiser(1))


def op_with(tree, tmp):
    with tree:
        return canon(tree)


#: name -> (method whose generated skeleton applies, callable)
OPS = {
    "copy": ("copy", op_copy),
    "copy_pred": ("copy", op_copy_pred),
    "filtered": ("filtered", op_filtered),
    "copy_to": ("copy_to", op_copy_to),
    "copy_to_shallow": ("copy_to", op_copy_to_shallow),
    "to_dict_list": ("to_dict_list", op_to_dict_list),
    "save": ("save", op_save),
    "save_path": ("save", op_save_path),
    "to_dotfile": ("to_dotfile", op_to_dotfile),
    "to_dotfile_path": ("to_dotfile", op_to_dotfile_path),
    "with": ("with", op_with),
    # a user callback fails in the middle: the lock must be given up on the way out
    "copy_pred_raises": ("copy", op_copy_pred_raises),
    "to_dict_list_mapper_raises": ("to_dict_list", op_to_dict_list_mapper_raises),
    "save_mapper_raises": ("save", op_save_mapper_raises),
    "to_dotfile_mapper_raises": ("to_dotfile", op_to_dotfile_mapper_raises),
    "filtered_none": ("filtered", op_filtered_none),
    "to_dotfile_fmt_stream": ("to_dotfile", op_to_dotfile_fmt_stream),
    # refusals that callers catch
    "copy_to_dup": ("copy_to", op_copy_to_dup),
    "save_bad_path": ("save", op_save_bad_path),
    "to_dotfile_bad_path": ("to_dotfile", op_to_dotfile_bad_path),
}
#: refusing paths of the skeletons (no read, no lock): recorded traces only
TRACE_ONLY_OPS = {"filtered_none", "to_dotfile_fmt_stream"}
#: failing operations: every state gives the same (error) result, so nothing to compare in `park`
NO_PARK_OPS = TRACE_ONLY_OPS | {"copy_pred_raises", "to_dict_list_mapper_raises", "save_mapper_raises", "to_dotfile_mapper_raises",
                                "copy_to_dup", "save_bad_path", "to_dotfile_bad_path"}
#: operations that raise / are refused (the caller catches): afterwards the tree must be usable by OTHER threads
RAISING_OPS = sorted(NO_PARK_OPS)
#: operations that complete: what "another thread runs every operation" means
GOOD_OPS = ["copy", "copy_pred", "filtered", "copy_to", "copy_to_shallow", "to_dict_list", "save", "save_path",
            "to_dotfile", "to_dotfile_path", "with"]
#: operations that fail on typed trees for reasons that belong to other properties (D21/D22/D24:
#: typed copies); their lock trace is still checked, their results are not compared across states
TYPED_RESULT_UNUSABLE: set = set()     # (typed copies were repaired on main: D21/D22)


def label_of(tree, op):
    """Label of the generated skeleton that Python's method resolution selects."""
    meth = OPS[op][0]
    if meth == "with":
        return "with"
    for c in type(tree).__mro__:
        if meth in c.__dict__:
            return {"Tree": "tree", "TypedTree": "typed"}.get(c.__name__, c.__name__.lower()) + "_" + meth
    return "?" + meth


def run_op_guarded(tree, op, tmp):
    ok, res = guarded(lambda: run_op(tree, op, tmp), T(20))
    return res if ok else "ERR:hang"


def run_op(tree, op, tmp):
    try:
        return json.dumps(OPS[op][1](tree, tmp), sort_keys=True, default=str)
    except Exception as e:  # noqa: BLE001  (typed copies: other properties' defects)
        return _err(e)


# ---------------------------------------------------------------------------
# the property statement on a recorded trace (independent of the Coq model)
# ---------------------------------------------------------------------------
def trace_facts(tr):
    """(bracketed, outermost sections, writes, first offence)"""
    depth = 0
    sections = 0
    ok = True
    why = None
    for i, e in enumerate(tr):
        if e == A:
            if depth == 0:
                sections += 1
            depth += 1
        elif e == L:
            if depth == 0:
                ok = False
                why = why or f"release without acquire at event {i}"
            else:
                depth -= 1
        else:
            if depth == 0:
                ok = False
                why = why or f"{'read' if e == R else 'write'} of the tree outside `with tree:` at event {i}"
    if depth != 0:
        ok = False
        why = why or "lock still held when the operation returned"
    return ok, sections, any(e == W for e in tr), why


def trace_oracle(tr, label):
    ok, sections, writes, why = trace_facts(tr)
    name = "".join(EV_NAMES[e] for e in tr)
    if not ok:
        return f"trace: {label} [{name}]: {why}"
    if sections > 1:
        return f"trace: {label} [{name}]: reads spread over {sections} separate critical sections (no single snapshot)"
    if writes:
        return f"trace: {label} [{name}]: snapshot operation mutates the source tree"
    if R in tr and sections != 1:
        return f"trace: {label} [{name}]: reads but no critical section"
    return None


def trace_obs(tr, member=True):
    ok, sections, writes, _ = trace_facts(tr)
    return [member, ok, sections, writes]   # first item: "is an unfolding of the generated skeleton" (claimed)


#: operations that leave by an exception raised OUTSIDE the innermost reading section (the file cannot be
#: opened): the skeletons have no exceptional exits, so no unfolding is claimed for their traces (label
#: "exc:<label>" is unknown to the model); the bracket discipline of the trace is still checked
EXC_EXIT_OPS = {"save_bad_path", "to_dotfile_bad_path"}


# ---------------------------------------------------------------------------
# sched: re-execution of a schedule by real threads on a real tree lock
# ---------------------------------------------------------------------------
class _Worker(threading.Thread):
    def __init__(self):
        super().__init__(daemon=True)
        self.inq: queue.SimpleQueue = queue.SimpleQueue()
        self.outq: queue.SimpleQueue = queue.SimpleQueue()
        self.start()

    def run(self):
        while True:
            fn = self.inq.get()
            try:
                self.outq.put(fn())
            except BaseException as e:  # noqa: BLE001
                self.outq.put(("EXC", repr(e)))

    def call(self, fn):
        self.inq.put(fn)
        return self.outq.get(timeout=120)


_POOL: list[_Worker] = []


def pool(n):
    while len(_POOL) < n:
        _POOL.append(_Worker())
    return _POOL[:n]


def _owned(lock):
    f = getattr(lock, "_is_owned", None)
    return None if f is None else bool(f())


def exec_sched(ps, sched):
    """Returns (ticks, final, owners_before) where ticks[i] = [kind, owned_before, ver_before]."""
    tree = Tree("sched")
    lock = tree._lock                      # the object the code under test created
    nthreads = len(ps)
    ws = pool(nthreads + 1)
    prober = ws[nthreads]
    pcs = [0] * nthreads
    ver = [0]
    ticks = []
    owners_before = []

    def do(ev):
        def f():
            own = _owned(lock)
            v = ver[0]
            if ev is None:
                return [0, own, v]
            if ev == A:
                return [2 if lock.acquire(blocking=False) else 1, own, v]
            if ev == L:
                try:
                    lock.release()
                    return [2, own, v]
                except RuntimeError:
                    return [3, own, v]
            if ev == W:
                ver[0] = v + 1
            return [2, own, v]
        return f

    for t in sched:
        owners_before.append([ws[u].call(lambda: _owned(lock)) for u in range(nthreads)])
        if 0 <= t < nthreads and pcs[t] < len(ps[t]):
            r = ws[t].call(do(ps[t][pcs[t]]))
            if r[0] in (2, 3):
                pcs[t] += 1
        elif 0 <= t < nthreads:
            r = ws[t].call(do(None))
        else:
            r = [0, False, ver[0]]         # no such thread
        ticks.append([r[0], -1 if r[1] is None else int(r[1]), r[2]])

    def probe():
        if lock.acquire(blocking=False):
            lock.release()
            return True
        return False

    free = prober.call(probe)
    final = [free, ver[0], [len(p) - pc for p, pc in zip(ps, pcs)]]
    # leave no worker owning the lock of this (discarded) tree: nothing to do, the lock dies with it
    return ticks, final, owners_before


def py_bracketed(p):
    ok, _, _, _ = trace_facts(p)
    return ok


def py_disciplined(p):
    """Writers' discipline: Acq/Rel balanced, Writes under the lock, Reads anywhere."""
    return py_bracketed([e for e in p if e != R])


def sched_oracle(ps, sched, ticks, final, owners_before):
    """The property statement, on what the real lock did.  Only for families of disciplined programs
    (writes under the lock); snapshot guarantees only for the bracketed threads among them."""
    n = len(ps)
    snap = [py_bracketed(p) for p in ps]
    pcs = [0] * n
    sect_ver: list = [None] * n      # version found at the outermost acquisition of the open section
    depth = [0] * n
    for i, t in enumerate(sched):
        kind, own, ver = ticks[i]
        owners = owners_before[i]
        if sum(1 for o in owners if o) > 1:
            return f"sched: two threads own the lock before tick {i}"
        if not (0 <= t < n) or pcs[t] >= len(ps[t]):
            if kind != 0:
                return f"sched: tick {i} of a finished thread did something"
            continue
        ev = ps[t][pcs[t]]
        other = any(o for u, o in enumerate(owners) if u != t)
        if own == -1:
            return "sched: the lock has no _is_owned(): not a threading.RLock"
        if ev == A:
            if own == 1 and kind != 2:
                return f"sched: re-entrancy: owner {t} was refused its own lock at tick {i}"
            if kind == 1 and not other:
                return f"sched: tick {i}: acquire refused although no other thread owns the lock"
            if kind == 2 and other:
                return f"sched: tick {i}: acquire granted while another thread owns the lock"
            if kind == 2:
                if depth[t] == 0:
                    sect_ver[t] = ver
                depth[t] += 1
        elif ev == R and not snap[t]:
            if kind != 2:
                return f"sched: tick {i}: an unlocked read did not execute"
        else:
            if own != 1:
                return f"sched: tick {i}: thread {t} executes {EV_NAMES[ev]} without owning the lock"
            if kind != 2:
                return f"sched: tick {i}: {EV_NAMES[ev]} by the owner failed"
            if ev == R and W not in ps[t] and ver != sect_ver[t]:
                return f"sched: tick {i}: reader {t} sees version {ver}, its section started at {sect_ver[t]}"
            if ev == L:
                depth[t] -= 1
        if kind in (2, 3):
            pcs[t] += 1
    if all(pc == len(p) for pc, p in zip(pcs, ps)) and not final[0]:
        return "sched: all threads finished but the lock is not free"
    if final[2] != [len(p) - pc for p, pc in zip(ps, pcs)]:
        return "sched: harness bookkeeping differs"
    return None


def gen_bracketed(rng, maxlen, writer):
    """Random bracketed program: nested sections with Reads/Writes inside."""
    p = []
    depth = 0
    while len(p) < maxlen or depth > 0:
        c = rng.random()
        if depth == 0:
            if len(p) >= maxlen - 1:
                break
            p.append(A)
            depth = 1
        elif len(p) >= maxlen or c < 0.3:
            p.append(L)
            depth -= 1
        elif c < 0.45:
            p.append(A)
            depth += 1
        else:
            p.append(W if writer and rng.random() < 0.6 else R)
    return p


# ---------------------------------------------------------------------------

# ---------------------------------------------------------------------------
# private snapshots: what leaves the locked phase must not alias live node data   (kinds `alias`, `dump`)
# ---------------------------------------------------------------------------
# save() materialises the node list under the lock and serialises it AFTER the release (json.dump); to_dict_list()
# hands its result to the caller.  Both are snapshots only if every mutable object in the result is a private one: a
# result that IS (`is`) a live `node.data` dict, a node's meta dict or child list is read after the release.
from nutree.common import DictWrapper  # noqa: E402

MAPPERS = {
    "none": lambda tree: None,
    "class_default": lambda tree: type(tree).serialize_mapper,
    "dictwrapper": lambda tree: DictWrapper.serialize_mapper,
    "user_fresh": lambda tree: (lambda node, data: {"v": str(node.data)}),
}


def build_dw_tree(typed, data_kind):
    """Two 'accounts' (a: 100, b: 0) and a child; data = DictWrapper (mutable in place) or str; a and b carry meta."""
    tree = TypedTree("acc") if typed else Tree("acc")

    def mk(name, bal):
        if data_kind == "dictwrapper":            # flat: immutable values only
            return DictWrapper({"name": name, "balance": bal})
        if data_kind == "dictwrapper_nested":     # a mutable value inside the wrapped dict
            return DictWrapper({"name": name, "balance": bal, "tags": [name]})
        return f"{name}:{bal}"

    kw = dict(kind="acct") if typed else {}
    a = tree.add(mk("a", 100), **kw)
    b = tree.add(mk("b", 0), **kw)
    c = a.add(mk("c", 7), **kw)
    a.set_meta("note", ["x"])
    b.set_meta("note", ["y"])
    return tree, a, b, c


def _mutables(obj, path, out, seen):
    """id -> path of every mutable container reachable from obj through containers / DictWrapper."""
    if isinstance(obj, DictWrapper):
        _mutables(obj._dict, path + "._dict", out, seen)
        return
    if isinstance(obj, (dict, list, set, bytearray)):
        if id(obj) in seen:
            return
        seen.add(id(obj))
        out[id(obj)] = path
        items = obj.items() if isinstance(obj, dict) else enumerate(obj) if isinstance(obj, list) else []
        for k, v in items:
            _mutables(v, f"{path}[{k!r}]", out, seen)
    elif isinstance(obj, tuple):
        for k, v in enumerate(obj):
            _mutables(v, f"{path}[{k}]", out, seen)


def live_objects(tree):
    """Every mutable object that belongs to the live tree's node data / meta / child lists."""
    out: dict = {}
    seen: set = set()
    stack = [tree._root]
    while stack:
        n = stack.pop()
        nm = "root" if n is tree._root else f"node {str(n._data)[:24]!r}"
        if n is not tree._root:
            _mutables(n._data, nm + ".data", out, seen)
            if getattr(n, "_meta", None) is not None:
                _mutables(n._meta, nm + ".meta", out, seen)
        if n._children is not None:
            out[id(n._children)] = nm + ".children"
            stack.extend(n._children)
    return out


def aliases(result, tree):
    """Paths of the live objects that the (detached?) result contains.  (The harness' own walk over the live tree is
    not part of the operation: recording is suspended meanwhile.)"""
    armed = _ARM["tree"]
    _ARM["tree"] = None
    try:
        live = live_objects(tree)
    finally:
        _ARM["tree"] = armed
    mine: dict = {}
    _mutables(result, "result", mine, set())
    return sorted(f"{rp} IS {live[i]}" for i, rp in mine.items() if i in live)


class _Captured(Exception):
    pass


def capture_save_document(tree, mapper, target):
    """The object Tree.save() hands to json.dump after it released the lock (json.dump is wrapped for this call)."""
    import json as _json

    box = {}
    orig = _json.dump

    def spy(obj, fp, *a, **k):
        if "doc" not in box:
            box["doc"] = obj
            if aliases(obj, tree):
                _rec(tree, R)          # serialising it reads live node data - here, wherever the lock stands now
        return orig(obj, fp, *a, **k)

    _json.dump = spy
    try:
        tree.save(target, mapper=mapper) if mapper is not None else tree.save(target)
    finally:
        _json.dump = orig
    return box.get("doc")


class PausingStream:
    """Text stream whose FIRST write() announces itself and waits for `resume` (bounded)."""

    def __init__(self, first_write, resume, bound):
        self.chunks, self.first_write, self.resume, self.bound, self.timed_out = [], first_write, resume, bound, False

    def write(self, s):
        if not self.first_write.is_set():
            self.first_write.set()
            if not self.resume.wait(self.bound):
                self.timed_out = True
        self.chunks.append(s)
        return len(s)

    def getvalue(self):
        return "".join(self.chunks)


class Prop:
    id = "C18"
    coq_prop = "Properties/C18.v"
    case_module = "CaseLock"
    case_vo = "theories/Cases/CaseLock.vo"
    run_fn = "run18"
    shard = 700
    rule = ("sched: families of 1-4 thread programs over Acq/Rel/Read/Write (75% disciplined - bracketed with nesting <= 3, a quarter of "
            "the threads with extra unlocked reads - and 25% arbitrary, "
            "to exercise refused/erroneous steps) under random schedules (bursty, with ticks of finished and non-existent "
            "threads), plus ALL schedules of length total+1 of three fixed two-thread families; re-executed by real threads on "
            "the _lock of a real Tree.  trace/park/owner: every snapshot operation (copy, copy(predicate), filtered, copy_to "
            "deep/shallow, to_dict_list, save to stream/path, to_dotfile to stream/path, `with tree:`) x {Tree, TypedTree} x "
            "tree shapes x (writer mutation counts | nesting depths).  distinct = distinct case description; non-trivial = "
            "sched: some tick was refused or some thread nested; trace/park/owner: the trace contains a read")
    exhaustive_note = "all schedules in {0,1}^8 (quick) / {0,1}^(total+1) (thorough) for three two-thread program families; + {0,1,2}^8 for one three-thread family (thorough)"
    assumptions = [
        "threading.RLock, the GIL and the atomicity of one Python read are the runtime: modelled by the lock machine, not verified",
        "a structure read = an access to Tree._root/_node_by_id/_nodes_by_data_id or Node._children/_parent of a node of the "
        "source tree, recorded by harness-side monkeypatching in the thread that runs the operation",
        "real-thread cases wait a bounded time (0.12 s) for a reader that must NOT finish: this can miss a violation, never invent one",
    ]
    trusted = [
        "C18: the ast walk that lifts lock skeletons (gen_facts.lock_skeleton): the whitelists of structural attributes, of "
        "materialising builtins, of detaching (to_dict) and non-retaining (_add_from) methods, and its taint rules - every store of a "
        "live (possibly lazy) view taints the name it is reachable from (names, tuple/starred/walrus targets, the base of "
        "attribute/subscript/augmented targets, receivers of calls given a live argument), results of calls given a live argument "
        "are live, `return` of a live view inside the bracket, yield/await, global/nonlocal and stores through the tree object are "
        "refused; self-tested on 33 escaping and 9 materialising synthetic methods (harness/test_gen_facts_lock.py, run by every "
        "check) - and the recording instrumentation of harness/props/C18.py",
    ]
    manifest = dict(
        text=("Machine-checked theorems (Coq 8.16, no axioms) about a lock machine (threads = lists of Acq/Rel/Read/Write, state = owner, "
              "depth, remaining programs, version, history; schedules = arbitrary lists of thread ids): for every number of threads, "
              "every family of bracketed programs and every schedule, every read happens while its thread owns the lock, no event of "
              "another thread lies between an outermost acquire and its release, a snapshot (no write, one outermost section) sees one "
              "version which is one at which the lock was free, the owner is never blocked, depth returns to 0, no deadlock and every "
              "schedule extends to completion.  The lock skeleton of every snapshot operation is lifted from the source on every run "
              "and proved bracketed / single-section for all unfoldings (recursion and dynamic dispatch included).  Tied to the code by "
              "(i) those generated skeletons, (ii) recorded single-threaded traces of every operation that must be unfoldings of them, "
              "(iii) real-thread scenarios (parked writer / nested owner) and re-execution of schedules on the tree's real RLock, all "
              "compared with the machine evaluated by vm_compute, plus an independent Python oracle."),
        note=("Partial by nature: threading.RLock, the GIL and the atomicity of individual Python reads are the runtime and are modelled, "
              "not verified; the model is of the bracket discipline.  Trusted: Coq kernel + vm_compute; gen_facts lock-skeleton walk "
              "(list of structural attributes); harness instrumentation.  Real-thread checks wait a bounded time and can only fail to "
              "detect.  Print Assumptions: closed under the global context for all theorems."),
        technique="Coq proof about an executable lock machine (induction over schedules with an invariant) + generated lock skeletons "
                  "(vm_compute obligations) + recorded traces, real-thread scenarios and schedule re-execution compared by vm_compute "
                  "+ Python oracle",
        design_ref="DESIGN.md section 6 (C18), section 4.1, D38",
    )

    # ----- generation
    def descs(self, tier, rng):
        thorough = tier != "quick"
        yield from CORPUS
        shapes = ["mixed", "one", "deep"] if not thorough else list(SHAPES)
        for typed in (False, True):
            for op in OPS:
                for sh in shapes:
                    yield dict(k="trace", typed=typed, op=op, shape=sh)
        nests = [1, 2] if not thorough else [1, 2, 3, 5]
        for typed in (False, True):
            for op in OPS:
                if op in TRACE_ONLY_OPS:
                    continue
                for nest in nests:
                    yield dict(k="owner", typed=typed, op=op, shape="mixed", nest=nest)
        parks = [(1, 1)] if not thorough else [(1, 1), (2, 1), (1, 3)]
        for typed in (False, True):
            for op in OPS:
                if op in NO_PARK_OPS:
                    continue
                for nw1, nw2 in parks:
                    yield dict(k="park", typed=typed, op=op, shape="mixed" if (nw1, nw2) == (1, 1) else "chain", nw1=nw1, nw2=nw2)
        # self-tests of the lock-skeleton extractor (harness/test_gen_facts_lock.py): lazy views that survive the block
        import test_gen_facts_lock as TL
        for name in list(TL.BAD) + list(TL.GOOD):
            yield dict(k="extractor", shape=name)
        # an operation raised / was refused (the caller caught it); then ANOTHER thread uses the tree
        for typed in (False, True):
            for op in RAISING_OPS:
                yield dict(k="after", typed=typed, op=op, shape="mixed")
            yield dict(k="after", typed=typed, op="copy_to", shape="empty")      # ValueError: nothing to copy
            yield dict(k="trace", typed=typed, op="copy_to", shape="empty")
            if thorough:
                for op in RAISING_OPS:
                    yield dict(k="after", typed=typed, op=op, shape="deep")
        # private snapshots: nothing that leaves the locked phase of save()/to_dict_list() may BE live node data
        for typed in (False, True):
            for data_kind in ("dictwrapper", "str"):
                for mp in MAPPERS:
                    if mp == "dictwrapper" and data_kind != "dictwrapper":
                        continue
                    for via in ("save_stream", "save_path", "to_dict_list"):
                        yield dict(k="alias", typed=typed, data=data_kind, mapper=mp, via=via)
                    # ... and the schedule: reader inside json.dump (lock released) / inside to_dotfile's write (lock
                    # held) while a writer changes two nodes' data in place inside ONE `with tree:`
                    for via in ("save", "to_dotfile"):
                        if via == "to_dotfile" and (mp != "none" or data_kind != "str"):
                            continue      # (DOT ids of DictWrapper data are object ids: documents not comparable)
                        yield dict(k="dump", typed=typed, data=data_kind, mapper=mp, via=via)
            # D93 (unchanged code): DictWrapper.serialize_mapper copies SHALLOWLY - a mutable value inside the
            # wrapped dict is still shared with the document that json.dump reads after the release
            # (only save: what to_dict_list RETURNS may share the user's nested values by design - without a mapper it
            #  hands out the data objects themselves - so that is not demanded of it)
            for via in ("save_stream",):
                yield dict(k="alias", typed=typed, data="dictwrapper_nested", mapper="dictwrapper", via=via)
            yield dict(k="dump", typed=typed, data="dictwrapper_nested", mapper="dictwrapper", via="save")
        # the owner calls an operation inside `with tree:` while a reader is already blocked on the tree lock
        pairs = [(op, op) for op in GOOD_OPS] + [("save_path", "to_dotfile_path"), ("to_dotfile_path", "save_path"),
                                                  ("save_path", "save"), ("with", "save_path")]
        if thorough:
            pairs += [(a, b) for a in ("save_path", "to_dotfile_path", "copy_to", "save") for b in GOOD_OPS if a != b]
        for typed in (False, True):
            for rop, wop in pairs:
                yield dict(k="inv", typed=typed, rop=rop, wop=wop, shape="mixed", nw1=1, nw2=1)
        free_ops = ["copy", "copy_to", "to_dict_list", "save", "save_path", "to_dotfile", "with", "copy_to_shallow", "to_dotfile_path"]
        for r in range(3 if not thorough else 24):
            typed = bool(r % 2)
            rops = [free_ops[(2 * r + i) % len(free_ops)] for i in range(2 + r % 2)]
            yield dict(k="free", typed=typed, writers=1 + r % 2, sections=4, calls=5, readers=rops, n=r)
        # all schedules of small two-thread families
        fams = [([A, W, W, L], [A, R, R, L]), ([A, A, W, L, L], [A, R, L]), ([A, R, A, R, L, L], [A, W, L])]
        for fam in fams:
            total = sum(len(p) for p in fam)
            n = total + 1
            if not thorough and n > 8:
                n = 8
            for s in itertools.product(range(2), repeat=n):
                yield dict(k="sched", ps=[list(p) for p in fam], sched=list(s))
        if thorough:
            fam = ([A, W, L], [A, R, L], [A, R, L])
            for s in itertools.product(range(3), repeat=8):
                yield dict(k="sched", ps=[list(p) for p in fam], sched=list(s))
        nrand = 250 if not thorough else 4000
        for _ in range(nrand):
            nt = rng.choice([1, 2, 2, 3, 3, 4])
            disciplined = rng.random() < 0.75
            ps = []
            for t in range(nt):
                if disciplined:
                    p = gen_bracketed(rng, rng.randint(2, 8), writer=rng.random() < 0.5)
                    if rng.random() < 0.25:          # a thread that also looks at the tree without the lock
                        for _ in range(rng.randint(1, 2)):
                            p.insert(rng.randrange(len(p) + 1), R)
                    ps.append(p)
                else:
                    ps.append([rng.choice([A, A, L, L, R, W]) for _ in range(rng.randint(0, 6))])
            total = sum(len(p) for p in ps)
            sched = []
            while len(sched) < total + rng.randint(0, total + 2):
                t = rng.randrange(0, nt + 2)       # nt, nt+1: no such thread
                sched.extend([t] * rng.choice([1, 1, 1, 2, 3, 5]))
            yield dict(k="sched", ps=ps, sched=sched)

    def shrink_candidates(self, desc):
        if desc.get("k") != "sched":
            return
        s = desc["sched"]
        for i in range(len(s)):
            yield dict(desc, sched=s[:i] + s[i + 1:])
        for t, p in enumerate(desc["ps"]):
            if p:
                ps = [list(q) for q in desc["ps"]]
                ps[t] = p[:-1]
                yield dict(desc, ps=ps)

    # ----- one case
    def run(self, desc) -> Case:
        k = desc["k"]
        if k == "sched":
            return self.run_sched(desc)
        if k == "extractor":
            return self.run_extractor(desc)
        # a real-thread scenario that FAILED may have left threads stuck for ever (holding a class-level lock,
        # say): running it again in this process observes the debris, not the scenario.  The first failing
        # verdict is kept for the rest of the process; `--replay` (a fresh process) runs it afresh.
        key = H.digest(desc)
        if key in _FAILED:
            return _FAILED[key]
        c = self._run_threads(desc)
        if c.oracle_fail and k in ("park", "owner", "free", "after", "inv", "dump"):
            _FAILED[key] = c
        return c

    def _run_threads(self, desc) -> Case:
        k = desc["k"]
        tmp = tempfile.mkdtemp(prefix="c18_", dir=str(H.WORK))
        try:
            if k == "trace":
                return self.run_trace(desc, tmp)
            if k == "park":
                return self.run_park(desc, tmp)
            if k == "owner":
                return self.run_owner(desc, tmp)
            if k == "free":
                return self.run_free(desc, tmp)
            if k == "after":
                return self.run_after(desc, tmp)
            if k == "inv":
                return self.run_inv(desc, tmp)
            if k == "alias":
                return self.run_alias(desc, tmp)
            if k == "dump":
                return self.run_dump(desc, tmp)
        finally:
            shutil.rmtree(tmp, ignore_errors=True)
        raise ValueError(k)

    # --- extractor: the trusted lexical walk of gen_facts, on synthetic methods (audit finding C18/1)
    def run_extractor(self, desc):
        import test_gen_facts_lock as TL

        name = desc["shape"]
        ok, outcome, paths = TL.check(name)
        bad = name in TL.BAD
        flat = [[{"A": A, "L": L, "R": R}[e] for e in p if isinstance(e, str)] for p in (paths or [])]
        # the path shown to the model: an unbracketed one for a BAD shape, the first one otherwise
        tr = next((p for p in flat if not py_bracketed(p)), flat[0] if flat else []) if bad else (flat[0] if flat else [])
        fail = None
        if not ok:
            fail = (f"extractor: gen_facts.lock_skeleton on the synthetic method `{name}` "
                    + ("lifts a bracketed skeleton although a lazy view of the tree is consumed after the release"
                       if bad else f"does not lift the bracketed skeleton of a materialising method ({outcome})"))
        coq = f"CTrace {H.coq_text('exc:extractor')} {H.coq_list(str(e) for e in tr)}"
        return Case(desc=desc, coq_input=coq, impl_obs=trace_obs(tr, member=False), oracle_fail=fail, nontrivial=bool(paths),
                    key=H.digest(desc), stats=dict(kind="extractor", expected="unbracketed-or-refused" if bad else "bracketed",
                                                   outcome=outcome.split(":")[0]))

    # --- sched
    def run_sched(self, desc):
        ps, sched = desc["ps"], desc["sched"]
        ticks, final, owners_before = exec_sched(ps, sched)
        fail = None
        if all(py_disciplined(p) for p in ps):
            fail = sched_oracle(ps, sched, ticks, final, owners_before)
        coq = (f"CSched {H.coq_list(H.coq_list(str(e) for e in p) for p in ps)} "
               f"{H.coq_list(H.z(t) for t in sched)}")
        nested = any(py_bracketed(p) and max(itertools.accumulate([1 if e == A else -1 if e == L else 0 for e in p]), default=0) > 1 for p in ps)
        refused = sum(1 for t in ticks if t[0] == 1)
        return Case(desc=desc, coq_input=coq, impl_obs=[ticks, final], oracle_fail=fail,
                    nontrivial=bool(refused or nested), key=H.digest([ps, sched]),
                    stats=dict(kind="sched", threads=len(ps), refused_ticks=min(refused, 6),
                               family=("bracketed" if all(py_bracketed(p) for p in ps) else
                                       "disciplined" if all(py_disciplined(p) for p in ps) else "arbitrary"),
                               release_errors=min(sum(1 for t in ticks if t[0] == 3), 3)))

    # --- trace
    def _traced(self, desc, tmp):
        tree = build_tree(desc["typed"], desc["shape"])
        label = label_of(tree, desc["op"])
        tree._lock = RecLock(tree._lock, tree)
        raw, res, finished = record(tree, lambda: run_op(tree, desc["op"], tmp))
        return tree, label, collapse(raw), len(raw), (res if finished else None)

    def run_trace(self, desc, tmp):
        tree, label, tr, nraw, res = self._traced(desc, tmp)
        fail = trace_oracle(tr, label)
        if res is None:
            fail = (f"trace: {label} [{''.join(EV_NAMES[e] for e in tr)}]: the operation does not return "
                    "(it blocks on the lock its own thread holds: the lock is not re-entrant)")
        res = res or "ERR:hang"
        exc = desc["op"] in EXC_EXIT_OPS
        coq = f"CTrace {H.coq_text(('exc:' if exc else '') + label)} {H.coq_list(str(e) for e in tr)}"
        return Case(desc=desc, coq_input=coq, impl_obs=trace_obs(tr, member=not exc), oracle_fail=fail, nontrivial=R in tr,
                    key=H.digest(desc), stats=dict(kind="trace", label=label, trace="".join(EV_NAMES[e] for e in tr),
                                                   raw_events=min(nraw // 10 * 10, 200), result_error=res.startswith("ERR")))

    # --- park: real threads
    def run_park(self, desc, tmp):
        typed, op, nw1, nw2 = desc["typed"], desc["op"], desc["nw1"], desc["nw2"]
        # the reader's program = the trace the same call records single-threaded (checked against the generated skeleton)
        _, label, tr, _, _ = self._traced(desc, tmp)
        tree = build_tree(typed, desc["shape"])
        usable = not (typed and op in TYPED_RESULT_UNUSABLE)
        r0 = run_op_guarded(tree, op, tmp)
        parked, go, started, done = (threading.Event() for _ in range(4))
        box = {}

        def writer():
            try:
                with tree:
                    for i in range(nw1):
                        mutate(tree, typed, i)
                    box["mid"] = run_op(tree, op, tmp)          # the owner calls the operation re-entrantly
                    parked.set()
                    go.wait(20)
                    for i in range(nw1, nw1 + nw2):
                        mutate(tree, typed, i)
            except Exception as e:  # noqa: BLE001
                box["werr"] = repr(e)
                parked.set()

        def reader():
            started.set()
            box["res"] = run_op(tree, op, tmp)
            done.set()

        tw = threading.Thread(target=writer, daemon=True)
        tr_ = threading.Thread(target=reader, daemon=True)
        tw.start()
        parked_ok = parked.wait(T(20))
        if not parked_ok:
            _STATE["deadlock_seen"] = True
        tr_.start()
        started.wait(T(20))
        early = done.wait(0.12)            # must NOT happen; a slow reader is merely not detected
        go.set()
        tw.join(T(20))
        late = done.wait(T(20))
        tr_.join(T(1))
        free = pool(1)[0].call(lambda: (tree._lock.acquire(blocking=False) and (tree._lock.release() or True)) or False)
        rfin = run_op_guarded(tree, op, tmp) if free else "ERR:locked"
        res = box.get("res")
        cands = {0: r0, nw1: box.get("mid"), nw1 + nw2: rfin}
        seen = [v for v, r in sorted(cands.items()) if r is not None and r == res]
        if not usable:
            seen = [nw1 + nw2] if late else []
        want = [nw1 + nw2] if R in tr else []
        if R not in tr and late:
            seen = []
        obs_run = [bool(early), bool(late), seen if (seen or R not in tr) else [-1], bool(free)]
        fail = trace_oracle(tr, label)
        if fail is None:
            if "werr" in box or not parked_ok:
                fail = f"park: {label}: the owner could not call the operation inside `with tree:` ({box.get('werr', 'deadlock')})"
            elif early:
                fail = f"park: {label}: reader completed while the writer was inside `with tree:` (saw {seen})"
            elif not late:
                fail = f"park: {label}: reader did not complete after the release"
            elif usable and seen != want:
                fail = f"park: {label}: reader's result is not the committed state (matches versions {seen}, committed {nw1 + nw2})"
            elif not free:
                fail = f"park: {label}: lock not free at the end"
        coq = f"CPark {H.coq_text(label)} {H.coq_list(str(e) for e in tr)} {nw1} {nw2}"
        return Case(desc=desc, coq_input=coq, impl_obs=[trace_obs(tr), obs_run], oracle_fail=fail, nontrivial=R in tr,
                    key=H.digest(desc), stats=dict(kind="park", label=label, early=bool(early), result_compared=usable))

    # --- after: an operation raises (refusal, failing callback); the caller catches; then another thread
    #     must be able to enter `with tree:` and run every operation ("depth returns to 0" on the exceptional exit)
    def run_after(self, desc, tmp):
        typed, op, shape = desc["typed"], desc["op"], desc["shape"]
        tree = build_tree(typed, shape)
        label = label_of(tree, op)
        before = {g: run_op_guarded(tree, g, tmp) for g in GOOD_OPS} if shape != "empty" else {}
        ygood = [g for g in GOOD_OPS if shape != "empty" or g not in ("copy_to", "copy_to_shallow")]
        # the programs of the second thread: what each operation records single-threaded on an equal tree
        ytr = []
        for g in ygood:
            _, _, t_g, _, _ = self._traced(dict(desc, op=g), tmp)
            ytr.extend(t_g)
        tree._lock = RecLock(tree._lock, tree)
        # thread X runs the failing operation and then STAYS ALIVE until the probes are done (a finished
        # thread's ident may be reused by the next thread, which would then "own" a leaked RLock)
        raw: list = []
        xdone, xexit = threading.Event(), threading.Event()
        xbox = {}

        def xbody():
            _ARM.update(tree=tree, log=raw, tid=threading.get_ident())
            try:
                xbox["res"] = run_op(tree, op, tmp)
            finally:
                _ARM.update(tree=None, log=None, tid=None)
                xdone.set()
            xexit.wait(120)

        threading.Thread(target=xbody, daemon=True).start()
        finished = xdone.wait(T(20))
        if not finished:
            _STATE["deadlock_seen"] = True
            _ARM.update(tree=None, log=None, tid=None)
        res = xbox.get("res")
        xtr = collapse(list(raw))
        raised = bool(res and res.startswith("ERR"))
        target = tree.__dict__.get("_c18_target")
        out = {}

        def second():
            with tree:
                out["with"] = True
            for g in ygood:
                out[g] = run_op(tree, g, tmp)
            return True

        y_ok, _ = guarded(second, T(10))
        target_free = True
        if target is not None:
            # asked by a long-lived pool thread (never an ident that a finished thread may have had)
            target_free = bool(pool(1)[0].call(lambda: (target._lock.acquire(blocking=False) and (target._lock.release() or True)) or False))
        xexit.set()
        fail = trace_oracle(xtr, label) if finished else f"after: {label}: the failing operation itself does not return"
        if fail and fail.startswith("trace:"):
            fail = "after:" + fail[len("trace:"):] + f" (the operation raised {res})"
        name = "".join(EV_NAMES[e] for e in xtr)
        if fail is None:
            if not y_ok:
                fail = (f"after: {label} [{name}] raised {res}; afterwards another thread hangs in `with tree:` / "
                        f"{[g for g in ygood if g not in out][:1]} although no thread is inside a critical section")
            elif not target_free:
                fail = f"after: {label} raised {res}; afterwards the lock of the TARGET tree is still owned by the (finished) caller"
            elif before and any(out[g] != before[g] for g in ygood if g in before):
                bad = [g for g in ygood if g in before and out[g] != before[g]][0]
                fail = f"after: {label} raised {res}; afterwards {bad} in another thread gives a different result than before"
        elif not y_ok:
            fail += "; afterwards another thread hangs in `with tree:` although no thread is inside a critical section"
        ps = [xtr, [A, R, L] + ytr]
        sched = [0] * len(xtr) + [1] * len(ps[1])
        obs = [bool(finished and y_ok), bool(y_ok), all(py_bracketed(p) for p in ps), [[0] if y_ok else []]]
        if not y_ok:                       # the model replays X's recorded events: it predicts how far Y gets
            obs[3] = [[]]
        coq = (f"CHist {H.coq_list(H.coq_list(str(e) for e in p) for p in ps)} {H.coq_list(str(t) for t in sched)} "
               f"{H.coq_list(['1'])}")
        return Case(desc=desc, coq_input=coq, impl_obs=obs, oracle_fail=fail, nontrivial=raised,
                    key=H.digest(desc), stats=dict(kind="after", label=label, raised=raised, xtrace=name))

    # --- alias: the materialised snapshot must be made of private objects
    def run_alias(self, desc, tmp):
        typed, data_kind, mp, via = desc["typed"], desc["data"], desc["mapper"], desc["via"]
        tree, a, b, c = build_dw_tree(typed, data_kind)
        mapper = MAPPERS[mp](tree)
        label = label_of(tree, "save" if via.startswith("save") else "to_dict_list")
        tree._lock = RecLock(tree._lock, tree)
        box = {}

        def call():
            if via == "to_dict_list":
                box["doc"] = tree.to_dict_list(mapper=mapper) if mapper is not None else tree.to_dict_list()
            else:
                target = io.StringIO() if via == "save_stream" else f"{tmp}/alias.json"
                box["doc"] = capture_save_document(tree, mapper, target)
            return "ok"

        def guarded_call():
            try:
                return call()
            except Exception as e:  # noqa: BLE001
                return _err(e)

        raw, res, finished = record(tree, guarded_call)
        tr = collapse(raw)
        shared = aliases(box.get("doc"), tree) if box.get("doc") is not None else []
        # a result that still refers to live node data is read when it is consumed: by json.dump (recorded by the spy at
        # that moment - TypedTree.save serialises inside its outer bracket, Tree.save after the release), by the
        # caller of to_dict_list after the return
        tr_eff = tr + ([R] if shared and via == "to_dict_list" else [])
        fail = (None if trace_oracle(tr_eff, label) is None or shared else trace_oracle(tr_eff, label)) if finished \
            else f"alias: {label}: the operation does not return"
        if fail is None and shared and trace_oracle(tr_eff, label) is not None:
            what = "the document handed to json.dump after the lock was released" if via.startswith("save") else "the returned list"
            fail = (f"alias: {label}(mapper={mp}, data={data_kind}): {what} contains LIVE node data ({shared[0]}"
                    f"{' and %d more' % (len(shared) - 1) if len(shared) > 1 else ''}): it is read outside `with tree:`")
        finding = None
        if fail and shared and data_kind == "dictwrapper_nested" and all("['tags'] IS " in x and x.endswith("['tags']") for x in shared):
            finding = "D93"       # exactly the nested lists, nothing else: the shallow copy of the unchanged code
        err = bool(res and str(res).startswith("ERR"))
        member = not shared and not err
        tr = tr_eff
        coq = f"CTrace {H.coq_text(('' if member else 'exc:') + label)} {H.coq_list(str(e) for e in tr_eff)}"
        return Case(desc=desc, coq_input=coq, impl_obs=trace_obs(tr_eff, member=member), oracle_fail=fail, finding=finding, nontrivial=R in tr,
                    key=H.digest(desc), stats=dict(kind="alias", label=label, mapper=mp, data=data_kind, aliased=min(len(shared), 3),
                                                   result_error=err))

    # --- dump: the reader is in the serialisation phase while a writer changes node data IN PLACE in one section
    def run_dump(self, desc, tmp):
        typed, data_kind, mp, via = desc["typed"], desc["data"], desc["mapper"], desc["via"]

        def mutate_first(a, b):
            if data_kind.startswith("dictwrapper"):
                a.data["balance"] -= 50
                if "tags" in a.data._dict:
                    a.data["tags"].append("debited")
            else:
                a.set_data("a:50")

        def mutate_second(a, b):
            if data_kind.startswith("dictwrapper"):
                b.data["balance"] += 50
                if "tags" in b.data._dict:
                    b.data["tags"].append("credited")
            else:
                b.set_data("b:50")

        def run_op_stream(tree, stream):
            mapper = MAPPERS[mp](tree)
            if via == "save":
                tree.save(stream, mapper=mapper) if mapper is not None else tree.save(stream)
            else:
                tree.to_dotfile(stream)

        def doc_at(k):                       # the document of an equal tree after k of the two mutations
            t, a, b, _ = build_dw_tree(typed, data_kind)
            if k >= 1:
                mutate_first(a, b)
            if k >= 2:
                mutate_second(a, b)
            fp = io.StringIO()
            try:
                run_op_stream(t, fp)
            except Exception as e:  # noqa: BLE001
                return _err(e)
            return fp.getvalue()

        docs = [doc_at(k) for k in range(3)]
        tree, a, b, _ = build_dw_tree(typed, data_kind)
        label = label_of(tree, via)
        plock = ProbeLock(tree._lock)
        tree._lock = plock
        first_write, resume, reader_done, writer_done = (threading.Event() for _ in range(4))
        stream = PausingStream(first_write, resume, T(20))
        box = {}

        def reader():
            try:
                run_op_stream(tree, stream)
            except Exception as e:  # noqa: BLE001
                box["rerr"] = _err(e)
            reader_done.set()

        def writer():
            plock.waiting[threading.get_ident()] = resume      # blocked on the tree lock (reader writes under it): go on
            if not first_write.wait(T(20)):
                box["werr"] = "reader never wrote"
                resume.set()
                return
            with tree:
                mutate_first(a, b)
                resume.set()                                   # half-way through the critical section
                box["reader_done_inside"] = reader_done.wait(T(20)) if not box.get("skip") else True
                mutate_second(a, b)
            writer_done.set()

        unusable = any(d.startswith("ERR") for d in docs) or len(set(docs)) < 3
        tw = threading.Thread(target=writer, daemon=True)
        tr_ = threading.Thread(target=reader, daemon=True)
        tr_.start()
        tw.start()
        rfin = reader_done.wait(T(30))
        wfin = writer_done.wait(T(30))
        text = stream.getvalue()
        seen = [k for k in range(3) if docs[k] == text]
        fail = None
        if "rerr" in box and not unusable:
            fail = f"dump: {label}: the reader failed: {box['rerr']}"
        elif not rfin or not wfin or stream.timed_out or "werr" in box:
            fail = f"dump: {label}: threads did not complete ({box.get('werr', 'timeout')})"
            _STATE["deadlock_seen"] = True     # one long wait establishes it: later waits of this run are short (see T)
        elif not unusable and seen != [0]:
            fail = (f"dump: {label}(mapper={mp}, data={data_kind}): the written document is not a state between two critical "
                    f"sections: the reader had taken its snapshot before the writer entered `with tree:`, but the document "
                    f"{'equals state %d' % seen[0] if seen else 'is the state in the MIDDLE of the section / a mixture'}")
        finding = None
        if fail and data_kind == "dictwrapper_nested" and not seen and rfin and wfin:
            try:      # exactly the shallow-copy effect: state 0 everywhere except the nested lists
                got, want = json.loads(text), json.loads(docs[0])
                strip = lambda d: json.loads(json.dumps(d).replace('"debited"', '"x"').replace('"credited"', '"x"'))  # noqa: E731
                flat = lambda d: [{k: v for k, v in e[1].items() if k != "tags"} for e in d["nodes"]]  # noqa: E731
                if flat(got) == flat(want) and strip(got) != strip(want) or flat(got) == flat(want):
                    finding = "D93"
            except Exception:  # noqa: BLE001
                pass
        # model: the reader's recorded program, split where its first write() paused; a document that still refers to
        # live node data is one more Read when it is serialised (after the pause).  The writer gets in at the pause
        # iff the reader does not hold the lock there.
        pre, post = self._traced_dw(typed, data_kind, run_op_stream)
        held = sum(1 if e == A else -1 if e == L else 0 for e in pre)
        ps = [pre + post, [A, W, W, L]]
        sched = [0] * len(pre) + ([1, 1] if held == 0 else []) + [0] * len(post) + ([1, 1] if held == 0 else [1] * 4)
        ok_seen = [0] if (unusable or seen == [0]) else [0, 1]     # structure at 0, (some) data from inside the section
        obs = [bool(rfin and wfin), True, all(py_bracketed(p) for p in ps), [ok_seen if R in ps[0] else []]]
        coq = (f"CHist {H.coq_list(H.coq_list(str(e) for e in p) for p in ps)} {H.coq_list(str(t) for t in sched)} "
               f"{H.coq_list(['0'])}")
        return Case(desc=desc, coq_input=coq, impl_obs=obs, oracle_fail=fail, finding=finding, nontrivial=not unusable,
                    key=H.digest(desc), stats=dict(kind="dump", label=label, mapper=mp, data=data_kind, compared=not unusable))

    def _traced_dw(self, typed, data_kind, run_op_stream):
        """(events before the first write(), events from there on) of the operation on an equal tree, single-threaded;
        the second part starts with a Read if the document handed to json.dump still refers to live node data."""
        import json as _json

        tree, _, _, _ = build_dw_tree(typed, data_kind)
        tree._lock = RecLock(tree._lock, tree)
        mark = {"split": None, "leak": False}
        orig = _json.dump

        def spy(obj, fp, *a, **k):
            mark["leak"] = mark["leak"] or bool(aliases(obj, tree))
            return orig(obj, fp, *a, **k)

        class Marking(io.StringIO):
            def write(self2, text):
                if mark["split"] is None:
                    mark["split"] = len(_ARM["log"]) if _ARM["log"] is not None else 0
                    if mark["leak"]:
                        _rec(tree, R)
                return super().write(text)

        def call():
            try:
                run_op_stream(tree, Marking())
                return "ok"
            except Exception as e:  # noqa: BLE001
                return _err(e)

        _json.dump = spy
        try:
            raw, res, finished = record(tree, call)
        finally:
            _json.dump = orig
        k = len(raw) if mark["split"] is None else mark["split"]
        return collapse(raw[:k]), collapse(raw[k:])

    # --- inv: the owner calls an operation nested while a reader is ALREADY blocked on the tree lock
    def run_inv(self, desc, tmp):
        typed, rop, wop, nw1, nw2, shape = desc["typed"], desc["rop"], desc["wop"], desc["nw1"], desc["nw2"], desc["shape"]
        _, label_r, tr_r, _, _ = self._traced(dict(desc, op=rop), tmp)
        _, label_w, tr_w, _, _ = self._traced(dict(desc, op=wop), tmp)

        def expected(op, k):               # the operation on an equal tree after k mutations, single-threaded
            t = build_tree(typed, shape)
            for i in range(k):
                mutate(t, typed, i)
            return run_op_guarded(t, op, tmp)

        exp_mid, exp_fin = expected(wop, nw1), expected(rop, nw1 + nw2)
        tree = build_tree(typed, shape)
        plock = ProbeLock(tree._lock)
        tree._lock = plock
        parked, go_nested, nested_done, go_exit, r_waiting, r_done, w_done = (threading.Event() for _ in range(7))
        box = {}

        def writer():
            with tree:
                for i in range(nw1):
                    mutate(tree, typed, i)
                parked.set()
                go_nested.wait(60)
                box["mid"] = run_op(tree, wop, tmp)     # nested, while the reader waits for the tree lock
                nested_done.set()
                go_exit.wait(60)
                for i in range(nw1, nw1 + nw2):
                    mutate(tree, typed, i)
            w_done.set()

        def reader():
            plock.waiting[threading.get_ident()] = r_waiting
            box["res"] = run_op(tree, rop, tmp)
            r_done.set()

        tw = threading.Thread(target=writer, daemon=True)
        tr_ = threading.Thread(target=reader, daemon=True)
        tw.start()
        parked.wait(T(20))
        tr_.start()
        reached = r_waiting.wait(T(20))     # the reader is at the tree lock (holding whatever it took before)
        early = r_done.wait(0.03)
        go_nested.set()
        nested_ok = nested_done.wait(T(10))
        if not nested_ok:
            _STATE["deadlock_seen"] = True
        go_exit.set()
        wfin = w_done.wait(T(10))
        late = r_done.wait(T(10))
        free = bool(pool(1)[0].call(lambda: (tree._lock.acquire(blocking=False) and (tree._lock.release() or True)) or False))
        seen_r = ([nw1 + nw2] if box.get("res") == exp_fin else [-1]) if R in tr_r else []
        seen_w = ([nw1] if box.get("mid") == exp_mid else [-1]) if R in tr_w else []
        obs_run = [bool(early), bool(nested_ok), bool(wfin), bool(late), seen_r, seen_w, free]
        fail = trace_oracle(tr_r, label_r) or trace_oracle(tr_w, label_w)
        if fail is None:
            if not reached:
                fail = (f"inv: {label_r}: the reader never reached the tree lock: it hangs before, on something a stuck "
                        "thread still holds (a second lock taken before the tree lock)")
            elif early:
                fail = f"inv: {label_r}: reader completed while the writer was inside `with tree:`"
            elif not nested_ok:
                fail = (f"inv: DEADLOCK: the lock owner hangs in {wop} ({label_w}) inside its own `with tree:` while a reader "
                        f"is blocked in {rop} ({label_r}): the reader holds something the owner needs (lock order)")
            elif not wfin or not late:
                fail = f"inv: {label_r}/{label_w}: {'writer' if not wfin else 'reader'} did not complete after the nested call"
            elif seen_w not in ([nw1], []):
                fail = f"inv: {label_w}: the owner's nested result is not its own current state"
            elif seen_r not in ([nw1 + nw2], []):
                fail = f"inv: {label_r}: the reader's result is not the committed state"
            elif not free:
                fail = "inv: lock not free at the end"
        coq = (f"CInv {H.coq_text(label_r)} {H.coq_list(str(e) for e in tr_r)} {H.coq_text(label_w)} "
               f"{H.coq_list(str(e) for e in tr_w)} {nw1} {nw2}")
        return Case(desc=desc, coq_input=coq, impl_obs=[trace_obs(tr_r), trace_obs(tr_w), obs_run], oracle_fail=fail,
                    nontrivial=R in tr_r and R in tr_w, key=H.digest(desc),
                    stats=dict(kind="inv", reader=label_r, owner=label_w, reached=bool(reached)))

    # --- free: free-running writers and readers; the recorded global history is replayed on the machine
    def run_free(self, desc, tmp):
        import re
        import time

        typed, nwr, sections, calls, rops = desc["typed"], desc["writers"], desc["sections"], desc["calls"], desc["readers"]
        tree = build_tree(typed, "mixed")
        tree._lock = FreeLock(tree._lock)
        hist: list = []
        ids: dict = {}
        n = nwr + len(rops)
        barrier = threading.Barrier(n)
        results: list = [[] for _ in range(n)]
        _FREE.update(tree=tree, hist=hist, ids=ids)

        def add(name, j):
            if typed:
                tree.add(name, kind=f"K{name[1:]}")
            else:
                tree.add(name)
            hist.append((j, W))

        def writer(j):
            ids[threading.get_ident()] = j
            barrier.wait(30)
            for sec in range(sections):
                with tree:
                    add(f"w{j}_{2 * sec}", j)
                    time.sleep(0.0004)        # invite a thread switch in the middle of the critical section
                    if sec % 2:
                        with tree:            # nested section
                            add(f"w{j}_{2 * sec + 1}", j)
                    else:
                        add(f"w{j}_{2 * sec + 1}", j)
                time.sleep(0)

        def reader(j, op):
            ids[threading.get_ident()] = j
            barrier.wait(30)
            for _ in range(calls):
                results[j].append(run_op(tree, op, tmp))
                time.sleep(0.0002)

        ths = [threading.Thread(target=writer, args=(j,), daemon=True) for j in range(nwr)]
        ths += [threading.Thread(target=reader, args=(nwr + i, op), daemon=True) for i, op in enumerate(rops)]
        for th in ths:
            th.start()
        alive = False
        for th in ths:
            th.join(T(30))
            alive = alive or th.is_alive()
        if alive:
            _STATE["deadlock_seen"] = True
        _FREE.update(tree=None, hist=None, ids={})
        hist = list(hist)
        ps = [[e for i, e in hist if i == j] for j in range(n)]
        sched = [i for i, _ in hist]

        def dedup(l):
            return [x for k, x in enumerate(l) if k == 0 or l[k - 1] != x]

        seen = []
        fail = None
        for j in range(nwr, n):
            vs = []
            for res in results[j]:
                names = re.findall(r"w(\d+)_\d+", res)
                vs.append(len(names))
                for w in range(nwr):
                    if names.count(str(w)) % 2 and fail is None:
                        fail = (f"free: {rops[j - nwr]}: a snapshot contains an odd number of writer {w}'s nodes: "
                                "it was taken in the middle of that writer's `with tree:` section")
            if vs != sorted(vs) and fail is None:
                fail = f"free: {rops[j - nwr]}: successive snapshots go back in time {vs}"
            seen.append(dedup(vs))
        holder, depth = None, 0
        for k, (i, e) in enumerate(hist):
            if e == A:
                if holder not in (None, i) and fail is None:
                    fail = f"free: event {k}: lock granted to thread {i} while thread {holder} owns it"
                holder, depth = i, depth + 1
            else:
                if holder != i and fail is None:
                    fail = f"free: event {k}: thread {i} does {EV_NAMES[e]} ({'reader ' + rops[i - nwr] if i >= nwr else 'writer'}) without owning the lock"
                if e == L and holder == i:
                    depth -= 1
                    if depth == 0:
                        holder = None
        if alive and fail is None:
            fail = "free: threads did not finish (deadlock)"
        total = 2 * sections * nwr
        if fail is None and any(len(results[j]) != calls for j in range(nwr, n)):
            fail = "free: a reader did not complete its calls"
        obs = [not alive, True, all(py_bracketed(p) for p in ps), seen]
        coq = (f"CHist {H.coq_list(H.coq_list(str(e) for e in p) for p in ps)} {H.coq_list(str(t) for t in sched)} "
               f"{H.coq_list(str(j) for j in range(nwr, n))}")
        mid = sum(1 for vs in seen for v in vs if 0 < v < total)
        return Case(desc=desc, coq_input=coq, impl_obs=obs, oracle_fail=fail, nontrivial=mid > 0,
                    key=H.digest([ps, sched]), stats=dict(kind="free", events=min(len(hist) // 50 * 50, 1000),
                                                          snapshots_between_sections=min(mid, 10)))

    # --- owner: nested `with tree:` + operation inside, contender probes
    def run_owner(self, desc, tmp):
        typed, op, nest = desc["typed"], desc["op"], desc["nest"]
        _, label, tr, _, _ = self._traced(desc, tmp)
        tree = build_tree(typed, desc["shape"])
        usable = not (typed and op in TYPED_RESULT_UNUSABLE)
        r0 = run_op_guarded(tree, op, tmp)
        op_done, probe_done, finished = (threading.Event() for _ in range(3))
        box = {}

        def owner():
            def nested(n):
                if n == 0:
                    box["res"] = run_op(tree, op, tmp)
                    op_done.set()
                    probe_done.wait(20)
                    return
                with tree:
                    nested(n - 1)
            try:
                nested(nest)
            except Exception as e:  # noqa: BLE001
                box["oerr"] = repr(e)
            finished.set()

        to = threading.Thread(target=owner, daemon=True)
        to.start()
        op_ok = op_done.wait(T(20))
        if not op_ok:
            _STATE["deadlock_seen"] = True
        contender = pool(1)[0]

        def probe():
            if tree._lock.acquire(blocking=False):
                tree._lock.release()
                return True
            return False

        mid_granted = contender.call(probe)
        probe_done.set()
        fin = finished.wait(T(20) if op_ok else 0.5)
        end_granted = contender.call(probe)
        res = box.get("res")
        seen = [0] if (res == r0 or (not usable and res is not None)) else [-1]
        want = [0] if R in tr else []
        if R not in tr and seen == [0]:
            seen = []
        obs_run = [1 if mid_granted else 2, bool(fin and op_ok), bool(end_granted), bool(end_granted), seen]
        fail = trace_oracle(tr, label)
        if fail is None:
            if not op_ok or not fin or "oerr" in box:
                fail = f"owner: {label}: deadlock/failure when the owner calls the operation inside {nest} nested `with tree:` ({box.get('oerr', 'timeout')})"
            elif mid_granted:
                fail = f"owner: {label}: lock was granted to another thread while the owner is inside `with tree:` (the operation released too much)"
            elif not end_granted:
                fail = f"owner: {label}: lock not free after the owner left all {nest} sections"
            elif seen != want:
                fail = f"owner: {label}: result inside the section differs from the tree's state"
        exc = op in EXC_EXIT_OPS
        coq = f"COwner {H.coq_text(('exc:' if exc else '') + label)} {H.coq_list(str(e) for e in tr)} {nest}"
        return Case(desc=desc, coq_input=coq, impl_obs=[trace_obs(tr, member=not exc), obs_run], oracle_fail=fail, nontrivial=R in tr,
                    key=H.digest(desc), stats=dict(kind="owner", label=label, nest=nest))


CORPUS = [
    # D38: TypedTree.save collected the kinds by iterating the tree BEFORE taking the lock (trace R A R L)
    dict(k="trace", typed=True, op="save", shape="mixed"),
    dict(k="trace", typed=True, op="save_path", shape="mixed"),
    # ... seen by a reader while a writer is parked: kind table of the torn state, nodes of the final state
    dict(k="park", typed=True, op="save", shape="mixed", nw1=1, nw2=1),
    # re-entrancy with a release error and a refused acquire in one schedule
    dict(k="sched", ps=[[A, A, R, L, L], [A, W, L], [L]], sched=[0, 1, 0, 2, 0, 0, 1, 0, 1, 1, 1, 3, 4]),
]

PROP = Prop()
