"""C10 — relationship queries agree with the tree's actual shape."""
from __future__ import annotations

import build as B
import common as H
from common import Case
from props.C15 import call, on, nl, onat, bl


def num(x):
    if isinstance(x, tuple) and x and x[0] == "ERR":
        return -1
    return x


def txt(x):
    if isinstance(x, tuple) and x and x[0] == "ERR":
        return [-1, x[1]]
    return x


class Prop:
    id = "C10"
    coq_prop = "Properties/C10.v"
    case_module = "CaseNav"
    case_vo = "theories/Cases/CaseNav.vo"
    run_fn = "run10"
    shard = 100
    rule = ("plain trees: every ordered forest with <= N nodes (N=5 quick, 6 thorough) with three labelings each (distinct strings; "
            "equal-comparing objects under distinct explicit data_ids; mixed with clones in different parents) plus seeded random trees "
            "up to 25 nodes; every query of node.py:373-540 on every node, every ordered pair for the ancestor/descendant/common-ancestor "
            "tests, up(k) for k=0..depth+1, Tree.calc_height.  A case is one tree; distinct = distinct (shape, labeling); non-trivial = >= 3 nodes")
    exhaustive_note = "all shapes <= N nodes (N=5 quick) x 3 labelings"
    assumptions = ["identity of nodes is the allocation index recorded by a harness-side wrapper of Node.__init__"]
    manifest = dict(
        text=("Machine-checked theorems (Coq 8.16, no axioms) about an executable model of the relationship queries: the context a node "
              "identity resolves to is the structural one (a real parent-child path to a top-level node, the parent's child list), and "
              "parent/children/siblings/first/last/prev/next/index/depth/ancestor list/top/up/descendant counts/height/is-*/ancestor-"
              "descendant tests/nearest common ancestor are the functions of that context the property describes, by identity (never by "
              "data equality); tied to /repo on every run by a correspondence check over all forests <=5 nodes x 3 labelings + random "
              "trees (every node, every ordered pair) and an independent pointer-walking Python oracle."),
        note=("Trusted: Coq kernel + vm_compute; hand-written model theories/Forest/Nav.v (tied by the correspondence only); harness. "
              "Partial in one respect: the converse of C10_descendant_sound (a node inside a's branch has a among its ancestors) and the "
              "'common ancestor of other as well' half are stated on node identities of the located contexts, not re-derived from "
              "pre-order membership; the correspondence/oracle cover them. Print Assumptions: closed under the global context."),
        technique="Coq proof about an executable Gallina model + differential correspondence check (vm_compute) + Python oracle",
        design_ref="DESIGN.md section 6 (C10)",
    )

    def descs(self, tier, rng):
        nmax = 5 if tier == "quick" else 6
        yield from CORPUS
        for n in range(1, nmax + 1):
            for shape in H.forests(n):
                # (a) distinct strings
                univ = [f"s:n{i}" for i in range(n)]
                yield dict(univ=univ, nodes=B.shape_to_nodes(shape, lambda i, d, s: (i, None, None)))
                # (b) equal-comparing objects, distinct explicit ids
                univ = ["e:1"] * n
                yield dict(univ=univ, nodes=B.shape_to_nodes(shape, lambda i, d, s: (i, None, f"k{i}")))
                # (c) clones: label by depth, falls back to explicit ids when siblings would collide
                univ = ["s:a", "s:b", "e:5", "e:5"]
                yield dict(univ=univ, nodes=B.shape_to_nodes(shape, lambda i, d, s: ((d + s) % 4, None, None if s < 4 else f"x{i}")))
        nrand = 40 if tier == "quick" else 400
        for _ in range(nrand):
            n = rng.randint(6, 25 if tier == "quick" else 40)
            shape = H.random_shape(rng, n, deep=rng.choice([0.2, 0.5, 0.85]))
            univ = ["e:1"] * n
            yield dict(univ=univ, nodes=B.shape_to_nodes(shape, lambda i, d, s: (i, None, f"k{i}")))

    def shrink_candidates(self, desc):
        for nodes in B.drop_one_node(desc["nodes"]):
            yield dict(desc, nodes=nodes)

    def run(self, desc) -> Case:
        try:
            tree, U = B.build(desc)
        except Exception:
            # labeling (c) may collide under one parent for some shapes: make ids explicit
            d2 = dict(desc)
            cnt = [0]

            def fix(nodes):
                out = []
                for l, k, did, ch in nodes:
                    cnt[0] += 1
                    out.append([l, k, f"u{cnt[0]}", fix(ch)])
                return out

            d2["nodes"] = fix(desc["nodes"])
            desc = d2
            tree, U = B.build(desc)
        nodes = B.all_nodes(tree._root)

        def obs_node(n):
            depth = call(lambda: n.depth())
            d = depth if isinstance(depth, int) else 0
            ups = []
            for k in range(0, d + 2):
                r = call(lambda: n.up(k))
                ups.append(-1 if isinstance(r, tuple) else H.nid(r))
            top = call(lambda: n.get_top())
            return [
                on(call(lambda: n.parent)), nl(call(lambda: n.children)), on(call(lambda: n.first_child())), on(call(lambda: n.last_child())),
                nl(call(lambda: n.get_siblings(add_self=False))), nl(call(lambda: n.get_siblings(add_self=True))),
                on(call(lambda: n.first_sibling())), on(call(lambda: n.last_sibling())),
                on(call(lambda: n.prev_sibling())), on(call(lambda: n.next_sibling())),
                onat(call(lambda: n.get_index())), num(depth), num(call(lambda: n.calc_height())),
                -1 if isinstance(top, tuple) else H.nid(top),
                bl(call(lambda: n.is_top())), bl(call(lambda: n.is_leaf())), bl(call(lambda: n.is_first_sibling())),
                bl(call(lambda: n.is_last_sibling())), bl(call(lambda: n.has_children())),
                nl(call(lambda: n.get_parent_list(add_self=False, bottom_up=False))),
                nl(call(lambda: n.get_parent_list(add_self=True, bottom_up=False))),
                nl(call(lambda: n.get_parent_list(add_self=False, bottom_up=True))),
                nl(call(lambda: n.get_parent_list(add_self=True, bottom_up=True))),
                txt(call(lambda: n.get_path())), txt(call(lambda: n.get_path(add_self=False))),
                num(call(lambda: n.count_descendants())), num(call(lambda: n.count_descendants(leaves_only=True))),
                ups,
            ]

        per_node = [obs_node(n) for n in nodes]
        pairs = [[[bl(call(lambda: a.is_descendant_of(b))), bl(call(lambda: a.is_ancestor_of(b))),
                   on(call(lambda: a.get_common_ancestor(b)))] for b in nodes] for a in nodes]
        obs = [per_node, pairs, num(call(lambda: tree.calc_height()))]
        fail = self.oracle(tree, nodes, obs)
        return Case(desc=desc, coq_input=H.coq_forest(tree._root, U), impl_obs=obs, oracle_fail=fail,
                    nontrivial=len(nodes) >= 3, key=H.digest([desc["univ"], desc["nodes"]]),
                    stats=dict(nodes=len(nodes), depth=B.nodes_depth(desc["nodes"])))

    def oracle(self, tree, nodes, obs):
        per_node, pairs, th = obs
        root = tree._root

        def ids(l):
            return [H.nid(x) for x in l]

        def o(x):
            return [] if x is None else [H.nid(x)]

        def chain(n):  # ancestors nearest first, by pointers
            out = []
            p = n._parent
            while p is not root:
                out.append(p)
                p = p._parent
            return out

        def height(n):
            ch = n._children or []
            return 0 if not ch else 1 + max(height(c) for c in ch)

        def desc_count(n, leaves):
            tot = 0
            for c in (n._children or []):
                if not leaves or not c._children:
                    tot += 1
                tot += desc_count(c, leaves)
            return tot

        names = ["parent", "children", "first_child", "last_child", "get_siblings", "get_siblings(add_self)", "first_sibling",
                 "last_sibling", "prev_sibling", "next_sibling", "get_index", "depth", "calc_height", "get_top", "is_top", "is_leaf",
                 "is_first_sibling", "is_last_sibling", "has_children", "get_parent_list", "get_parent_list(add_self)",
                 "get_parent_list(bottom_up)", "get_parent_list(add_self,bottom_up)", "get_path", "get_path(add_self=False)",
                 "count_descendants", "count_descendants(leaves_only)", "up"]
        for n, ob in zip(nodes, per_node):
            an = chain(n)
            sibs = n._parent._children
            pos = [i for i, c in enumerate(sibs) if c is n]
            if len(pos) != 1:
                return f"structure: node {H.nid(n)} occurs {len(pos)} times in its parent's child list"
            pos = pos[0]
            ch = n._children or []
            d = len(an) + 1
            ups = [-1] + [H.nid(a) for a in an] + [0, -1]
            pl = list(reversed(an))
            exp = [o(an[0] if an else None), ids(ch), o(ch[0] if ch else None), o(ch[-1] if ch else None),
                   ids([c for c in sibs if c is not n]), ids(sibs), o(sibs[0]), o(sibs[-1]),
                   o(sibs[pos - 1] if pos > 0 else None), o(sibs[pos + 1] if pos + 1 < len(sibs) else None),
                   [pos], d, height(n), H.nid(an[-1] if an else n), not an, not ch, pos == 0, pos == len(sibs) - 1, bool(ch),
                   ids(pl), ids(pl + [n]), ids(an), ids([n] + an),
                   "/" + "/".join(f"{x._data}" for x in pl + [n]), "/" + "/".join(f"{x._data}" for x in pl),
                   desc_count(n, False), desc_count(n, True), ups]
            for j, (g, e) in enumerate(zip(ob, exp)):
                if g != e:
                    return f"{names[j]}: node {H.nid(n)} got {g} expected {e}"
        for a, row in zip(nodes, pairs):
            ca = [a] + chain(a)
            for b, ob in zip(nodes, row):
                cb = [b] + chain(b)
                common = next((x for x in ca if any(x is y for y in cb)), None)
                exp = [any(b is x for x in ca[1:]), any(a is x for x in cb[1:]), o(common)]
                for j, nm in enumerate(["is_descendant_of", "is_ancestor_of", "get_common_ancestor"]):
                    if ob[j] != exp[j]:
                        return f"{nm}: nodes {H.nid(a)},{H.nid(b)} got {ob[j]} expected {exp[j]}"
        eh = max((len(chain(n)) + 1 for n in nodes), default=0)
        if th != eh:
            return f"Tree.calc_height: got {th} expected {eh}"
        return None


CORPUS = [
    # D28: equal-comparing siblings under different data_ids (index/prev/next by identity)
    dict(univ=["e:1", "e:1", "e:1"], nodes=[[0, None, "x", []], [1, None, "y", []], [2, None, "z", []]]),
]

PROP = Prop()
