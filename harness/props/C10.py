"""C10 — relationship queries agree with the tree's actual shape."""
from __future__ import annotations

import re

import build as B
import nav_hist as NH
import common as H
from common import Case
from props.C15 import call as _call, onat, bl


#: cross-tree pair queries are asked for trees up to this size
TWIN_MAX = 12

#: pairs of DISTINCT objects that compare equal (==) and hash equal, of five sorts
EQ_UNIV = ["e:1", "e:1", "t:1,2", "t:1,2", "i:4", "i:4", "d:3", "d:3", "s:q", "s:q"]


def spine_shape(rng, depth):
    """nested tuples: one chain of `depth` levels running through a random position of every sibling list"""
    cur = ()
    for _ in range(depth - 1):
        kids = [rng.choice([(), (), ((),)]) for _ in range(rng.randint(0, 2))]
        kids.insert(rng.randint(0, len(kids)), cur)
        cur = tuple(kids)
    top = [rng.choice([(), ((),)]) for _ in range(rng.randint(0, 2))]
    top.insert(rng.randint(0, len(top)), cur)
    return tuple(top)


def deep_chain(n):
    nodes = []
    for i in reversed(range(n)):
        nodes = [[i % len(EQ_UNIV), None, f"k{i}", nodes]]
    return nodes


def num(x):
    if isinstance(x, tuple) and x and x[0] == "ERR":
        return -1
    return x


def txt(x):
    if isinstance(x, tuple) and x and x[0] == "ERR":
        return [-1, x[1]]
    return x


class Prop:
    id = "C10"
    coq_prop = "Properties/C10.v"
    case_module = "CaseNav"
    case_vo = "theories/Cases/CaseNav.vo"
    run_fn = "run10"
    shard = 30
    rule = ("plain trees: every ordered forest with <= N nodes (N=5 quick, 6 thorough) with three labelings each (distinct strings; "
            "equal-comparing objects under distinct explicit data_ids; mixed with clones in different parents) plus seeded random trees "
            "up to 25 (thorough 34) nodes; TYPED trees (every forest <= 4 nodes with alternating kinds + random ones; the plain queries are observed "
            "through the ANY_KIND / any_kind=True variants TypedNode offers); DEEP random trees (depth >= 8) and SPINES of depth 8..12 that run "
            "through a random position of every sibling list; WIDE forests "
            "whose many siblings (and top-level nodes) hold equal-comparing data of several sorts (value-equal objects, equal tuples, "
            "equal ints, equal frozen dataclasses, equal strings) under distinct data_ids; every query of node.py:373-540 on every node, "
            "every ordered pair for the ancestor/descendant/common-ancestor tests, up(k) for k=0..depth+1, Tree.calc_height, tree.children / get_toplevel_nodes / first_child / last_child / len / "
            "count and count_descendants of the system root.  Trees REACHED THROUGH A HISTORY: creation orders different from pre-order "
            "(before=node/index/True inserts), every single remove / remove(keep_children) / remove_children / move_to onto the own "
            "parent (every `before`) on every node of every forest <= 4 nodes incl. only children that lost their siblings first, and "
            "random histories (remove, keep_children, remove_children, move_to, sort, clear + re-add, add, set_data); the model input is "
            "the forest read by pointers after the history, the oracle also compares it with an independently maintained shadow forest "
            "and checks parent/children agreement by identity both ways.  "
            "A case is one tree; distinct = distinct (typed, shape, labeling); non-trivial = >= 3 nodes")
    exhaustive_note = "all shapes <= N nodes (N=5 quick) x 3 labelings"
    assumptions = ["identity of nodes is the allocation index recorded by a harness-side wrapper of Node.__init__"]
    manifest = dict(
        text=("Machine-checked theorems (Coq 8.16, no axioms) about an executable model of the relationship queries: the context a node "
              "identity resolves to is the structural one and is unique; its ancestor chain is exactly the list of nodes whose branch "
              "contains the node, in pre-order; parent/children/siblings/first/last/prev/next/index/depth/ancestor list/top/up/descendant "
              "counts/height/is-*/ancestor-descendant tests/nearest common ancestor are the functions of that context the property "
              "describes, by identity (never by data equality), and satisfy the mutual-consistency laws (children/parent inverse, "
              "depth of a child = S depth of its parent, height = depth of the deepest descendant, Tree.calc_height = largest depth, "
              "counts = |pre-order of the branch| - 1 = sum over children, path = joined names top first, up(j+k) = up(j) of up(k), "
              "get_top = the unique top-level node containing the node, is_descendant_of <-> membership in the branch (both directions), "
              "irreflexive/asymmetric/transitive, is_ancestor_of its converse, common ancestor = the deepest node containing both, "
              "symmetric, None exactly across top-level branches, next/prev sibling inverse); lexical facts of node.py (identity search, "
              "subscripts, counters) are lifted by gen_facts and proved to be what the model computes; tied to /repo on every run by a "
              "correspondence check over all forests <=5 nodes x 3 labelings + typed, deep, wide-equal and random trees (every node, "
              "every ordered pair) and an independent pointer-walking Python oracle."),
        note=("Trusted: Coq kernel + vm_compute; hand-written model theories/Forest/Nav.v (tied by the correspondence and, for the "
              "lexical facts of section NAV of Generated.v, by proof obligations); harness. All statements are derived from pre-order "
              "membership for every forest with unique node identities and every node / ordered pair (NavLaws.v). "
              "Print Assumptions: closed under the global context."),
        technique="Coq proof about an executable Gallina model + differential correspondence check (vm_compute) + Python oracle",
        design_ref="DESIGN.md section 6 (C10)",
    )

    def descs(self, tier, rng):
        # the big cases (deep / spine / wide / random) are generated last; spread them evenly over the shards of the
        # correspondence run (contiguous chunks of `shard` cases are evaluated in parallel)
        self.shard = 30 if tier == "quick" else 25     # cases per case file (files are evaluated in parallel)
        ds = list(self._descs(tier, rng))
        stride = max(1, -(-len(ds) // self.shard))
        for r in range(stride):
            yield from ds[r::stride]

    def _descs(self, tier, rng):
        nmax = 5 if tier == "quick" else 6
        yield from CORPUS
        for n in range(1, nmax + 1):
            for shape in H.forests(n):
                # (a) distinct strings
                univ = [f"s:n{i}" for i in range(n)]
                yield dict(univ=univ, nodes=B.shape_to_nodes(shape, lambda i, d, s: (i, None, None)))
                # (b) equal-comparing objects, distinct explicit ids
                univ = ["e:1"] * n
                yield dict(univ=univ, nodes=B.shape_to_nodes(shape, lambda i, d, s: (i, None, f"k{i}")))
                # (c) clones: label by depth, falls back to explicit ids when siblings would collide
                univ = ["s:a", "s:b", "e:5", "e:5"]
                yield dict(univ=univ, nodes=B.shape_to_nodes(shape, lambda i, d, s: ((d + s) % 4, None, None if s < 4 else f"x{i}")))
        nrand = 40 if tier == "quick" else 400
        for _ in range(nrand):
            n = rng.randint(6, 25 if tier == "quick" else 34)
            shape = H.random_shape(rng, n, deep=rng.choice([0.2, 0.5, 0.85]))
            univ = ["e:1"] * n
            yield dict(univ=univ, nodes=B.shape_to_nodes(shape, lambda i, d, s: (i, None, f"k{i}")))
        # (d) typed trees: the plain queries through the ANY_KIND / any_kind=True variants
        for n in range(1, (4 if tier == "quick" else 5) + 1):
            for shape in H.forests(n):
                yield dict(typed=True, univ=["e:1"] * n,
                           nodes=B.shape_to_nodes(shape, lambda i, d, s: (i, "ab"[(i + d) % 2], f"k{i}")))
        for _ in range(20 if tier == "quick" else 150):
            n = rng.randint(6, 16 if tier == "quick" else 22)
            shape = H.random_shape(rng, n, deep=rng.choice([0.2, 0.5, 0.85]))
            ks = [rng.choice("abc") for _ in range(n)]
            yield dict(typed=True, univ=["e:1"] * n, nodes=B.shape_to_nodes(shape, lambda i, d, s, ks=ks: (i, ks[i], f"k{i}")))
        # (e) deep trees: depth >= 8
        for _ in range(14 if tier == "quick" else 120):
            for _try in range(50):
                n = rng.randint(10, 22 if tier == "quick" else 28)
                shape = H.random_shape(rng, n, deep=rng.choice([0.8, 0.9, 0.97]))
                nodes = B.shape_to_nodes(shape, lambda i, d, s: (i % len(EQ_UNIV), None, f"k{i}"))
                if B.nodes_depth(nodes) >= 8:
                    break
            else:
                nodes = deep_chain(n)
            yield dict(univ=EQ_UNIV, nodes=nodes)
        # (g) spines: depth 8..12, the chain continues through a RANDOM position of each sibling list (so the deepest
        #     leaf, the path to it and the common ancestors are not always first children), small side branches
        for _ in range(12 if tier == "quick" else 100):
            shape = spine_shape(rng, rng.randint(8, 12))
            lab = rng.choice([None, 0, 2])
            yield dict(univ=EQ_UNIV, nodes=B.shape_to_nodes(
                shape, lambda i, d, s, lab=lab: ((i % len(EQ_UNIV)) if lab is None else lab + (i % 2), None, f"k{i}")))
        # (f) wide forests: many siblings / top-level nodes with equal-comparing data of several sorts
        for _ in range(14 if tier == "quick" else 100):
            n = rng.randint(8, 18 if tier == "quick" else 24)
            shape = H.random_shape(rng, n, deep=rng.choice([0.0, 0.05, 0.15]))
            lab = [rng.randrange(len(EQ_UNIV)) for _ in range(n)]
            yield dict(univ=EQ_UNIV, nodes=B.shape_to_nodes(shape, lambda i, d, s, lab=lab: (lab[i], None, f"k{i}")))
            # one sort only: every sibling compares equal to every other
            one = rng.choice([0, 2, 4, 6, 8])
            yield dict(univ=EQ_UNIV, nodes=B.shape_to_nodes(shape, lambda i, d, s, one=one: (one + (i % 2), None, f"k{i}")))
        # (h) trees REACHED THROUGH A HISTORY (nav_hist.py).  aimed: every single op on every node of every small forest,
        #     moves onto the own parent with every `before`, only children that lost their siblings first
        for n in range(1, 5):
            for shape in H.forests(n):
                nodes = B.shape_to_nodes(shape, lambda i, d, s: (i % len(EQ_UNIV), None, f"k{i}"))
                hs = list(NH.aimed(nodes, n))
                if n == 4 and tier == "quick":
                    hs = rng.sample(hs, len(hs) // 3)
                for hist in hs:
                    yield dict(univ=EQ_UNIV, nodes=nodes, hist=hist)
        #     same-length replacements (remove + add, move out + move in, sort) with a query before the first op only
        for n in range(2, 5 if tier == "quick" else 6):
            for si, shape in enumerate(H.forests(n)):
                if n >= 4 and tier == "quick" and si % 3:
                    continue
                for typed in (False, True):
                    nodes = B.shape_to_nodes(shape, lambda i, d, s: (i % len(EQ_UNIV), "ab"[(i + d) % 2] if typed else None, f"k{n - i}"))
                    for hi, hist in enumerate(NH.replace_same_length(nodes, typed)):
                        if n >= 3 and (hi + si) % 2:
                            continue
                        d = dict(univ=EQ_UNIV, nodes=nodes, hist=hist, probe=[0])
                        if typed:
                            d["typed"] = True
                        yield d
        #     creation order different from pre-order (before=<node>/<index>/True inserts), no further history
        for _ in range(20 if tier == "quick" else 150):
            n = rng.randint(3, 14)
            shape = H.random_shape(rng, n, deep=rng.choice([0.2, 0.5, 0.8]))
            yield dict(univ=EQ_UNIV, nodes=B.shape_to_nodes(shape, lambda i, d, s: (i % len(EQ_UNIV), None, f"k{i}")),
                       order_seed=rng.randrange(10 ** 6), hist=[])
        #     random histories (remove, remove(keep_children), remove_children, move_to, sort, clear + re-add, add, set_data)
        for _ in range(40 if tier == "quick" else 400):
            n = rng.randint(3, 12)
            shape = H.random_shape(rng, n, deep=rng.choice([0.2, 0.5, 0.8]))
            typed = rng.random() < 0.25
            nodes = B.shape_to_nodes(shape, lambda i, d, s: (i % len(EQ_UNIV), "ab"[(i + d) % 2] if typed else None, f"k{i}"))
            d = dict(univ=EQ_UNIV, nodes=nodes, order_seed=rng.choice([None, rng.randrange(10 ** 6)]),
                     hist=NH.random_hist(rng, n, len(EQ_UNIV), typed, rng.randint(1, 6)))
            if typed:
                d["typed"] = True
            yield d

    def shrink_candidates(self, desc):
        if "hist" in desc:
            yield from NH.shrink_hist(desc)
            return
        for nodes in B.drop_one_node(desc["nodes"]):
            yield dict(desc, nodes=nodes)

    def run(self, desc) -> Case:
        if "hist" not in desc:
            return self._run(desc)
        try:
            return self._run(desc)
        except Exception as e:  # noqa: BLE001 - the node graph reached through the history cannot even be observed
            import traceback
            where = traceback.extract_tb(e.__traceback__)[-1]
            return Case(desc=desc, coq_input="[]", impl_obs=[-424242], nontrivial=True,
                        oracle_fail=f"the tree reached through the history cannot be observed: {type(e).__name__}: {e} "
                                    f"(at {where.filename.rsplit('/', 1)[-1]}:{where.lineno})",
                        key=H.digest([desc["nodes"], desc.get("hist"), "unobservable"]), stats=dict(nodes=0))

    def _run(self, desc) -> Case:
        hist_fail = None
        try:
            if "hist" in desc:
                early = []
                pr = desc.get("probe", True)      # True: query before every op; [k, ...]: only before these steps; False: never

                def probe(tree, U, objs, sh, errors, k):
                    # QUERY - mutate - query again: every query (node, pair, tree level) is asked before every op of the
                    # history as well, on the same tree object, and checked by the oracle each time
                    if pr is not True and k not in pr:
                        return      # no query between these two ops (a cache validated by a length only sees the same length)
                    f = NH.consistency(tree, objs, sh, errors) or self._observe(tree, U, desc, twin=False)[1]
                    if f and not early:
                        early.append(f"before step {k} of the history: {f}")

                tree, U, objs, sh, errors = NH.build_hist(desc, probe if pr else None)
                hist_fail = (early[0] if early else None) or NH.consistency(tree, objs, sh, errors)
            else:
                tree, U = B.build(desc)
        except Exception:
            if "hist" in desc:
                raise
            # labeling (c) may collide under one parent for some shapes: make ids explicit
            d2 = dict(desc)
            cnt = [0]

            def fix(nodes):
                out = []
                for l, k, did, ch in nodes:
                    cnt[0] += 1
                    out.append([l, k, f"u{cnt[0]}", fix(ch)])
                return out

            d2["nodes"] = fix(desc["nodes"])
            desc = d2
            tree, U = B.build(desc)
        # results handed out by queries are caller-owned: on ANOTHER tree of the same description (t0, built first) and
        # on this tree, every returned list is mutated; then the whole battery is asked again: this tree against the
        # model, t0 against the oracle (module-/class-level state shared by all trees would show on either)
        pfail = None
        if desc.get("poison", True):
            if "hist" in desc:
                t0, U0 = NH.build_hist(desc)[:2]
            else:
                t0, U0 = B.build(desc)
            pfail = NH.poison_results(t0, bool(desc.get("typed"))) or NH.poison_results(tree, bool(desc.get("typed")))
        obs, fail, nodes, coq_in = self._observe(tree, U, desc, twin=True)
        if desc.get("poison", True) and not pfail:
            f0 = self._observe(t0, U0, desc, twin=False)[1]
            pfail = f0 and f"after mutating the lists handed out by the queries of another tree: {f0}"
        fail = hist_fail or pfail or (fail and (f"(after mutating the lists handed out by the queries) {fail}" if desc.get("poison", True) else fail))
        typed = bool(desc.get("typed"))
        return Case(desc=desc, coq_input=coq_in, impl_obs=obs, oracle_fail=fail,
                    nontrivial=len(nodes) >= 3 or bool(desc.get("hist")),
                    key=H.digest([bool(desc.get("typed")), desc["univ"], desc["nodes"], desc.get("order_seed"), desc.get("hist")]),
                    stats=dict(nodes=len(nodes), depth=B.nodes_depth(desc["nodes"]), typed=int(typed),
                               max_sibs=max((len(p._children or []) for p in [tree._root] + nodes), default=0)))

    def _observe(self, tree, U, desc, twin):
        """ask every query on the tree as it is now; returns (observation, oracle failure, nodes, model input)"""
        nodes = B.all_nodes(tree._root)
        # compact case terms: node identities are renumbered locally (pre-order, 1..n; 0 = system root) in the model
        # input and in the observation alike (a bijection on the nodes of this tree)
        local = {H.nid(x): i + 1 for i, x in enumerate(nodes)}
        local[0] = 0

        def lid(x):
            return -1 if x is None else local.get(H.nid(x), -7)   # -7: a node that is not reachable from the root

        def on(x):
            if isinstance(x, tuple) and x and x[0] == "ERR":
                return [-1, x[1]]
            return [] if x is None else [lid(x)]

        def nl(x):
            if isinstance(x, tuple) and x and x[0] == "ERR":
                return [-1, x[1]]
            return [lid(y) for y in x]

        typed = bool(desc.get("typed"))
        call, battery_changed_tree = NH.guarded_call(tree, _call)     # the structure is re-read after every single query
        # TypedNode overrides the child / sibling accessors with a mandatory kind / an any_kind flag (default False);
        # the plain relationship queries of a typed tree are their ANY_KIND / any_kind=True forms
        KA = (H.ANY_KIND,) if typed else ()
        KW = dict(any_kind=True) if typed else {}

        def obs_node(n):
            depth = call(lambda: n.depth())
            d = depth if isinstance(depth, int) else 0
            ups = []
            for k in range(0, d + 2):
                r = call(lambda: n.up(k))
                ups.append(-1 if isinstance(r, tuple) else lid(r))
            top = call(lambda: n.get_top())
            return [
                on(call(lambda: n.parent)), nl(call(lambda: n.children)), on(call(lambda: n.first_child(*KA))), on(call(lambda: n.last_child(*KA))),
                nl(call(lambda: n.get_siblings(add_self=False, **KW))), nl(call(lambda: n.get_siblings(add_self=True, **KW))),
                on(call(lambda: n.first_sibling(**KW))), on(call(lambda: n.last_sibling(**KW))),
                on(call(lambda: n.prev_sibling(**KW))), on(call(lambda: n.next_sibling(**KW))),
                onat(call(lambda: n.get_index(**KW))), num(depth), num(call(lambda: n.calc_height())),
                -1 if isinstance(top, tuple) else lid(top),
                bl(call(lambda: n.is_top())), bl(call(lambda: n.is_leaf())), bl(call(lambda: n.is_first_sibling(**KW))),
                bl(call(lambda: n.is_last_sibling(**KW))), bl(call(lambda: n.has_children(*KA))),
                nl(call(lambda: n.get_parent_list(add_self=False, bottom_up=False))),
                nl(call(lambda: n.get_parent_list(add_self=True, bottom_up=False))),
                nl(call(lambda: n.get_parent_list(add_self=False, bottom_up=True))),
                nl(call(lambda: n.get_parent_list(add_self=True, bottom_up=True))),
                txt(call(lambda: n.get_path())), txt(call(lambda: n.get_path(add_self=False))),
                num(call(lambda: n.count_descendants())), num(call(lambda: n.count_descendants(leaves_only=True))),
                ups,
            ]

        per_node = [obs_node(n) for n in nodes]
        def truthy(r):   # an exception is neither True nor False: it shows up as the pseudo-node -1 in the list
            return r is True

        def cid(r):
            if isinstance(r, tuple) and r and r[0] == "ERR":
                return -1
            return 0 if r is None else lid(r)

        pairs = []
        for a in nodes:
            dr = [call(lambda: a.is_descendant_of(b)) for b in nodes]
            ar = [call(lambda: a.is_ancestor_of(b)) for b in nodes]
            pairs.append([[lid(b) for b, r in zip(nodes, dr) if truthy(r)] + [-1 for r in dr if r not in (True, False)],
                          [lid(b) for b, r in zip(nodes, ar) if truthy(r)] + [-1 for r in ar if r not in (True, False)],
                          [cid(call(lambda: a.get_common_ancestor(b))) for b in nodes]])
        tl1, tl2 = call(lambda: tree.children), call(lambda: tree.get_toplevel_nodes())
        tree_obs = [nl(tl1) if tl1 == tl2 else [-2], on(call(lambda: tree.first_child(*KA))), on(call(lambda: tree.last_child(*KA))),
                    num(call(lambda: len(tree))) if call(lambda: len(tree)) == call(lambda: tree.count) else -2,
                    num(call(lambda: tree.system_root.count_descendants())),
                    num(call(lambda: tree.system_root.count_descendants(leaves_only=True)))]
        # nodes of DIFFERENT trees are never related: a twin tree with the same data, data_ids and NODE_IDs is built
        # and every ordered cross-tree pair is asked; the observation lists the answers that are not False/False/None
        cross = []
        if twin and 0 < len(nodes) <= TWIN_MAX:
            t2 = type(tree)("twin")
            image = {id(tree._root): t2._root}
            for n in nodes:
                kw = dict(data_id=n._data_id, node_id=n._node_id)
                if typed:
                    kw["kind"] = n.kind
                image[id(n)] = image[id(n._parent)].add(n._data, **kw)
            tnodes = [image[id(n)] for n in nodes]
            for i, a in enumerate(nodes):
                for j, b in enumerate(tnodes):
                    for code, r in ((1, call(lambda: a.is_descendant_of(b))), (2, call(lambda: a.is_ancestor_of(b))),
                                    (3, call(lambda: b.is_descendant_of(a))), (4, call(lambda: b.is_ancestor_of(a)))):
                        if r is not False:
                            cross.append([i + 1, j + 1, code])
                    for code, r in ((5, call(lambda: a.get_common_ancestor(b))), (6, call(lambda: b.get_common_ancestor(a)))):
                        if r is not None:
                            cross.append([i + 1, j + 1, code])
        obs = [per_node, pairs, num(call(lambda: tree.calc_height())), tree_obs, cross]
        fail = battery_changed_tree() or self.oracle(tree, nodes, obs, lid) or (NH.typed_consistency(tree) if typed else None)
        coq_in = re.sub(r"\(Tz (\d+) ", lambda m: f"(Tz {local[int(m.group(1))]} ", H.coq_forest(tree._root, U))
        return obs, fail, nodes, coq_in

    def oracle(self, tree, nodes, obs, lid):
        per_node, pairs, th, tree_obs, cross = obs
        root = tree._root
        if cross:
            i, j, code = cross[0]
            what = {1: 'a.is_descendant_of(b)', 2: 'a.is_ancestor_of(b)', 3: 'b.is_descendant_of(a)', 4: 'b.is_ancestor_of(a)',
                    5: 'a.get_common_ancestor(b)', 6: 'b.get_common_ancestor(a)'}[code]
            return (f"cross-tree: a = node {i} of the tree, b = node {j} (pre-order) of a twin tree with the same node_ids: {what} "
                    f"relates nodes of different trees ({len(cross)} such answers)")

        def ids(l):
            return [lid(x) for x in l]

        def o(x):
            return [] if x is None else [lid(x)]

        def chain(n):  # ancestors nearest first, by pointers
            out = []
            p = n._parent
            while p is not root:
                out.append(p)
                p = p._parent
            return out

        def height(n):
            ch = n._children or []
            return 0 if not ch else 1 + max(height(c) for c in ch)

        def desc_count(n, leaves):
            tot = 0
            for c in (n._children or []):
                if not leaves or not c._children:
                    tot += 1
                tot += desc_count(c, leaves)
            return tot

        names = ["parent", "children", "first_child", "last_child", "get_siblings", "get_siblings(add_self)", "first_sibling",
                 "last_sibling", "prev_sibling", "next_sibling", "get_index", "depth", "calc_height", "get_top", "is_top", "is_leaf",
                 "is_first_sibling", "is_last_sibling", "has_children", "get_parent_list", "get_parent_list(add_self)",
                 "get_parent_list(bottom_up)", "get_parent_list(add_self,bottom_up)", "get_path", "get_path(add_self=False)",
                 "count_descendants", "count_descendants(leaves_only)", "up"]
        for n, ob in zip(nodes, per_node):
            an = chain(n)
            sibs = n._parent._children
            pos = [i for i, c in enumerate(sibs) if c is n]
            if len(pos) != 1:
                return f"structure: node {lid(n)} occurs {len(pos)} times in its parent's child list"
            pos = pos[0]
            ch = n._children or []
            d = len(an) + 1
            ups = [-1] + [lid(a) for a in an] + [0, -1]
            pl = list(reversed(an))
            exp = [o(an[0] if an else None), ids(ch), o(ch[0] if ch else None), o(ch[-1] if ch else None),
                   ids([c for c in sibs if c is not n]), ids(sibs), o(sibs[0]), o(sibs[-1]),
                   o(sibs[pos - 1] if pos > 0 else None), o(sibs[pos + 1] if pos + 1 < len(sibs) else None),
                   [pos], d, height(n), lid(an[-1] if an else n), not an, not ch, pos == 0, pos == len(sibs) - 1, bool(ch),
                   ids(pl), ids(pl + [n]), ids(an), ids([n] + an),
                   "/" + "/".join(f"{x._data}" for x in pl + [n]), "/" + "/".join(f"{x._data}" for x in pl),
                   desc_count(n, False), desc_count(n, True), ups]
            for j, (g, e) in enumerate(zip(ob, exp)):
                if g != e:
                    return f"{names[j]}: node {lid(n)} got {g} expected {e}"
        chains = {id(n): [n] + chain(n) for n in nodes}
        for a, row in zip(nodes, pairs):
            ca = chains[id(a)]
            exp_desc = [lid(b) for b in nodes if any(b is x for x in ca[1:])]
            exp_anc = [lid(b) for b in nodes if any(a is x for x in chains[id(b)][1:])]
            exp_common = []
            for b in nodes:
                cb = chains[id(b)]
                common = next((x for x in ca if any(x is y for y in cb)), None)
                exp_common.append(0 if common is None else lid(common))
            for j, (nm, e) in enumerate([("is_descendant_of", exp_desc), ("is_ancestor_of", exp_anc)]):
                if row[j] != e:
                    return f"{nm}: node {lid(a)} answers True exactly for {row[j]} expected {e}"
            for b, g, e in zip(nodes, row[2], exp_common):
                if g != e:
                    return f"get_common_ancestor: nodes {lid(a)},{lid(b)} got {g} expected {e} (0 = None)"
        top = root._children or []
        exp_tree = [ids(top), o(top[0] if top else None), o(top[-1] if top else None), len(nodes), len(nodes),
                    sum(1 for n in nodes if not n._children)]
        for nm, g, e in zip(["tree.children/get_toplevel_nodes", "tree.first_child", "tree.last_child", "len(tree)/tree.count",
                             "system_root.count_descendants", "system_root.count_descendants(leaves_only)"], tree_obs, exp_tree):
            if g != e:
                return f"{nm}: got {g} expected {e}"
        eh = max((len(chain(n)) + 1 for n in nodes), default=0)
        if th != eh:
            return f"Tree.calc_height: got {th} expected {eh}"
        return None


CORPUS = [
    # D28: equal-comparing siblings under different data_ids (index/prev/next by identity)
    dict(univ=["e:1", "e:1", "e:1"], nodes=[[0, None, "x", []], [1, None, "y", []], [2, None, "z", []]]),
]

PROP = Prop()

import parts  # noqa: E402
import parts_misc  # noqa: E402

parts.attach(PROP, parts_misc.NODEMISC, parts_misc.FORWARD)   # Node/Tree miscellany; Node.__getattr__ (models Forest/MiscNode.v, MiscForward.v; theorems at the end of Properties/C10.v)
