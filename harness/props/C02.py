"""C02 - lookups and clone queries reflect exactly the nodes currently in the tree.

Tie between the C02 theorems (Properties/C02.v: under the invariant WF the functions of Mut/Lookup.v return exactly
the nodes of the forest carrying the id; WF holds after every history, Properties/C01.v) and the code in NUTREE_REPO.

After EVERY step of every history every tree is probed through the PUBLIC API with every data object of the
universe (str, int, tuple, value-equal objects, identity-hashed objects, frozen dataclass, DictWrapper, the falsy ""
and 0), every data_id that can occur (explicit ids of the operations, every answer of every calc_data_id callback of
the history for every object, ids that never occur) and the node_id of every node allocated so far - present or
absent: find_all(data), find_all(data_id=), find_all(data_id=, max_results=0..3), find_first(data), find_first(data_id=), find_first(node_id=), tree[key],
key in tree, calc_data_id(data), and on every node in the tree get_clones(), get_clones(add_self=True), is_clone(),
node in tree; plus count, count_unique, len.

* correspondence (`CaseC02.run02`): the answers equal what `Lookup.sx_lookups` computes on the state of the mutation
  machine after the same step (rendered as per-step deltas of the answer table);
* oracle (independent of model and code): from a pointer walk of `_children` - a lookup by id returns exactly the
  reachable nodes whose current `_data_id` is that id (none twice, none removed, none missing, none under a stale
  id), find_first one of them, `in` their existence, tree[key] the node / KeyError / AmbiguousMatchError by their
  number (node_id first, then the key as data_id, then as data), clone queries the other carriers of the node's id,
  count the reachable nodes, count_unique the distinct ids; a new node's data_id is the explicit id, else the
  callback's answer, else hash(data).  `mut.index_oracle` (the private index against the walk) runs as well.
"""
from __future__ import annotations

import common as H
import mut
import mut_ex
import mut_c02
from common import Case

FAMILIES = ("add", "short", "addnode", "copyto", "move", "remove", "remove_children", "clear", "set_data", "del")
CHUNK = 30


def run_hist(univ, ops, oracles=("index",), probe_from=0):
    pr, pre, post = mut_c02.hooks(ops, probe_from=probe_from)
    r = mut_ex.replay(dict(univ=univ, ops=ops), oracles=oracles, pre=pre, post=post, keep_world=True)
    return pr, r


def hist_obs(pr, r):
    out = []
    prev = None
    for si, st in enumerate(r.steps):
        out.append([st["res"], pr.deltas(prev, pr.obs[si])])
        prev = pr.obs[si]
    return out


class Prop:
    id = "C02"
    coq_prop = "Properties/C02.v"
    case_module = "CaseC02"
    case_vo = "theories/Cases/CaseC02.vo"
    run_fn = "run02"
    shard = 8
    rule = ("(a) the corpus of defect witnesses (mut.CORPUS + C02 witnesses); (b) exhaustive: every ordered forest with <= 3 nodes "
            "(thorough 4) under three labelings (distinct / equal-comparing objects under distinct explicit ids / clones in different parents) x "
            "every single add, shortcut, add(node), copy_to, move, remove x keep_children x with_clones, remove_children, clear, del, set_data over "
            "data x data_id x with_clones, rename (quick: thinned products at 3 nodes); (b') three trees (id rule hash mod 7 / hash / name) with FALSY ids 0 and '' by callback and by hash x new nodes with explicit ids 0 / '', copies of the falsy-id nodes into the tree without callback (shallow, deep, add(tree), Tree.copy, Node.copy), set_data to falsy ids and to equal-but-distinct objects (DictWrapper, value-equal); (c) seeded random histories of <= 30 (thorough 40) steps "
            "over 1-3 trees (plain/typed; calc_data_id = default hash / name / hash mod 7 / raising on one object), universe of 13 objects of all "
            "flavours; a third of the steps are aimed: set_data on singletons (data, id, both, falsy), on clone groups with_clones=True (merge of "
            "two groups) and with_clones=False (split of the first / middle / last member), removal of one of several clones, re-adding a "
            "removed id, forced clone pairs, the rest Gen01/mut.Gen's mix; one history in five malformed.  After EVERY step every tree is "
            "probed with every data object, every possible data_id and the node_id of every allocated node (present or absent) through the "
            "public API; answers compared with the model's Lookup functions and with an independent pointer walk.  distinct = distinct "
            "(universe, ops); non-trivial = some lookup answer changed during the history")
    exhaustive_note = "every structural / re-keying single op x every argument on all forests <= 3 (thorough 4) nodes x 3 labelings, all probes after it"
    assumptions = ["identity of nodes is the allocation index recorded by a harness-side wrapper of Node.__init__; node_id = id(node) (never given explicitly)",
                   "calc_data_id callbacks are tables from universe objects to ids that may raise; for keys that are not universe objects (an int/str "
                   "used as key, a node_id, a Node) the callback's answer is supplied with the probe",
                   "a node_id (an address) never coincides with a data_id; `node in tree` is probed except under the name callback (its answer for a "
                   "Node object changes with the node's data)",
                   "find_all(data_id=, max_results=k) is probed for k = 0..3 and modelled as repaired by the D26 fix (res[:k], 0 = no limit)"]
    trusted = ["harness/mut.py, mut_ex.py, mut_c01.py, mut_c02.py (replayer, probes, pointer-walk oracle, generators)"]
    manifest = dict(
        text=("Machine-checked (Coq 8.16, no axioms): under the tree invariant WF (the clone index lists exactly the nodes of the forest by "
              "their CURRENT data_id, the registry is a permutation of the nodes) the executable lookup functions of Mut/Lookup.v - find_all / "
              "find_first by data_id and by data (through the id callback), find_first(node_id), key in tree, tree[key], get_clones(add_self), "
              "is_clone, count, count_unique, the data_id of a new node (explicit, else callback, else hash) - return exactly the nodes of the "
              "forest carrying the id; WF is preserved by every operation (C01), so this holds after every history, including set_data on single "
              "nodes and on clone groups (merge, split).  Tie to /repo on every run: after every step of exhaustive single-op cases and aimed "
              "random histories every tree is probed through the public API with every data object (all flavours), every possible data_id and "
              "every node_id ever allocated, present or absent; the answers must equal the model's and an independent pointer walk's."),
        note=("Trusted: Coq kernel + vm_compute; hand-written models Mut/Machine.v, Mut/Lookup.v (tied by the correspondence only); harness/mut*.py. "
              "The model describes the code as repaired by fixes/D02, D04, D05, D07, D41, D48 (witnesses in the corpus fail on the unchanged code). "
              "`node in tree` raises TypeError under the default id rule (Node is unhashable) - modelled as it is."),
        technique="Coq proof about an executable Gallina model + differential correspondence check (vm_compute) + Python oracle",
        design_ref="DESIGN.md section 6 (C02), 3.2, 3.4",
    )

    # ------------------------------------------------------------------
    def descs(self, tier, rng):
        for c in mut.CORPUS:
            yield dict(kind="hist", univ=c["univ"], ops=c["ops"], corpus=c["id"])
        for c in CORPUS_C02:
            yield dict(kind="hist", univ=c["univ"], ops=c["ops"], corpus=c["id"])
        quick = tier == "quick"
        nmax = 3 if quick else 4
        for g in mut.gen_exhaustive(nmax, families=FAMILIES):
            alts = g["alts"]
            thin = ()
            if quick and g["n"] == 3:
                thin = (("set_data", 12), ("addnode", 16), ("move", 12), ("copyto", 12), ("add", 12), ("short", 3), ("remove", 2))
            elif quick and g["n"] == 2:
                thin = (("set_data", 4), ("addnode", 4), ("move", 3), ("copyto", 3), ("add", 3))
            elif not quick and g["n"] == 4:
                thin = (("set_data", 6), ("addnode", 4), ("move", 4), ("copyto", 2), ("add", 2))
            if thin:
                # the offset varies with the shape so that, over the shapes, every argument combination is met
                off = H.shape_size(()) + len(g["setup"]) + sum(len(str(o)) for o in g["setup"])
                keep = set()
                for fam, mod in thin:
                    sel = [a for a in alts if a[0] == fam]
                    keep |= {id(a) for i, a in enumerate(sel) if (i + off) % mod == 0}
                alts = [a for a in alts if a[0] not in [f for f, _ in thin] or id(a) in keep]
            for i in range(0, len(alts), CHUNK):
                yield dict(kind="alts", univ=g["univ"], setup=g["setup"], alts=alts[i:i + CHUNK], label=g["label"])
        for g in list(mut_c02.gen_memo()) + list(mut_c02.gen_falsy()):
            for i in range(0, len(g["alts"]), CHUNK):
                yield dict(kind="alts", univ=g["univ"], setup=g["setup"], alts=g["alts"][i:i + CHUNK], label=g["label"])
        if not quick:
            for g in mut.gen_exhaustive(3, typed=(True,), families=FAMILIES):
                for i in range(0, len(g["alts"]), CHUNK):
                    yield dict(kind="alts", univ=g["univ"], setup=g["setup"], alts=g["alts"][i:i + CHUNK], label=g["label"] + "/typed")
        nrand = 40 if quick else 800
        for i in range(nrand):
            n_ops = rng.randint(10, 30 if quick else 40)
            h = mut_c02.gen_history(rng, n_ops, malformed=(i % 5 == 4))
            yield dict(kind="hist", univ=h["univ"], ops=h["ops"])

    def shrink_candidates(self, desc):
        if desc["kind"] == "alts":
            for alt in desc["alts"]:
                yield dict(kind="hist", univ=desc["univ"], ops=desc["setup"] + [alt])
            return
        ops = desc["ops"]
        if any(o[0] == "iter_remove" for o in ops):
            # mut.shrink_candidates does not know the expanded entry: truncate, and drop entries that allocate nothing
            for cut in (len(ops) // 2, len(ops) - 1):
                if 0 < cut < len(ops):
                    yield dict(kind="hist", univ=desc["univ"], ops=ops[:cut])
            for i in range(len(ops) - 1, -1, -1):
                if ops[i][0] in ("remove", "remove_children", "move", "set_data", "rename", "sort", "meta", "filter", "del", "clear", "iter_remove"):
                    yield dict(kind="hist", univ=desc["univ"], ops=ops[:i] + ops[i + 1:])
            return
        for h in mut_ex.safe_shrink_candidates(dict(univ=desc["univ"], ops=ops)):
            yield dict(kind="hist", univ=h["univ"], ops=h["ops"])

    def run(self, desc) -> Case:
        univ = desc["univ"]
        if desc["kind"] == "alts":
            setup = desc["setup"]
            pr0, r0 = run_hist(univ, setup)
            fails = [(r0.steps[f[0]]["op"], f) for f in r0.fails]
            alt_terms, alt_obs = [], []
            changed = 0
            for alt in desc["alts"]:
                pr, r = run_hist(univ, setup + [alt], probe_from=max(0, len(setup) - 1))
                old = pr.obs[len(setup) - 1] if setup else None
                d = pr.deltas(old, pr.obs[-1])
                changed += 1 if any(d) else 0
                alt_obs.append([r.steps[-1]["res"], d])
                alt_terms.append(f"({r.coq_ops[-1]}, {pr.coq_probes(r.world)})")
                fails += [(r.steps[f[0]]["op"], f) for f in r.fails if f[0] == len(setup)]
            term = f"(C02A {r0.coq} {pr0.coq_probes(r0.world)} {H.coq_list(alt_terms)})"
            obs = [hist_obs(pr0, r0), alt_obs]
            stats = dict(kind="single-op group", nodes=len(setup) - 1, label=desc.get("label", ""),
                         answers_changed_share=round(changed / max(1, len(desc["alts"])), 1))
            nontrivial = changed > 0
        else:
            pr, r = run_hist(univ, desc["ops"])
            term = f"(C02H {r.coq} {pr.coq_probes(r.world)})"
            obs = hist_obs(pr, r)
            fails = [(r.steps[si]["op"], (si, n, m)) for si, n, m in r.fails]
            nchanged = sum(1 for _, d in obs if any(d))
            nprobes = sum(len(k) for k in pr.keys)
            setd = sum(1 for s in r.steps if s["op"][0] in ("set_data", "rename") and s["res"][0] == 0)
            stats = dict(kind="history", length=len(desc["ops"]) // 10 * 10, trees=len(pr.keys), probes=nprobes // 25 * 25,
                         steps_changing_answers=nchanged // 5 * 5, set_data_ok=setd // 2 * 2)
            nontrivial = nchanged > 1
        fail = None
        if fails:
            op, (si, name, msg) = fails[0]
            fail = f"{name}: {msg} [step {si}, op {op[0]}]"
        return Case(desc=desc, coq_input=term, impl_obs=obs, oracle_fail=fail, nontrivial=nontrivial,
                    key=H.digest([desc["univ"], desc.get("setup"), desc.get("alts"), desc.get("ops")]), stats=stats)


_NEW = ["new", False, None]
# witnesses specific to this property
CORPUS_C02: list = [
    # D41 family: set_data(with_clones=False) on the LAST of three equal-comparing clones
    {"id": "C02-split-last", "univ": ["e:1", "s:p", "s:q", "s:z"],
     "ops": [_NEW, ["add", 0, 0, 1, None, None, None], ["add", 0, 0, 2, None, None, None], ["add", 0, 0, 0, None, None, None],
             ["add", 0, 1, 0, None, None, None], ["add", 0, 2, 0, None, None, None], ["set_data", 0, 5, 3, None, False]]},
    # merge of two groups, then removal of one member
    {"id": "C02-merge", "univ": ["s:a", "s:b", "s:p", "s:q"],
     "ops": [_NEW, ["add", 0, 0, 2, None, None, None], ["add", 0, 0, 3, None, None, None], ["add", 0, 1, 0, None, None, None],
             ["add", 0, 2, 0, None, None, None], ["add", 0, 0, 1, None, None, None], ["set_data", 0, 3, 1, None, True],
             ["remove", 0, 4, False, False]]},
    # D07: falsy id / data
    {"id": "C02-falsy", "univ": ["s:a", "s:", "i:0"],
     "ops": [_NEW, ["add", 0, 0, 0, None, None, None], ["set_data", 0, 1, None, 0, None], ["set_data", 0, 1, 1, None, None],
             ["set_data", 0, 1, None, "", None], ["set_data", 0, 1, 2, None, None]]},
]

PROP = Prop()
CORPUS = mut.CORPUS + CORPUS_C02

import parts  # noqa: E402
import parts_misc  # noqa: E402

parts.attach(PROP, parts_misc.WRAP)   # common.DictWrapper (model Forest/MiscWrap.v, theorems at the end of Properties/C02.v)
