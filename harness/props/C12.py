"""C12 — the native file format follows its documented layout, both ways."""
from __future__ import annotations

import io
import itertools
import json

import build as B
import common as H
import sercommon as S
from common import Case, Tree, TypedTree


import os  # noqa: E402

TMP = H.WORK / f"c12_{os.getpid()}"


def _cleanup():
    import shutil
    shutil.rmtree(TMP, ignore_errors=True)


import atexit  # noqa: E402

atexit.register(_cleanup)


def label_patterns(n, rng, how_many):
    """label vectors (pre-order) with repeats = clones"""
    pats = [list(range(n))]
    if n >= 2:
        for _ in range(how_many):
            k = rng.randint(1, max(1, n - 1))
            pats.append([rng.randrange(k) for _ in range(n)])
    return pats


def name_like_inner(td):
    """the str data of some node that has children (a tree NAME equal to it makes that node `==` the system root)"""
    out = []

    def walk(ns):
        for lbl, _k, _d, kids in ns:
            if kids and td["univ"][lbl].startswith("s:"):
                out.append(td["univ"][lbl][2:])
            walk(kids)
    walk(td["nodes"])
    return out[-1] if out else None


def valid_desc(td) -> bool:
    """the description builds (no two siblings with one data_id)"""
    try:
        S.build_tree(td)
        return True
    except Exception:  # noqa: BLE001
        return False


UNIVS = [
    # strings (incl. unicode, empty-ish), value-equal objects, identity-hashed, ints, tuples, dataclass, DictWrapper
    ["s:a", "s:b", "s:\u00e4\u20ac\U0001f600", "s:a b\"c\\", "s:d"],
    ["e:1", "e:2", "s:x", "p:1", "i:1001", "t:1,2", "d:3", "w:4"],
    ["p:1", "p:2", "w:1", "e:1", "s:y"],
    ["e:1", "e:1", "e:2", "s:q", "i:1002"],
    # falsy data: "", 0, (), an object with __bool__ False, an empty container-like object (__len__ 0)
    ["s:", "z:1", "l:1", "s:x", "t:", "e:1"],
    ["i:0", "l:2", "z:2", "s:y", "t:", "p:1"],
]
FALSY = ["s:", "i:0", "t:", "z:1", "l:1"]


DW_UNIV = ["W:1", "W:2", "W:3", "s:x", "W:4", "W:5"]


def dw_descs(tier, rng):
    """plain Tree holding DictWrapper objects whose dict keys ARE key_map / value_map entries, saved and loaded with the
    library's own DictWrapper.serialize_mapper / deserialize_mapper; one object is added twice (a clone)"""
    shapes = [sh for n in range(1, 5 if tier == "quick" else 6) for sh in H.forests(n)]
    if tier == "quick":
        shapes = shapes[::2]
    for j, shape in enumerate(shapes):
        k = rng.randint(2, len(DW_UNIV))
        nodes = B.shape_to_nodes(shape, lambda i, d, s: (rng.randrange(k), None, None))
        td = dict(typed=False, univ=DW_UNIV, nodes=nodes, calc=None, mapper="dw", km=KMS[j % 3], vm=["custom", "true", "false"][(j // 3) % 3],
                  meta=None)
        if valid_desc(td):
            yield td


RT_UNIV = ["s:a", "p:1", "e:1", "p:2", "s:c", "w:1"]


def retarget_descs(tier, rng):
    """HISTORY before the save: the tree is built without any clone, then nodes are re-keyed with set_data()/rename()
    so that clone groups come into being that never went through Tree._register"""
    shapes = [sh for n in range(2, 5 if tier == "quick" else 6) for sh in H.forests(n)]
    for j, shape in enumerate(shapes):
        n = H.shape_size(shape)
        for _ in range(1 if tier == "quick" else 2):
            typed = rng.random() < 0.5
            perm = rng.sample(range(len(RT_UNIV)), n)
            nodes = B.shape_to_nodes(shape, lambda i, d, s: (perm[i], KINDS[rng.randrange(2)] if typed else None, None))
            for _try in range(6):
                a, b = rng.sample(range(n), 2)
                rt = [[b, perm[a]]]
                if n >= 4 and rng.random() < 0.4:
                    c2, d2 = rng.sample(range(n), 2)
                    rt.append([d2, perm[c2]])
                td = dict(typed=typed, univ=RT_UNIV, nodes=nodes, retarget=rt, calc=None, mapper=rng.choice(["cb", "derived"]),
                          km=KMS[j % 3], vm=["true", "false", "custom"][(j // 2) % 3], meta=None)
                if valid_desc(td):
                    yield td
                    break


EQ_UNIV = ["s:Projects", "s:a", "e:1", "s:E1", "q:Projects", "s:b", "q:E1"]


def equal_descs(tier, rng):
    """equal-but-distinct objects where the library means identity: the TREE NAME (= data of the invisible system root)
    equals the data of a node that has children (a str, or an object that merely compares equal to it), at depth 0, 1
    and 2; a node's data equals another node's name/repr ("E1" vs the object E1)"""
    shapes = [sh for n in range(2, 5 if tier == "quick" else 6) for sh in H.forests(n) if H.shape_depth(sh) >= 2]
    for j, shape in enumerate(shapes):
        n = H.shape_size(shape)
        for rep in range(1 if tier == "quick" else 2):
            typed = (j + rep) % 2 == 1
            perm = rng.sample(range(len(EQ_UNIV)), min(n, len(EQ_UNIV))) + [rng.randrange(len(EQ_UNIV)) for _ in range(max(0, n - len(EQ_UNIV)))]
            nodes = B.shape_to_nodes(shape, lambda i, d, s: (perm[i], KINDS[rng.randrange(2)] if typed else None, None))
            # pre-order indices of the nodes that have children, with their label
            inner = []

            def walk(ns):
                for lbl, _k, _d, kids in ns:
                    if kids:
                        inner.append(lbl)
                    walk(kids)
            walk(nodes)
            names = [EQ_UNIV[l].partition(":")[2] for l in inner if EQ_UNIV[l][0] in "sq"]
            if not names:
                # make the first inner node the one that is equal to the name
                names = ["Projects"]
                nodes2 = json.loads(json.dumps(nodes))

                def patch(ns):
                    for x in ns:
                        if x[3]:
                            x[0] = 0 if rng.random() < 0.5 else 4
                            return True
                        if patch(x[3]):
                            return True
                    return False
                patch(nodes2)
                nodes = nodes2
            td = dict(typed=typed, univ=EQ_UNIV, nodes=nodes, name=rng.choice(names), calc=None, mapper=rng.choice(["cb", "derived"]),
                      km=KMS[j % 3], vm=["true", "false", "custom"][(j // 2) % 3], meta=None)
            if valid_desc(td):
                yield td


TEXT_UNIV = ["s:caf\u00e9", "s:\U0001f600\u4e2d", "s:\udce9lone", "s:ctl\x01\x1f\x7f", "s:q\"b\\s/", "s:ls\u2028\u2029", "e:1", "s:plain"]
TEXT_KINDS = ["k\u00fc\u2028", "a", "\U0001f600"]
TEXT_META = {"m\u00e9ta": "v\u2028\udc80", "plain": ["\U0001f600", "caf\u00e9"], "q\"": {"\\": "\x01"}}


def text_descs(tier, rng):
    """text flavours in node data / tree name / kinds / meta: non-ASCII BMP, astral, LONE SURROGATES (os.fsdecode of
    undecodable bytes), control characters, quotes and backslashes, U+2028/2029.  The written JSON must be pure ASCII
    (json's default ensure_ascii) so that it survives every target encoding."""
    shapes = [sh for n in range(1, 4 if tier == "quick" else 5) for sh in H.forests(n)]
    for j, shape in enumerate(shapes):
        n = H.shape_size(shape)
        for rep in range(2):
            typed = (j + rep) % 2 == 1
            perm = rng.sample(range(len(TEXT_UNIV)), n)
            nodes = B.shape_to_nodes(shape, lambda i, d, s: (perm[i], TEXT_KINDS[rng.randrange(3)] if typed else None,
                                                             rng.choice([None, None, "id\u00e9\udc80"]) if i == 0 else None))
            only_str = all(TEXT_UNIV[p].startswith("s:") for p in perm)
            td = dict(typed=typed, univ=TEXT_UNIV, nodes=nodes, name=rng.choice(["T", "n\u00e4me\udcff", TEXT_UNIV[perm[0]][2:]]),
                      calc=None, mapper=rng.choice(["cb", "derived"] + (["none"] if only_str else [])),
                      km=KMS[j % 3], vm=["true", "false"][rep], meta=dict(TEXT_META) if (j + rep) % 3 else None)
            if td["mapper"] == "derived" and typed:
                td["vm"] = "false"       # the derived class' value list for "kind" does not list these kinds
            if valid_desc(td):
                yield td


def falsy_descs():
    """every falsy data value as plain data and as a clone, with and without explicit data_id, in Tree and TypedTree,
    callback and derived-class mappers (and the built-in default mapper for "")"""
    for spec in FALSY:
        for typed in (False, True):
            for ms in ["cb", "derived"] + (["none"] if spec == "s:" else []):
                for did in (None, "fid"):
                    k = (lambda x: x) if typed else (lambda x: None)
                    nodes = [[0, k("a"), did, []], [1, k("a"), None, [[0, k("a"), did, []], [2, k("b"), None, []]]]]
                    yield dict(typed=typed, univ=[spec, "s:x", "e:7"] if ms != "none" else [spec, "s:x", "s:w"], nodes=nodes,
                               calc=None, km="true", vm="true", mapper=ms, meta=None)

KINDS = ["a", "b", "c", "child"]
KMS = ["true", "false", "custom"]
VMS = ["true", "false", "custom", "custom_nokind"]


class Prop:
    id = "C12"
    coq_prop = "Properties/C12.v"
    case_module = "CaseC12"
    case_vo = "theories/Cases/CaseC12.vo"
    run_fn = "run12"
    shard = 40
    rule = ("plain and typed trees: every ordered forest with <= N nodes (N=4 quick, 5 thorough) x label patterns with repeats "
            "(clones at every relative position) x kinds x explicit ids, over str/unicode/object universes, plus seeded random trees "
            "up to 12 nodes; each x key_map in {default, off, custom} x value_map in {default, off, custom, custom-without-kind} x "
            "mapper style {none, callback, derived class}.  WRITER cases: the text written by Tree.save is parsed and compared with the "
            "model's save_doc and with the declarative layout_doc; oracle = independent Python encoder of the documented layout; the text written "
            "to a str / Path target must be the same document; one meta dict reused by a second save with maps off stays untouched and gives the "
            "layout for (off, off); class-level default maps unchanged. "
            "READER cases: documents produced by that independent encoder (never by save; object members in random order for half of them) are loaded by the implementation; oracle = "
            "iso(source, loaded) + file meta + the same tree with deserialize mappers that consume their dict + sequences of loads sharing ONE "
            "file_meta dict (documents with / without / with other maps in several orders; each result = that document alone, its header in the dict).  The 4 literal documents of docs/sphinx/ug_serialize.rst; malformed / foreign headers. "
            "non-trivial = the document has a clone reference, a kind-differing clone, a shortened key or value")
    exhaustive_note = "all forest shapes <= N nodes (N=4 quick) with sampled labelings/options"
    assumptions = ["json.dump/json.load are the identity on JSON values (exercised: the real text is parsed)",
                   "hash() of strings and of rebuilt data objects are facts of the run fed to the model"]
    manifest = dict(
        text=("Machine-checked theorems (Coq 8.16, no axioms): the model's writer equals an independent declarative encoder of the documented "
              "layout for every tree and option set satisfying the listed side conditions; the reader loads every such document into the tree "
              "it describes; the literal documents of the user guide (lifted from the .rst on every run) load to the trees drawn there; every "
              "JSON value without the nutree header is rejected.  Tied to /repo by a correspondence check on the real JSON text and on documents "
              "produced by an independent Python encoder."),
        note=("Trusted: Coq kernel + vm_compute; hand-written model theories/Forest/Serialize.v (tied by the correspondence only); json module; "
              "harness generators/observation.  The header predicate (has_header_decl) and the maps in use (km_spec / vm_spec, incl. the "
              "TypedTree kind list) are specified independently of the model and proved equal to what the reader tests / the writer resolves.  "
              "EXERCISED, NOT PROVED: str/Path targets write the same document as a stream; save leaves the caller's dicts and node data "
              "untouched.  OUTSIDE THE DOCUMENTED LAYOUT / THE QUANTIFIER: JSON objects with a duplicate member name (the model reads the "
              "first binding, json.load keeps the last; json.dump never writes them); value_map lists are lists of STRINGS in the model "
              "(Python also accepts other hashable values); opts_ok excludes a non-injective key_map, entry keys equal to a short name (D51) "
              "and values not listed (save raises KeyError) -- outside opts_ok the correspondence still compares model and implementation "
              "(CSaveRaw cases) but no theorem applies; files of other generator versions are covered by the guide's literal documents and "
              "the FOREIGN cases only."),
        technique="Coq proof about an executable Gallina model + differential correspondence check (vm_compute) + Python oracle",
        design_ref="DESIGN.md section 6 (C12)",
    )

    # ----- generation
    def tree_descs(self, tier, rng):
        nmax = 4 if tier == "quick" else 5
        per_shape = 6 if tier == "quick" else 10
        for n in range(0, nmax + 1):
            for shape in H.forests(n):
                for lab in label_patterns(n, rng, per_shape):
                    typed = rng.random() < 0.5
                    univ = rng.choice(UNIVS)
                    kk = rng.choice([1, 2, 3])
                    explicit = rng.random() < 0.3
                    nodes = B.shape_to_nodes(shape, lambda i, d, s: (
                        lab[i] % len(univ), KINDS[rng.randrange(kk)] if typed else None,
                        (rng.choice(["x", "y", 7, 0, ""]) if rng.random() < 0.5 else None) if explicit else None))
                    td = dict(typed=typed, univ=univ, nodes=nodes, calc=rng.choice([None, None, None, "name"]))
                    nm = name_like_inner(td)
                    if nm is not None and rng.random() < 0.4:
                        td["name"] = nm
                    if valid_desc(td):
                        yield td
        nrand = 90 if tier == "quick" else 400
        for _ in range(nrand):
            n = rng.randint(5, 12)
            shape = H.random_shape(rng, n, deep=rng.choice([0.2, 0.5, 0.8]))
            univ = rng.choice(UNIVS)
            typed = rng.random() < 0.5
            k = rng.randint(2, 6)
            kk = rng.choice([1, 2, 3])
            nodes = B.shape_to_nodes(shape, lambda i, d, s: (rng.randrange(k) % len(univ), KINDS[rng.randrange(kk)] if typed else None,
                                                             rng.choice([None, None, None, "x", 5])))
            td = dict(typed=typed, univ=univ, nodes=nodes, calc=rng.choice([None, None, "name"]))
            nm = name_like_inner(td)
            if nm is not None and rng.random() < 0.4:
                td["name"] = nm
            if valid_desc(td):
                yield td

    def descs(self, tier, rng):
        yield from CORPUS
        for i in range(len(S.DOC_TREES)):
            yield dict(kind="docex", n=i)
        for v in BAD_HEADERS:
            yield dict(kind="raw", doc=v, typed=False, mapper="none")
        for v, typed, mapper in FOREIGN:
            yield dict(kind="raw", doc=v, typed=typed, mapper=mapper)
        for fd in falsy_descs():
            yield dict(fd, kind="save")
            yield dict(fd, kind="load", shuffle=False)
        for fd in list(dw_descs(tier, rng)) + list(retarget_descs(tier, rng)) + list(equal_descs(tier, rng)) + list(text_descs(tier, rng)):
            yield dict(fd, kind="save")
            yield dict(fd, kind="load", shuffle=False)
        for td in self.tree_descs(tier, rng):
            only_str = all(u.startswith("s:") for u in td["univ"])
            for _ in range(2):
                ms = rng.choice(["cb", "derived"] + (["none"] if only_str else []))
                o = dict(td, km=rng.choice(KMS), vm=rng.choice(VMS), mapper=ms,
                         meta=rng.choice([None, None, {"foo": "bar"}, {"str": "s", "t": [1], "kind": {"data_id": 0}}, {"n": 1, "l": [1, "x", None, True], "d": {"a": {}}}]))
                yield dict(o, kind="save")
                yield dict(o, kind="load", shuffle=rng.random() < 0.5)
            if ms != "derived" and rng.random() < 0.25:
                # options outside opts_ok (short names clashing with entry keys, value lists that do not cover):
                # no oracle, the model must reproduce what the implementation does (errors included)
                yield dict(td, km=rng.choice(["clash", "true"]), vm=rng.choice(["partial", "false"]), mapper="cb", meta=None, kind="save", outside=True)

    def shrink_candidates(self, desc):
        if "nodes" not in desc:
            return
        for nodes in B.drop_one_node(desc["nodes"]):
            yield dict(desc, nodes=nodes)
        for k, v in (("km", "false"), ("vm", "false"), ("meta", None), ("calc", None)):
            if desc.get(k) not in (v,):
                yield {**desc, k: v}

    # ----- one case
    def run(self, desc) -> Case:
        kind = desc.get("kind", "save")
        if kind == "docex":
            return self.run_docex(desc)
        if kind == "raw":
            return self.run_raw(desc)
        try:
            tree, U = S.build_tree(desc)
        except Exception:
            # invalid description (duplicate sibling ids): nothing to store
            return Case(desc=desc, coq_input="CLoad (LE CPlain MNone [] []) JNull", impl_obs=[1, 9], nontrivial=False,
                        key="invalid", stats=dict(kind="invalid"))
        if kind == "save":
            return self.run_save(desc, tree, U)
        return self.run_load(desc, tree, U)

    def expected_doc(self, desc, tree):
        kmap, vmap = S.doc_maps(desc, tree._root)
        ms = desc.get("mapper", "cb")
        import nutree
        return S.py_layout(tree._root, typed=bool(desc.get("typed")), kmap=kmap, vmap=vmap, meta=desc.get("meta"),
                           mapper=S.layout_mapper(ms), version=nutree.__version__)

    def run_save(self, desc, tree, U):
        skw, _lkw, _cls = S.resolve_opts(desc)
        import copy
        skw_snap = copy.deepcopy({k: v for k, v in skw.items() if k in ("key_map", "value_map", "meta")})
        data_snap = S.data_snapshot(tree._root)
        fail = None
        finding = None
        try:
            fp = io.StringIO()
            tree.save(fp, **skw)
            text = fp.getvalue()
            got = json.loads(text)
            obs = [[0, S.jv_sx(got)], S.jv_sx(got)]
            if not text.isascii():
                bad = next(c for c in text if ord(c) > 127)
                fail = (f"writer: the JSON text is not pure ASCII (character U+{ord(bad):04X} written verbatim): it does not survive a "
                        f"target that is not UTF-8, nor lone surrogates on a path target")
        except Exception as e:  # noqa: BLE001
            got = None
            obs = [[1, S.err_class(e)], []]
        try:
            exp = None if desc.get("outside") else self.expected_doc(desc, tree)
        except Exception as e:  # noqa: BLE001 (value not covered by the value_map ...)
            exp = None
        if exp is not None and not fail:
            if got is None:
                fail = f"writer: save failed with error class {obs[0][1]} although the layout is defined"
            elif got != exp:
                fail = f"writer: document differs from the documented layout: got {json.dumps(got)[:600]} expected {json.dumps(exp)[:600]}"
        # save is read-only: the data of every node is what it was (checked before anything is derived from the live tree)
        ro = S.snapshot_diff(data_snap, S.data_snapshot(tree._root), "save()")
        if ro:
            fail = ro
        if exp is not None and got is not None and not fail:
            fail = self.more_writer_checks(desc, tree, skw, got)
            fail = fail or S.snapshot_diff(data_snap, S.data_snapshot(tree._root), "save()")
        if not fail:
            now = {k: v for k, v in skw.items() if k in skw_snap}
            if now != skw_snap:
                # D90: TypedTree.save writes the collected kinds into the caller's value_map dict
                fail = f"D90: save() modified the dicts handed in by the caller: {now} (were {skw_snap})"
                finding = "D90"
        fail = fail or S.class_defaults_changed()
        coq = f"CSave {S.coq_sopts(desc, tree, U)} {H.coq_forest(tree._root, U)}"
        if desc.get("outside"):
            coq, obs = "CSaveRaw" + coq[5:], obs[0]
        nodes = (got or {}).get("nodes", [])
        refs = sum(1 for e in nodes if isinstance(e[1], int))
        return Case(desc=desc, coq_input=coq, impl_obs=obs, oracle_fail=fail, finding=finding,
                    nontrivial=refs > 0 or any(isinstance(e[1], dict) for e in nodes),
                    key=H.digest([desc.get("nodes"), desc.get("km"), desc.get("vm"), desc.get("typed"), desc.get("mapper"), "s"]),
                    stats=dict(kind="save", nodes=len(nodes), refs=min(refs, 4), km=desc.get("km"), vm=desc.get("vm"),
                               typed=bool(desc.get("typed")), mapper=desc.get("mapper"), ok=got is not None))

    def more_writer_checks(self, desc, tree, skw, got):
        """the options mean the same for every target kind; save leaves the caller's dicts alone"""
        import copy
        TMP.mkdir(parents=True, exist_ok=True)
        # (a) PATH target (str and Path) vs. the stream target: the same document, i.e. the layout
        for target in (str(TMP / "w.nutree"), TMP / "w2.nutree"):
            try:
                tree.save(target, **skw)
                doc = json.loads(open(target, encoding="utf8").read())
            except Exception as e:  # noqa: BLE001
                return f"writer: save to a {type(target).__name__} target fails: {e!r:.200}"
            if doc != got:
                return (f"writer: the document written to a {type(target).__name__} target differs from the one written to a stream "
                        f"(= the layout): {json.dumps(doc)[:500]} instead of {json.dumps(got)[:500]}")
        # (b) one meta dict object reused by a second save with both maps off
        m = dict(desc.get("meta") or {"foo": "bar"})
        snap = copy.deepcopy(m)
        skw0, _l, _c = S.resolve_opts(dict(desc, km="false", vm="false"))
        try:
            tree.save(io.StringIO(), **{**skw, "meta": m})
            if m != snap:
                return f"writer: save() modified the caller's meta dict: {m} (was {snap})"
            fp = io.StringIO()
            tree.save(fp, **{**skw0, "meta": m})
            doc2 = json.loads(fp.getvalue())
        except Exception as e:  # noqa: BLE001
            return f"writer: two saves with one meta dict: {e!r:.200}"
        if m != snap:
            return f"writer: save() modified the caller's meta dict: {m} (was {snap})"
        exp2 = self.expected_doc(dict(desc, km="false", vm="false", meta=snap), tree)
        if doc2 != exp2:
            return (f"writer: second save (maps off) reusing the meta dict differs from the layout: {json.dumps(doc2)[:500]} "
                    f"expected {json.dumps(exp2)[:500]}")
        return None

    def load_obs(self, cls, text, lkw):
        meta = {}
        try:
            t2 = cls.load(io.StringIO(text), file_meta=meta, **lkw)
        except Exception as e:  # noqa: BLE001
            hashes, self._last_names = S.failed_load_facts(lambda: cls.load(io.StringIO(text), **lkw))
            return None, [1, S.err_class(e)], hashes, meta
        self._last_names = S.loaded_names(t2)
        try:
            dn = json.loads(text)["nodes"]
        except Exception:  # noqa: BLE001
            dn = None
        forest, hashes = S.obs_loaded_tree(t2, dn if isinstance(dn, list) else None)
        return t2, [0, [S.jv_sx(meta), forest]], hashes, meta

    def run_load(self, desc, tree, U):
        _skw, lkw, cls = S.resolve_opts(desc)
        try:
            doc = self.expected_doc(desc, tree)
        except Exception:
            return Case(desc=desc, coq_input="CLoad (LE CPlain MNone [] []) JNull", impl_obs=[1, 9], nontrivial=False,
                        key="nolayout", stats=dict(kind="nolayout"))
        if desc.get("shuffle"):
            # JSON objects are unordered: another producer may emit the members in any order
            import random
            r = random.Random(H.digest(desc))

            def shuf(d):
                items = list(d.items())
                r.shuffle(items)
                return dict(items)
            doc = shuf({"meta": shuf(doc["meta"]), "nodes": [[p, shuf(e) if isinstance(e, dict) else e] for p, e in doc["nodes"]]})
        text = json.dumps(doc)
        doc = json.loads(text)     # what a reader sees (tuples are lists ...)
        t2, obs, hashes, meta = self.load_obs(cls, text, lkw)
        fail = None
        ms = desc.get("mapper", "cb")
        finding = None
        needs_mapper = ms == "none" and any(isinstance(e[1], dict) for e in doc["nodes"]) and not desc.get("typed")
        if t2 is None:
            fail = f"reader: refuses a document of the documented layout (error class {obs[1]}): {text[:500]}"
        else:
            d40 = S.in_d40_region(tree._root)
            fail = S.tree_iso(tree._root, t2._root, d40_expected=d40)
            if fail and fail.startswith("D40"):
                finding = "D40"
            if not fail and meta != doc["meta"]:
                fail = f"reader: file meta {meta} != stored {doc['meta']}"
            if not fail:
                for style, tc in S.consuming_loads(cls, lkw, text):
                    if isinstance(tc, Exception):
                        fail = f"reader: load with a dict-consuming deserialize mapper ({style}) fails: {tc!r:.200}"
                    elif S.canon(tc._root) != S.canon(t2._root):
                        fail = (f"reader: with a deserialize mapper ({style}) that pops 'data_id'/'kind' from its dict the loaded tree "
                                f"differs: {S.canon(tc._root)} instead of {S.canon(t2._root)}")
                    if fail:
                        break
            if not fail and not finding:
                # SEQUENCES of loads sharing ONE caller-owned file_meta dict: another file with maps first, then this
                # document, the same tree encoded without maps, with the other maps, without, and this document again --
                # every load must give the tree of THAT document alone and leave its header in the dict
                texts = [text]
                for km2, vm2 in (("false", "false"), ("custom", "custom") if desc.get("km") != "custom" else ("true", "true"), ("false", "false")):
                    try:
                        texts.append(json.dumps(self.expected_doc(dict(desc, km=km2, vm=vm2), tree)))
                    except Exception:  # noqa: BLE001 (value list does not cover ...)
                        pass
                texts.append(text)
                fail = S.file_meta_reuse_check(cls, lkw, texts, S.canon(t2._root))
        fail = fail or S.class_defaults_changed()
        strings = set()
        S.all_strings(doc, strings)
        coq = f"CLoad {S.coq_lenv(bool(desc.get('typed')), ms, strings, hashes, self._last_names if ms == 'dw' else ())} {S.jv_coq(doc)}"
        refs = sum(1 for e in doc["nodes"] if isinstance(e[1], int))
        return Case(desc=desc, coq_input=coq, impl_obs=obs, oracle_fail=fail, finding=finding,
                    nontrivial=refs > 0 or any(isinstance(e[1], dict) for e in doc["nodes"]),
                    key=H.digest([desc.get("nodes"), desc.get("km"), desc.get("vm"), desc.get("typed"), desc.get("mapper"), "l"]),
                    stats=dict(kind="load", nodes=len(doc["nodes"]), refs=min(refs, 4), km=desc.get("km"), vm=desc.get("vm"),
                               typed=bool(desc.get("typed")), mapper=ms, ok=t2 is not None))

    def run_docex(self, desc):
        n = desc["n"]
        doc = S.doc_examples()[n]
        text = json.dumps(doc)
        lkw = {} if n == 0 else dict(mapper=S.doc_deser_mapper)
        t2, obs, hashes, meta = self.load_obs(Tree, text, lkw)
        fail = None
        if t2 is None:
            fail = f"user guide example #{n} is refused (error class {obs[1]})"
        else:
            def shape(node):
                return [(f"{c._data}", shape(c)) for c in (node._children or [])]
            if shape(t2._root) != S.DOC_TREES[n]:
                fail = f"user guide example #{n} loads as {shape(t2._root)}, the guide shows {S.DOC_TREES[n]}"
            else:
                nodes = B.all_nodes(t2._root)
                byname = {}
                for x in nodes:
                    byname.setdefault(f"{x._data}", set()).add(x._data_id)
                if any(len(v) != 1 for v in byname.values()):
                    fail = f"user guide example #{n}: clone group lost: {byname}"
                elif meta != doc["meta"]:
                    fail = f"user guide example #{n}: file meta {meta}"
        strings = set()
        S.all_strings(doc, strings)
        coq = f"CDocEx {n} {S.coq_lenv(False, 'none' if n == 0 else 'doc', strings, hashes)}"
        return Case(desc=desc, coq_input=coq, impl_obs=obs, oracle_fail=fail, nontrivial=True, key=f"docex{n}",
                    stats=dict(kind="docex"))

    def run_raw(self, desc):
        doc = desc["doc"]
        text = json.dumps(doc)
        doc = json.loads(text)
        typed = bool(desc.get("typed"))
        ms = desc.get("mapper", "none")
        cls = TypedTree if typed else Tree
        lkw = dict(mapper=S.deser_mapper) if ms == "cb" else {}
        t2, obs, hashes, meta = self.load_obs(cls, text, lkw)
        fail = None
        has_header = (isinstance(doc, dict) and isinstance(doc.get("meta"), dict) and "nodes" in doc
                      and "nutree/" in str(doc["meta"].get("$generator", "")))
        if not has_header and t2 is not None:
            fail = f"reader: accepts JSON without the nutree header: {text[:300]}"
        if "expect" in desc and t2 is not None:
            def shape(node):
                return [[f"{c._data}", shape(c)] for c in (node._children or [])]
            if shape(t2._root) != desc["expect"]:
                fail = f"reader: {text[:300]} loads as {shape(t2._root)}, expected {desc['expect']}"
        if "expect" in desc and t2 is None:
            fail = f"reader: refuses {text[:300]} (error class {obs[1]})"
        strings = set()
        S.all_strings(doc, strings)
        coq = f"CLoad {S.coq_lenv(typed, ms, strings, hashes)} {S.jv_coq(doc)}"
        return Case(desc=desc, coq_input=coq, impl_obs=obs, oracle_fail=fail, nontrivial=not has_header or "expect" in desc,
                    key=H.digest(["raw", doc, typed, ms]), stats=dict(kind="raw", header=has_header, ok=t2 is not None))


HDR = {"$generator": "nutree/0.9.0", "$format_version": "1.0"}
BAD_HEADERS = [
    None, True, 0, 17, "nutree/1.0", [], [1, 2], {}, {"nodes": []}, {"meta": HDR}, {"meta": {}, "nodes": []},
    {"meta": {"$format_version": "1.0"}, "nodes": [[0, "a"]]},
    {"meta": {"$generator": "othertool/1.0", "$format_version": "1.0"}, "nodes": [[0, "a"]]},
    {"meta": {"$generator": "nutree 1.0"}, "nodes": [[0, "a"]]}, {"meta": {"$generator": "Nutree/1.0"}, "nodes": [[0, "a"]]},
    {"meta": {"$generator": "nutree"}, "nodes": []}, {"meta": {"$generator": "nu/tree"}, "nodes": []},
    {"meta": {"$generator": 7}, "nodes": []}, {"meta": {"$generator": None}, "nodes": []},
    {"meta": {"generator": "nutree/1.0"}, "nodes": []},
    {"meta": [], "nodes": []}, {"meta": ["x"], "nodes": []}, {"meta": "zzz", "nodes": []},
    {"meta": ["$generator"], "nodes": []}, {"meta": "$generator", "nodes": []}, {"meta": "the $generator", "nodes": []},
    {"meta": None, "nodes": []}, {"meta": 3, "nodes": []},
    {"Meta": HDR, "Nodes": []}, [{"meta": HDR, "nodes": []}],
]
FOREIGN = [
    # accepted generator spellings and a few documents written by hand
    ({"meta": {"$generator": "nutree/0.1"}, "nodes": []}, False, "none"),
    ({"meta": {"$generator": "my-nutree/x"}, "nodes": [[0, "a"], [1, "b"], [0, "c"]]}, False, "none"),
    ({"meta": {"$generator": ["nutree/1"]}, "nodes": [[0, "a"]]}, False, "none"),
    ({"meta": {"$generator": {"nutree/": 1}}, "nodes": [[0, "a"]]}, False, "none"),
    ({"nodes": [[0, "a"], [1, "b"], [0, "c"], [3, 2]], "meta": HDR}, False, "none"),
    # a plain document read by a TypedTree, and a typed one read with short keys declared in the header
    ({"meta": HDR, "nodes": [[0, "a"], [1, "b"], [1, 1]]}, True, "none"),
    ({"meta": dict(HDR, **{"$key_map": {"str": "s", "kind": "k"}, "$value_map": {"kind": ["x", "y"]}}),
      "nodes": [[0, {"s": "a", "k": 1}], [1, {"s": "b", "k": 0}], [0, {"s": "b", "k": 1}], [3, 1]]}, True, "none"),
    # dangling or forward references, bad parents
    ({"meta": HDR, "nodes": [[0, "a"], [5, "b"]]}, False, "none"),
    ({"meta": HDR, "nodes": [[0, "a"], [0, 7]]}, False, "none"),
    ({"meta": HDR, "nodes": [[0, "a"], [0, 1]]}, False, "none"),
    ({"meta": HDR, "nodes": [[0, "a"], [1, 1]]}, False, "none"),
    ({"meta": HDR, "nodes": [[0, "a"], [0, "a"]]}, False, "none"),
    ({"meta": HDR, "nodes": [[0, "a"], [-1, "b"]]}, False, "none"),
    ({"meta": HDR, "nodes": [[0, {"x": 1}]]}, False, "none"),
    ({"meta": HDR, "nodes": [[0, {"str": "q", "data_id": "k1"}], [1, {"str": "q", "data_id": "k2"}]]}, False, "cb"),
    ({"meta": dict(HDR, **{"$value_map": {"t": ["e", "p"]}}), "nodes": [[0, {"t": 1, "v": 5, "n": "P5"}], [1, {"t": 0, "v": 5, "n": "E5"}], [0, {"t": 7, "v": 1, "n": ""}]]}, False, "cb"),
    ({"meta": dict(HDR, **{"$value_map": {"t": ["e", "p"]}}), "nodes": [[0, {"t": -1, "v": 5, "n": "P5"}], [1, {"t": True, "v": 6, "n": "P6"}]]}, False, "cb"),
]

CORPUS = [
    # D12: a clone below a sibling of its first occurrence (x, y > x)
    dict(kind="load", typed=False, univ=["s:x", "s:y"], nodes=[[0, None, None, []], [1, None, None, [[0, None, None, []]]]], km="true", vm="true", mapper="none"),
    dict(kind="save", typed=False, univ=["s:x", "s:y"], nodes=[[0, None, None, []], [1, None, None, [[0, None, None, []]]]], km="true", vm="true", mapper="none"),
    # D18: real clones of one object (default id) and, between them, the same object under an explicit id
    dict(kind="save", typed=False, univ=["e:1", "s:r", "s:q"], nodes=[[0, None, None, []], [1, None, None, [[0, None, "x", []]]], [2, None, None, [[0, None, None, []]]]], km="false", vm="false", mapper="cb"),
    dict(kind="load", typed=False, univ=["e:1", "s:r", "s:q"], nodes=[[0, None, None, []], [1, None, None, [[0, None, "x", []]]], [2, None, None, [[0, None, None, []]]]], km="false", vm="false", mapper="cb"),
    dict(kind="save", typed=False, univ=["e:1", "s:r"], nodes=[[0, None, "k1", []], [1, None, None, [[0, None, "k2", []]]], [0, None, "k2", []]], km="false", vm="false", mapper="cb"),
    dict(kind="load", typed=False, univ=["e:1", "s:r"], nodes=[[0, None, "k1", []], [1, None, None, [[0, None, "k2", []]]], [0, None, "k2", []]], km="false", vm="false", mapper="cb"),
    # D50: a str node of a typed tree with an explicit data_id
    dict(kind="save", typed=True, univ=["s:x", "s:y"], nodes=[[0, "a", "k1", [[1, "a", None, []]]], [1, "b", None, [[0, "a", "k1", []]]]], km="true", vm="true", mapper="none"),
    dict(kind="load", typed=True, univ=["s:x", "s:y"], nodes=[[0, "a", "k1", [[1, "a", None, []]]], [1, "b", None, [[0, "a", "k1", []]]]], km="true", vm="true", mapper="none"),
    # clones of differing kind, clone nested below its first occurrence
    dict(kind="save", typed=True, univ=["s:x", "s:y", "e:1"], nodes=[[0, "a", None, [[1, "a", None, [[0, "b", None, []]]]]], [2, "a", None, [[0, "a", None, []], [2, "b", None, []]]]], km="custom", vm="custom", mapper="cb"),
    dict(kind="load", typed=True, univ=["s:x", "s:y", "e:1"], nodes=[[0, "a", None, [[1, "a", None, [[0, "b", None, []]]]]], [2, "a", None, [[0, "a", None, []], [2, "b", None, []]]]], km="custom", vm="custom", mapper="cb"),
    # D90: TypedTree.save(value_map=<dict without "kind">) writes the kind list into the caller's dict
    dict(kind="save", typed=True, univ=["s:x", "s:y"], nodes=[[0, "a", None, [[1, "b", None, []]]]], km="true", vm="custom_nokind", mapper="cb", meta=None, calc=None),
    # outside the domain (clones_consistent): one explicit data_id on two different data objects -- 'b' must load as 'a', exactly
    dict(kind="load", typed=False, univ=["s:a", "s:x", "s:b"], nodes=[[0, None, 1, []], [1, None, None, [[2, None, 1, []]]]], km="true", vm="true", mapper="cb"),
    dict(kind="save", typed=False, univ=["s:a", "s:x", "s:b"], nodes=[[0, None, 1, []], [1, None, None, [[2, None, 1, []]]]], km="true", vm="true", mapper="cb"),
    # tree name equal to the data of a node with children (Node.__eq__ compares data; the root's data is the tree name)
    dict(kind="save", typed=False, univ=["s:Projects", "s:alpha", "s:beta"], nodes=[[0, None, None, [[1, None, None, [[2, None, None, []]]]]]], name="Projects", km="true", vm="true", mapper="none"),
    dict(kind="save", typed=True, univ=["s:top", "q:Projects", "s:beta"], nodes=[[0, "a", None, [[1, "a", None, [[2, "b", None, []]]]]]], name="Projects", km="true", vm="true", mapper="cb"),
    # D40 (known): identity-hashed data, clone of another kind
    dict(kind="load", typed=True, univ=["p:1", "s:y"], nodes=[[0, "a", None, []], [1, "a", None, [[0, "b", None, []]]]], km="true", vm="true", mapper="cb"),
]

PROP = Prop()
