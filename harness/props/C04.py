"""C04 - every mutation has exactly its documented effect and no other.

Thin wrapper over harness/mut.py (the Layer-B history engine):
* correspondence = the decision procedure: after EVERY step of every history the observable state of
  every tree (forest by identity walk, node.parent, node.tree, data object identity, data_id, kind, meta,
  `_node_by_id` order, `_nodes_by_data_id` groups) must equal what `CaseMut.run_mut` computes with the
  mutation machine `Mut/Machine.v`;
* oracle = `mut_spec.check`: an independent Python specification of every op's documented effect on
  plain nested lists + the frame condition, plus the structural oracles (wf/index/sibling/refusal) of mut.py.
"""
from __future__ import annotations

import common as H
import mut
from common import Case

QUICK_FAMILIES = ("add", "short", "move", "remove", "remove_children", "clear", "sort", "set_data", "meta", "del")
CHUNK = 40


class Prop:
    id = "C04"
    coq_prop = "Properties/C04.v"
    case_module = "CaseMut"
    case_vo = "theories/Cases/CaseMut.vo"
    run_fn = "run_mut"
    shard = 8
    rule = ("(a) the corpus of defect witnesses (mut.CORPUS); (b) exhaustive: every ordered forest with <= N nodes (N=3 quick, 4 thorough) "
            "under three labelings (distinct strings / equal-comparing objects with distinct explicit ids / clones in different parents), "
            "plain (thorough: also typed, <= 3 nodes), and on it EVERY single operation with EVERY argument: add with before in "
            "{None, True, False, 0, 1, -1, len, len+1, -len-1, each child, a foreign node} under every parent, colliding data and ids, the four "
            "shortcuts, move of every node to every parent with every `before`, remove x keep_children x with_clones, remove_children, clear, del by "
            "data/data_id/node_id, sort x reverse x deep x (default key | custom key with ties), set_data over data x data_id x with_clones, rename, "
            "the six metadata edits (thorough adds add(node), copy_to, Node.copy, Tree.copy, all 6^n filter verdict tables for n<=3); "
            "(c) seeded random histories of <= 30 (thorough 40) operations over 1-3 trees (plain/typed, calc_data_id callbacks), two thirds "
            "mostly-valid and one third malformed (invalid before, colliding ids, foreign targets, moves into the own branch, raising callbacks); "
            "removed nodes are never referenced.  A case = one history or one (setup, <=40 alternative last ops) group; the full state of every "
            "tree is compared after every step.  distinct = distinct (universe, ops); non-trivial = some step changed the state")
    exhaustive_note = "every single op x every argument on all forests <= 3 nodes (quick) / <= 4 nodes (thorough) x 3 labelings"
    assumptions = ["identity of nodes is the allocation index recorded by a harness-side wrapper of Node.__init__",
                   "user callbacks (calc_data_id, sort key, filter predicate) are tables from objects/nodes to values that may raise",
                   "node references of generated ops are live (references to removed nodes are not public operations)"]
    trusted = ["harness/mut.py + harness/mut_spec.py (replayer, observation, independent effect specification)"]
    manifest = dict(
        text=("Machine-checked effect and frame theorems (Coq 8.16, no axioms) about an executable model of the mutating API "
              "(Mut/Machine.v: add/append/prepend/sibling shortcuts, add(node), add(tree), copy_to, Tree.copy, Node.copy, move_to, remove with "
              "keep_children/with_clones, remove_children, clear, del, sort, set_data/rename, metadata edits, in-place filter, from_dict): "
              "placement of a new child for before=None/False/True/index (negative, clamped)/node in list algebra; per operation the child list "
              "it names and, through one context lemma on the pre-order list of (parent, node, payload) rows, the frame condition that every other "
              "row is unchanged in unchanged order; sort (flat or deep) is a permutation, sorted by key, stable, also with reverse; every operation "
              "leaves all trees but its target untouched.  The model is tied to /repo on "
              "every run: the implementation's full observable state after every step of exhaustive single-op cases (all forests <= 3/4 nodes x "
              "all arguments) and random histories must equal the model's, and an independent Python specification of every documented effect "
              "(harness/mut_spec.py) is evaluated on every step."),
        note=("Trusted: Coq kernel + vm_compute; hand-written model Mut/Machine.v (tied by the correspondence only); harness/mut.py, mut_spec.py. "
              "The model describes the code as repaired by fixes/D01..D70 (ordered series in fixes/SERIES.txt); each repaired defect has a witness in "
              "mut.CORPUS that fails on the unchanged code.  Pinned behaviour kept and modelled: the top node of a typed copy gets kind 'child' (D47). "
              "Proved for all inputs (Properties/C04.v): placement for every form of `before`; effect + row-level frame of add, the four shortcuts, "
              "remove (branch / keep_children / with_clones = prune of the clone group), remove_children, clear, del, move_to, sort (flat and deep: permutation, sorted by key, stable, reverse), "
              "set_data/rename incl. clone groups, metadata edits; and for EVERY op and outcome that only the tree it works on can change. "
              "Also proved (audit follow-up): set_data/rename write exactly the new data/id into exactly the node or its clone group "
              "(C04_set_data_exact), the sibling shortcuts at step level, remove(with_clones, keep_children) together (splice), the in-place "
              "filter and from_dict effects, sortedness on the DEFINED keys with 'Ok => keys defined', sort_deep fuel sufficiency, and PROGRESS: "
              "a decidable valid_op / valid_move with 'valid => the step answers Ok' for add, shortcuts, add(node), remove, remove_children, "
              "clear, del, sort, set_data, rename, metadata edits, new tree, Tree.copy, Node.copy, move_to (not for add(tree), copy_to("
              "add_self=False), filter, from_dict).  The effect theorems are about Machine.step; C04_step_chk_ok transfers them to the guarded "
              "step_chk the cases evaluate.  The sentence 'Equivalently: the state after an operation is the documented function of the state "
              "before' has no single Coq-level specification independent of the machine's own helpers for add/move (placement laws C04_before_* "
              "and the row frame are the independent content); the independent specification of every documented effect is harness/mut_spec.py, "
              "evaluated on the implementation's observed before/after of every step.  The copy family is property C07."),
        technique="Coq proof about an executable Gallina model + differential correspondence check (vm_compute) + Python oracle",
        design_ref="DESIGN.md section 6 (C04), 3.2, 3.4",
    )

    # ------------------------------------------------------------------
    def descs(self, tier, rng):
        for c in mut.CORPUS:
            yield dict(kind="hist", univ=c["univ"], ops=c["ops"], corpus=c["id"])
        quick = tier == "quick"
        nmax = 3 if quick else 4
        fams = QUICK_FAMILIES if quick else None
        for g in mut.gen_exhaustive(nmax, families=fams):
            if not quick and g["n"] == 4:
                # the 6^n filter tables and the set_data product stay at <= 3 nodes
                alts = [a for a in g["alts"] if a[0] not in ("filter", "set_data", "meta")]
            elif quick and g["n"] == 3:
                # quick tier: every third cell of the set_data product (the thorough tier runs all of them)
                sd = [a for a in g["alts"] if a[0] == "set_data"]
                keep = {id(a) for i, a in enumerate(sd) if i % 3 == 0}
                alts = [a for a in g["alts"] if a[0] != "set_data" or id(a) in keep]
            else:
                alts = g["alts"]
            for i in range(0, len(alts), CHUNK):
                yield dict(kind="alts", univ=g["univ"], setup=g["setup"], alts=alts[i:i + CHUNK], label=g["label"])
        for g in mut.gen_shapes(mut.EXTRA_SHAPES[:2] if quick else mut.EXTRA_SHAPES, labelings=("distinct",) if quick else ("distinct", "equal"),
                                families=("sort", "remove", "move") if quick else ("sort", "remove", "move", "short", "del", "copyto")):
            alts = g["alts"] if not quick else [a for i, a in enumerate(g["alts"]) if a[0] != "move" or i % 4 == 0]
            for i in range(0, len(alts), CHUNK):
                yield dict(kind="alts", univ=g["univ"], setup=g["setup"], alts=alts[i:i + CHUNK], label=g["label"])
        for g in mut.gen_addtree(typed=(False,) if quick else (False, True)):
            for i in range(0, len(g["alts"]), CHUNK):
                yield dict(kind="alts", univ=g["univ"], setup=g["setup"], alts=g["alts"][i:i + CHUNK], label=g["label"])
        if quick:
            for g in mut.gen_exhaustive(2, typed=(True,), labelings=("distinct",), families=("add", "short", "remove", "move", "sort", "set_data"), nmin=1):
                for i in range(0, len(g["alts"]), CHUNK):
                    yield dict(kind="alts", univ=g["univ"], setup=g["setup"], alts=g["alts"][i:i + CHUNK], label=g["label"] + "/typed")
            # siblings of alternating kinds: the kind-aware shortcuts must use ANY_KIND neighbours
            for g in mut.gen_shapes([((), (), ()), (((), (), ()),)], labelings=("distinct",), typed=(True,), families=("short", "add")):
                yield dict(kind="alts", univ=g["univ"], setup=g["setup"], alts=g["alts"][:2 * CHUNK], label=g["label"] + "/typed")
        if not quick:
            for g in mut.gen_exhaustive(3, typed=(True,)):
                for i in range(0, len(g["alts"]), CHUNK):
                    yield dict(kind="alts", univ=g["univ"], setup=g["setup"], alts=g["alts"][i:i + CHUNK], label=g["label"] + "/typed")
        # op X; one non-adding mutation; op X again verbatim (memo / cache not reset by the mutator in between)
        for h in mut.gen_sort_triples(3, quick=quick):
            yield dict(kind="hist", univ=h["univ"], ops=h["ops"])
        # metadata histories: the same update payload reaches several nodes, which are then edited one by one
        for i in range(6 if quick else 40):
            h = mut.gen_random(rng, rng.randint(10, 20), ntrees=1, ops=["meta"] * 7 + ["add"])
            yield dict(kind="hist", univ=h["univ"], ops=h["ops"])
        nrand = 24 if quick else 380
        for i in range(nrand):
            n_ops = rng.randint(8, 25 if quick else 40)
            h = (mut.gen_malformed if i % 3 == 2 else mut.gen_random)(rng, n_ops)
            yield dict(kind="hist", univ=h["univ"], ops=h["ops"])

    def shrink_candidates(self, desc):
        if desc["kind"] == "alts":
            for alt in desc["alts"]:
                yield dict(kind="hist", univ=desc["univ"], ops=desc["setup"] + [alt])
            return
        for h in mut.shrink_candidates(dict(univ=desc["univ"], ops=desc["ops"])):
            yield dict(kind="hist", univ=h["univ"], ops=h["ops"])

    def run(self, desc) -> Case:
        stats = {}
        if desc["kind"] == "alts":
            term, obs, runs = mut.run_group(desc)
            fails = [(r.steps[-1]["op"], f) for r in runs for f in r.fails]
            changed = sum(1 for r in runs if mut.changed(r.steps[-1]["before"], r.steps[-1]["after"]))
            kinds = {}
            for r in runs:
                op = r.steps[-1]["op"]
                res = r.steps[-1]["res"]
                k = op[0] + ("" if res[0] == 0 else ":" + H.ERR_NAMES.get(res[1], str(res[1])))
                kinds[k] = kinds.get(k, 0) + 1
            top = max(kinds, key=kinds.get) if kinds else ""
            stats = dict(kind="single-op group", nodes=len(desc["setup"]) - 1, label=desc.get("label", ""), most_frequent=top,
                         changed_share=round(changed / max(1, len(runs)), 1))
            nontrivial = changed > 0
            nsteps = len(runs)
        else:
            r = mut.replay(dict(univ=desc["univ"], ops=desc["ops"]))
            term, obs = mut.coq_case(r), r.obs
            fails = [(r.steps[si]["op"], (si, n, m)) for si, n, m in r.fails]
            changed = sum(1 for s in r.steps if mut.changed(s["before"], s["after"]))
            errs = sum(1 for s in r.steps if s["res"][0] == 1)
            ntrees = len(r.steps[-1]["after"]) if r.steps else 0
            size = sum(len(t[1]) for t in r.steps[-1]["after"]) if r.steps else 0
            stats = dict(kind="history", length=len(desc["ops"]) // 10 * 10, trees=ntrees, final_nodes=size // 5 * 5,
                         errors=errs // 3 * 3)
            nontrivial = changed > 0
        fail = None
        if fails:
            op, (si, name, msg) = fails[0]
            fail = f"{name}: {msg} [op {op[0]}]"
        return Case(desc=desc, coq_input=term, impl_obs=mut.safe_obs(obs), oracle_fail=fail, nontrivial=nontrivial,
                    key=H.digest([desc["univ"], desc.get("setup"), desc.get("alts"), desc.get("ops")]), stats=stats)


PROP = Prop()
CORPUS = mut.CORPUS
