"""C19 — load_tree_from_fs mirrors the directory it scanned; save/load with the FileSystemTree mappers keeps it.

Every case builds a REAL directory below a fresh tempfile.mkdtemp() (removed after the case) from a generated
abstract directory value, runs nutree.fs.load_tree_from_fs on it, saves the tree to a real file and loads it back.
The oracle is an independent walk with os.scandir + the generated description; it never calls the model and
compares names as code-point lists, not through str.__lt__.
"""
from __future__ import annotations

import json
import os
import re
import shutil
import tempfile
import time
from fractions import Fraction
from pathlib import Path

import common as H
from common import Case

from nutree.fs import FileSystemEntry, FileSystemTree, load_tree_from_fs

# FileSystemEntry.__repr__ renders the mtime in local time: the model is UTC
os.environ["TZ"] = "UTC"
time.tzset()

# ---------------------------------------------------------------------------
# names: groups of names whose relative order is easy to get wrong
# ---------------------------------------------------------------------------
NAME_GROUPS = [
    ["B", "a", "_x", "\u00e4", "10", "9"],
    ["a", "A", "b", "B", "Z", "z"],
    ["a", "aa", "a.b", "a b", "ab", "a-", "a_"],
    ["a\uffff", "a\U00010000", "a", "a\ud7ff", "a\ue000"],   # code point order != UTF-16 code unit order
    ["\u00e9", "e\u0301", "f", "e", "E"],                      # composed / decomposed accent
    ["1", "10", "2", "9", "09", "100"],
    [".h", "h", "~", "#x", "-", "_", " "],
    ["\u00df", "ss", "SS", "\u017f", "s"],
    ["\u00c4", "\u00e4", "Z", "z", "a", "\u00f6"],
    ["x.txt", "x.TXT", "X.txt", "x", "x.tx", "x.txt.bak"],
    ["\u540d", "\u524d", "a", "\u03c9", "\u03a9", "\u044f"],
    ["\udcff", "a\udc80", "a", "\udc80b", "z", "\ud7ff"],      # file names that are not valid UTF-8 (surrogateescape)
    ["a\nb", "a\\b", " a", "a ", "a\tb", "a'b", 'a"b'],          # control characters, quotes, backslash
    ["n" * 80, "n" * 79 + "m", "n" * 79, "n"],                  # long names with a long common prefix
]
for _g in NAME_GROUPS:
    assert len(set(_g)) == len(_g), _g
ALL_NAMES = sorted({n for g in NAME_GROUPS for n in g if len(n) < 50})


def cps(s: str):
    return [ord(c) for c in s]


# ---------------------------------------------------------------------------
# abstract directory values (JSON): ["f", name, size, [sec, eighths]] | ["d", name, [children]] | ["o", name, how]
# ---------------------------------------------------------------------------
def mt_ratio(mt):
    fr = Fraction(mt[0]) + Fraction(mt[1], 8)
    return [fr.numerator, fr.denominator]


def build_dir(root: str, listing):
    for ent in listing:
        p = os.path.join(root, ent[1])
        if ent[0] == "f":
            with open(p, "wb") as fp:
                fp.write(b"x" * ent[2])
            sec, e8 = ent[3]
            ns = sec * 1_000_000_000 + e8 * 125_000_000
            os.utime(p, ns=(ns, ns))
            st = os.stat(p)
            if st.st_mtime_ns != ns or st.st_size != ent[2]:
                raise RuntimeError(f"environment: file system did not keep size/mtime of {p!r}: {st}")
        elif ent[0] == "d":
            os.mkdir(p)
            build_dir(p, ent[2])
        elif ent[0] == "o":
            if ent[2] == "fifo":
                os.mkfifo(p)
            else:
                os.symlink("no-such-target-c19", p)
        else:
            raise ValueError(ent)


def observed_order(root: str, listing):
    """The same abstract value with every listing in the order the OS returns it."""
    names = os.listdir(root)
    if names != os.listdir(root) or names != [p.name for p in Path(root).iterdir()]:
        raise RuntimeError("environment: directory listing order is not stable")
    by = {e[1]: e for e in listing}
    if sorted(names) != sorted(by):
        raise RuntimeError(f"environment: listing {names!r} is not what was created {sorted(by)!r}")
    out = []
    for n in names:
        e = by[n]
        out.append(["d", n, observed_order(os.path.join(root, n), e[2])] if e[0] == "d" else e)
    return out


def coq_root(root: str) -> str:
    """components of the scanned path as PurePosixPath compares them (str(path).split('/'))"""
    return H.coq_list(H.coq_text(p) for p in str(Path(root) / "x").split("/")[:-1])


def coq_mt(r):
    return f"({H.z(r[0])}, {H.z(r[1])})"


def coq_fsn(ent) -> str:
    if ent[0] == "f":
        return f"(File {H.coq_text(ent[1])} {H.z(ent[2])} {coq_mt(mt_ratio(ent[3]))})"
    if ent[0] == "d":
        return f"(Dir {H.coq_text(ent[1])} {H.coq_list(coq_fsn(c) for c in ent[2])})"
    return f"(Other {H.coq_text(ent[1])})"


def count(listing, kind=None):
    n = 0
    for e in listing:
        if kind is None or e[0] == kind:
            n += 1
        if e[0] == "d":
            n += count(e[2], kind)
    return n


def depth(listing):
    return 0 if not listing else 1 + max((depth(e[2]) if e[0] == "d" else 0) for e in listing)


def folders(listing):
    yield listing
    for e in listing:
        if e[0] == "d":
            yield from folders(e[2])


# ---------------------------------------------------------------------------
# observation of the implementation (public attributes only)
# ---------------------------------------------------------------------------
def ratio(x):
    if x is None:
        return []
    if isinstance(x, float):
        a, b = x.as_integer_ratio()
        return [[a, b]]
    if isinstance(x, int):           # not what the class promises; shown as a distinct shape
        return [[x, 0]]
    raise TypeError(x)


def obs_entry(e):
    return [e.name, bool(e.is_dir), e.size, ratio(e.mdate)]


def obs_node(n):
    return [obs_entry(n.data), [obs_node(c) for c in n.children]]


def obs_tree(tree):
    return [obs_node(c) for c in tree.children]


def obs_jv(v):
    if v is None:
        return [3]
    if isinstance(v, bool):
        return [2, v]
    if isinstance(v, int):
        return [0, v]
    if isinstance(v, float):
        a, b = v.as_integer_ratio()
        return [1, a, b]
    if isinstance(v, str):
        return [4, v]
    raise TypeError(v)


def obs_dict(pairs):
    return [[k, obs_jv(v)] for k, v in pairs]


def coq_jv(v) -> str:
    if v is None:
        return "JNull"
    if isinstance(v, bool):
        return f"(JBool {H.coq_bool(v)})"
    if isinstance(v, int):
        return f"(JInt {H.z(v)})"
    if isinstance(v, float):
        a, b = v.as_integer_ratio()
        return f"(JFloat ({H.z(a)}, {H.z(b)}))"
    if isinstance(v, str):
        return f"(JStr {H.coq_text(v)})"
    raise TypeError(v)


def coq_dict(pairs) -> str:
    return H.coq_list(f"({H.coq_text(k)}, {coq_jv(v)})" for k, v in pairs)



# ---------------------------------------------------------------------------
# save options, changes of the folder after the scan, reading a saved file
# ---------------------------------------------------------------------------
#: custom maps that respect the side condition of save (short keys do not clash with the mapper's keys)
CUSTOM = {"key_map": {"n": "q", "m": "t", "data_id": "i"}, "value_map": {"d": [True]}}


def save_kwargs(sopts):
    """keyword arguments for save() and the caller-owned objects among them (handed in as ONE object for all calls)"""
    kw, owned = {}, {}
    for opt in ("key_map", "value_map"):
        v = sopts.get(opt, "default")
        if v == "default":
            continue
        if v == "custom":
            owned[opt] = json.loads(json.dumps(CUSTOM[opt]))
            kw[opt] = owned[opt]
        else:
            kw[opt] = bool(v)
    if sopts.get("meta"):
        owned["meta"] = {"note": "c19"}
        kw["meta"] = owned["meta"]
    return kw, owned


def read_saved(target, how):
    if how == "zip":
        import zipfile

        with zipfile.ZipFile(target) as zf:
            return zf.read(zf.namelist()[0]).decode("utf8")
    return Path(target).read_text(encoding="utf8")


def logical_nodes(nodes, meta):
    """the node entries with the announced key / value maps undone (an independent reading of the file format):
    identical to the raw entries when no map is announced"""
    inv = {v: k for k, v in (meta.get("$key_map") or [])}
    vm = {k: v for k, v in (meta.get("$value_map") or [])}
    out = []
    for p, d in nodes:
        pairs = []
        for k, v in d:
            lk = inv.get(k, k)
            if lk in vm and type(v) is int:
                v = vm[lk][v]
            pairs.append((lk, v))
        if inv:
            # renaming a key moves it to the end of the dict (`data[short] = data.pop(key)`); the order of the keys of a
            # JSON object carries no information, so with an announced key map the entry is read in the mapper's order
            order = {"n": 0, "d": 1, "s": 2, "m": 3}
            pairs.sort(key=lambda kv: order.get(kv[0], 9))
        out.append((p, pairs))
    return out


def disturb(root, listing, mode):
    """change the folder after it was scanned; returns the abstract value of the folder afterwards (None: gone)"""
    if mode == "none":
        return listing
    if mode == "remove":
        shutil.rmtree(root)
        return None

    def go(dirpath, lst):
        out = []
        for ent in lst:
            p = os.path.join(dirpath, ent[1])
            if ent[0] == "f":
                size = ent[2] + 3 if mode in ("rewrite", "mixed") else ent[2]
                mt = [ent[3][0] + 12345, ent[3][1]]
                if mode in ("rewrite", "mixed"):
                    with open(p, "wb") as fp:
                        fp.write(b"y" * size)
                ns = mt[0] * 1_000_000_000 + mt[1] * 125_000_000
                os.utime(p, ns=(ns, ns))
                out.append(["f", ent[1], size, mt])
            elif ent[0] == "d":
                out.append(["d", ent[1], go(p, ent[2])])
            else:
                out.append(ent)
        if mode == "mixed":                 # ... and a new file appears in every folder
            nm = "zz-new-c19"
            with open(os.path.join(dirpath, nm), "wb") as fp:
                fp.write(b"n")
            os.utime(os.path.join(dirpath, nm), ns=(10 ** 9, 10 ** 9))
            out.append(["f", nm, 1, [1, 0]])
        return out

    return go(root, listing)


def disturb2(root, listing, mode):
    """a second change of the folder, between the snapshot of the first tree and the second scan: every file grows /
    is touched / is renamed / is replaced by a new file of the same name / gets a hard link.  Returns the abstract
    value of the folder afterwards."""
    if mode == "none":
        return listing

    def stamp(p, mt):
        ns = mt[0] * 1_000_000_000 + mt[1] * 125_000_000
        os.utime(p, ns=(ns, ns))

    def go(dirpath, lst):
        names = {e[1] for e in lst}
        out = []
        for ent in lst:
            p = os.path.join(dirpath, ent[1])
            if ent[0] == "d":
                out.append(["d", ent[1], go(p, ent[2])])
            elif ent[0] != "f":
                out.append(ent)
            elif mode == "grow":
                with open(p, "ab") as fp:
                    fp.write(b"+" * 20)
                mt = [ent[3][0] + 777, ent[3][1]]
                stamp(p, mt)
                out.append(["f", ent[1], ent[2] + 20, mt])
            elif mode == "touch":
                mt = [ent[3][0] + 777, (ent[3][1] + 1) % 8]
                stamp(p, mt)
                out.append(["f", ent[1], ent[2], mt])
            elif mode == "replace":                      # another file under the same name
                os.unlink(p)
                with open(p, "wb") as fp:
                    fp.write(b"r" * (ent[2] + 1))
                mt = [ent[3][0] + 5, ent[3][1]]
                stamp(p, mt)
                out.append(["f", ent[1], ent[2] + 1, mt])
            elif mode in ("rename", "hardlink"):
                nn = ent[1] + (".r" if mode == "rename" else ".lnk")
                if nn in names or len(os.fsencode(nn)) > 250:
                    out.append(ent)
                    continue
                names.add(nn)
                if mode == "rename":
                    os.rename(p, os.path.join(dirpath, nn))
                    out.append(["f", nn, ent[2], ent[3]])
                else:
                    os.link(p, os.path.join(dirpath, nn))
                    out.append(ent)
                    out.append(["f", nn, ent[2], ent[3]])
            else:
                raise ValueError(mode)
        return out

    return go(root, listing)


def flat_obs(o, pre=""):
    """(path, is_dir, size, mtime) of an observed forest, for messages"""
    out = []
    for e, ch in o:
        out.append((pre + e[0], e[1], e[2], e[3][0] if e[3] else None))
        out.extend(flat_obs(ch, pre + e[0] + "/"))
    return out


def entry_ids(tree):
    return [id(n.data) for n in tree]


def save_to(tree, target, how, kw):
    if how == "stream":
        with open(target, "w", encoding="utf8") as fp:
            tree.save(fp, **kw)
    else:
        tree.save(target, **kw)
    return read_saved(target, how)


def expected_walk(dirpath, listing):
    """(name, is_dir, size, mtime ratio, sub) of the regular entries in os.scandir order, cross-checked against what
    the harness created."""
    by = {e[1]: e for e in listing}
    out = []
    with os.scandir(dirpath) as it:
        ents = list(it)
    if sorted(e.name for e in ents) != sorted(by):
        raise RuntimeError("environment: scandir does not show what was created")
    for de in ents:
        g = by[de.name]
        if de.is_dir():
            assert g[0] == "d"
            out.append((de.name, True, None, None, expected_walk(de.path, g[2])))
        elif de.is_file():
            assert g[0] == "f"
            st = de.stat()
            assert st.st_size == g[2] and st.st_mtime_ns == g[3][0] * 10 ** 9 + g[3][1] * 125_000_000
            out.append((de.name, False, g[2], tuple(mt_ratio(g[3])), None))
        else:
            assert g[0] == "o"
    return out


# ---------------------------------------------------------------------------
class Prop:
    id = "C19"
    coq_prop = "Properties/C19.v"
    case_module = "CaseC19"
    case_vo = "theories/Cases/CaseC19.vo"
    run_fn = "run19"
    shard = 200
    rule = ("real temporary directories built from generated abstract directory values: every ordered forest shape with <= N "
            "entries (N=4 quick, 6 thorough; inner nodes are folders, leaves files / empty folders / special files (FIFO, dangling "
            "symlink)) x sort on/off, plus seeded random directories up to 40 entries, depth up to 12, folders up to 16 entries; "
            "names drawn per folder from groups of sort-sensitive names (upper/lower case, digits, '_', umlauts, composed/decomposed "
            "accents, astral vs BMP code points, names that are not valid UTF-8, control characters, long common prefixes), sizes "
            "0..5000 bytes, mtimes in 1/8 s set by os.utime(ns=); each case = load_tree_from_fs (str or Path argument) + save to a "
            "real file (path / stream / zip / explicit mappers) + FileSystemTree.load; for sort=False the model receives the listing "
            "order observed with os.listdir, for sort=True the (shuffled) creation order; AFTER the scan and before the tree is first "
            "read the folder is changed (files rewritten / touched / new files / everything removed): the tree, the saved file and "
            "the re-loaded tree must be the folder AS SCANNED, a second scan the folder as it is then; save() is called with every "
            "explicit option value (key_map, value_map in {omitted, True, False, custom}, meta) twice with the same caller-owned "
            "objects (snapshotted), load() twice with one file_meta dict, the tree is read again afterwards; then the disk changes "
            "once more (every file grows / is touched / renamed / replaced by another file of the same name / hard-linked) and the "
            "folder is scanned a second time with the first tree still alive: the second tree must be the folder as it is then, the "
            "first tree and the file it saves must be identical to their snapshots, no entry object is shared; separate cases for the FileSystemEntry "
            "constructor and the two mappers on arbitrary arguments.  distinct = distinct (sort, directory value); "
            "non-trivial = some folder holds >= 2 entries (or a mapper case)")
    exhaustive_note = "all forest shapes <= N entries (N=4 quick) x every file/folder labelling of the leaves x sort on/off"
    assumptions = [
        "the OS, pathlib, json and zipfile are outside the model: Path.iterdir() returns each entry once in the order os.listdir shows "
        "(checked stable around every call), is_dir()/is_file()/stat() report what the harness created; symlinks to existing "
        "targets are not generated",
        "st_mtime floats are compared exactly through float.as_integer_ratio(); the harness only uses mtimes that are multiples "
        "of 1/8 s so that the float is the value it requested",
        "Python str order = lexicographic order of code points; sorted() is a stable sort that only uses < on the keys (modelled by an "
        "insertion sort); PurePosixPath order = list order of the components -- all three modelled, and exercised on every run "
        "(sorted(key=attrgetter('name')) on FileSystemEntry objects and sorted(key=itemgetter(0)) on (Path, tag) pairs with duplicate names)",
        "PARTIAL: the preservation of the node structure by save/load is the general C05 round trip; here it is a theorem only for the "
        "clone-free FileSystemEntry trees of this model, byte transport (json/zip) being trusted and exercised",
    ]
    trusted = ["C19 is partial: OS / pathlib / symlinks / special files other than 'skipped' are outside the model"]
    manifest = dict(
        text=("Machine-checked theorems (Coq 8.16, no axioms) about an executable model of all of nutree/fs.py: for every abstract directory "
              "(arbitrary nesting, arbitrary listing order, special files skipped) the loaded tree has exactly one node per file and folder "
              "at the same path with name, directory flag, size and mtime -- read back as a directory it IS the scanned directory up to the "
              "order of each listing; with sort=True every folder lists files sorted by name (code points) then folders sorted by name, the "
              "result does not depend on the listing order at any depth and is the unique canonical tree with these properties; with "
              "sort=False the listing order is kept; the function written with the loop structure of the source (files/dirs lists, Path "
              "sort key, recursion after sorting) equals the structural one; the FileSystemTree mappers are inverse on every entry the "
              "loader creates and save/load (to_list_iter / _from_list) returns the same tree; FileSystemEntry.__repr__ (calendar, "
              "thousands format, repr of the name) is modelled with its own theorems.  The model is tied to /repo on every run by a "
              "correspondence check on real temporary directories and an independent os.scandir / parse-back oracle."),
        note=("PARTIAL: the operating system, pathlib, symlinks and special files are outside the model (special files are modelled only as "
              "'skipped'); json/zip transport, the Unicode database (printability) and the time zone (TZ=UTC in the harness) are inputs or "
              "trusted. Trusted: Coq kernel + vm_compute; hand-written model theories/Forest/FsLoad.v, FsRepr.v; harness. "
              "Print Assumptions: closed under the global context for all theorems."),
        technique="Coq proof about an executable Gallina model + differential correspondence check (vm_compute) on real directories + Python oracle",
        design_ref="DESIGN.md section 6 (C19)",
    )

    # ----- generation --------------------------------------------------
    def _names(self, rng, k):
        """k distinct names for one folder, mostly from one confusable group."""
        g = list(rng.choice(NAME_GROUPS))
        rng.shuffle(g)
        out = g[:k]
        while len(out) < k:
            n = rng.choice(ALL_NAMES) + rng.choice(["", "", "1", "_", "\u00e4"])
            if n not in out:
                out.append(n)
        rng.shuffle(out)
        return out

    def _mt(self, rng):
        r = rng.random()
        if r < 0.15:
            return [rng.choice([0, 1, 2]), 0]
        if r < 0.6:
            return [rng.randrange(0, 2_000_000_000), 0]
        return [rng.randrange(0, 2_000_000_000), rng.randrange(8)]

    def _size(self, rng):
        return rng.choice([0, 0, 1, 2, 13, 999, 1000, 1024, rng.randrange(5000)])

    def _leaf(self, rng, name, label):
        if label == 0:
            return ["f", name, self._size(rng), self._mt(rng)]
        if label == 1:
            return ["d", name, []]
        return ["o", name, rng.choice(["fifo", "dangling"])]

    def _from_shape(self, rng, shape, labels):
        """shape: tuple of trees (H.forests); labels consumed in pre-order for the leaves."""
        names = self._names(rng, len(shape))
        out = []
        for t, n in zip(shape, names):
            if t:
                out.append(["d", n, self._from_shape(rng, t, labels)])
            else:
                out.append(self._leaf(rng, n, labels.pop(0) if labels else 0))
        return out

    def _random_dir(self, rng, budget, d):
        k = rng.randint(0, min(budget[0], rng.choice([2, 4, 7])))
        names = self._names(rng, k)
        out = []
        for n in names:
            if budget[0] <= 0:
                break
            budget[0] -= 1
            r = rng.random()
            if r < 0.5 or d >= 6:
                out.append(self._leaf(rng, n, 0))
            elif r < 0.93:
                out.append(["d", n, self._random_dir(rng, budget, d + 1)])
            else:
                out.append(self._leaf(rng, n, 2))
        return out

    def _variant(self, rng):
        """what happens to the folder after the scan, and the option values save() is called with"""
        opt = lambda: rng.choice(["default", "default", True, True, False, "custom", "custom"])  # noqa: E731
        so = dict(key_map=opt(), value_map=opt())
        if rng.random() < 0.2:
            so["meta"] = True
        return dict(after=rng.choice(["none", "none", "none", "rewrite", "rewrite", "touch", "mixed", "remove"]),
                    save_opts=so, rescan=rng.random() < 0.25,
                    after2=rng.choice(["none", "none", "none", "grow", "touch", "rename", "replace", "hardlink"]))

    def descs(self, tier, rng):
        yield from CORPUS
        nmax = 4 if tier == "quick" else 6
        per_shape = 99 if tier == "quick" else 6
        for n in range(0, nmax + 1):
            for shape in H.forests(n):
                nleaves = sum(1 for _ in _leaves(shape))
                labs = [[(m >> i) & 1 for i in range(nleaves)] for m in range(2 ** nleaves)]
                if len(labs) > per_shape:
                    labs = rng.sample(labs, per_shape)
                for lab in labs:
                    lab = [2 if (b == 0 and rng.random() < 0.06) else b for b in lab]
                    tree = self._from_shape(rng, shape, list(lab))
                    for sort in (True, False):
                        yield dict(kind="load", sort=sort, tree=tree, how=rng.choice(HOWS), **self._variant(rng))
        nrand = 220 if tier == "quick" else 2000
        for i in range(nrand):
            n = rng.choice([3, 5, 8, 12, 18, 25, 40])
            r = rng.random()
            if r < 0.2:      # one wide folder (stresses the sort), some entries nested
                shape = tuple((tuple(() for _ in range(rng.randint(0, 3))) if rng.random() < 0.2 else ()) for _ in range(min(n, 16)))
            elif r < 0.3:
                tree = self._random_dir(rng, [n], 1)
                yield dict(kind="load", sort=rng.random() < 0.6, tree=tree, how=rng.choice(HOWS), **self._variant(rng))
                continue
            else:
                shape = H.random_shape(rng, n, deep=rng.choice([0.15, 0.4, 0.7]))
            nl = sum(1 for _ in _leaves(shape))
            labels = [rng.choice([0, 0, 0, 0, 1, 1, 2]) if rng.random() < 0.9 else 0 for _ in range(nl)]
            tree = self._from_shape(rng, shape, labels)
            yield dict(kind="load", sort=rng.random() < 0.6, tree=tree, how=rng.choice(HOWS), **self._variant(rng))
        # FileSystemEntry constructor + mappers on arbitrary arguments
        nent = 120 if tier == "quick" else 1200
        for _ in range(nent):
            is_dir = rng.random() < 0.4
            size = None if rng.random() < (0.8 if is_dir else 0.15) else self._size(rng)
            r = rng.random()
            mdate = None if r < (0.7 if is_dir else 0.15) else (rng.randrange(0, 10 ** 9) if r < 0.5 else rng.randrange(0, 8 * 10 ** 9) / 8)
            data0 = rng.choice([[], [], [], [["data_id", 5]], [["d", 1]], [["x", "y"]], [["n", "old"], ["m", None]], [["s", 7], ["d", False]]])
            yield dict(kind="entry", name=rng.choice(ALL_NAMES), is_dir=is_dir, size=size, mdate=mdate, data0=data0)
        ndes = 80 if tier == "quick" else 600
        vals = [None, True, 0, 5, 2.5, 1e9, "t", "\u00e4"]
        for _ in range(ndes):
            keys = [k for k in ["n", "d", "s", "m", "x"] if rng.random() < 0.7]
            rng.shuffle(keys)
            data = [[k, ("nm" if (k == "n" and rng.random() < 0.85) else rng.choice(vals))] for k in keys]
            yield dict(kind="deser", data=data)
        yield from self._sort_descs(tier, rng)
        yield from self._repr_descs(tier, rng)

    def _repr_descs(self, tier, rng):
        special = ["it's", 'say "x"', "both'\"", "tab\there", "\x7f", "\x01\x1f", "\xa0", "\xad", "\u200b", "\U000e0001",
                   "\udcff", "\\", "new\nline", "\r", "", "caf\u00e9", "\u540d\u524d", "\U0001f600", "\u0378", "x" * 40]
        sizes = [0, 5, 999, 1000, 12345, 123456, 1234567, 10 ** 12, -1, -1234, 100, 1000000]
        n = 150 if tier == "quick" else 1500
        for i in range(n):
            r = rng.random()
            if r < 0.55:
                sec = rng.randrange(0, 2_000_000_000)
            elif r < 0.9:
                sec = rng.randrange(-62_135_596_800 + 3 * 86400, 253_402_300_800 - 3 * 86400)
            elif r < 0.95:
                sec = rng.choice([951_782_400 + rng.randrange(-86400, 86400), -2_203_891_200 + rng.randrange(-86400, 86400),
                                  4_107_542_400 + rng.randrange(-86400, 86400), 68_169_600 + rng.randrange(-86400, 86400)])
            else:
                sec = rng.choice([300_000_000_000, -70_000_000_000, 253_402_300_800 + 10 * 86400, -62_135_596_800 - 10 * 86400])
            is_dir = rng.random() < 0.2
            yield dict(kind="repr", name=rng.choice(special + ALL_NAMES), is_dir=is_dir,
                       size=None if is_dir else rng.choice(sizes + [rng.randrange(10 ** rng.randint(1, 9))]),
                       mdate=None if (is_dir or rng.random() < 0.05) else [sec, rng.randrange(8) if rng.random() < 0.5 else 0])

    def _sort_descs(self, tier, rng):
        n = 60 if tier == "quick" else 500
        for i in range(n):
            g = list(rng.choice(NAME_GROUPS)) + [rng.choice(ALL_NAMES) for _ in range(rng.randint(0, 4))]
            k = rng.randint(0, 12)
            names = [rng.choice(g) for _ in range(k)]          # duplicates on purpose: stability
            items = [[nm, j] for j, nm in enumerate(names)]
            if i % 3 == 2:
                # a case-folding flavour: ASCII names only (str.lower() of other letters needs the Unicode database)
                pool = ["B", "a", "A", "b", "Z", "z", "_x", "X_", "10", "9", "aB", "Ab", "ab", "a.T", "a.t", "[", "^", "`", "{"]
                names = [rng.choice(pool) for _ in range(k)]
                yield dict(kind="pathsort_win", parent=rng.choice(["C:/Tmp/X", "C:/", "rel/Dir", "//srv/share/d"]),
                           items=[[nm, j] for j, nm in enumerate(names)])
            elif i % 3 == 1:
                yield dict(kind="sort", items=items)
            else:
                yield dict(kind="pathsort", parent=rng.choice(["/tmp/x", "/", "rel/dir", "/a/B/\u00e4"]), items=items)

    def shrink_candidates(self, desc):
        if desc.get("kind") != "load":
            return

        def drops(listing):
            for i, e in enumerate(listing):
                yield listing[:i] + listing[i + 1:]
            for i, e in enumerate(listing):
                if e[0] == "d":
                    for sub in drops(e[2]):
                        yield listing[:i] + [["d", e[1], sub]] + listing[i + 1:]
            for i, e in enumerate(listing):
                if e[0] == "f" and (e[2] != 0 or e[3] != [0, 0]):
                    yield listing[:i] + [["f", e[1], 0, [0, 0]]] + listing[i + 1:]

        for t in drops(desc["tree"]):
            yield dict(desc, tree=t)
        if desc.get("how", "path") != "path":
            yield dict(desc, how="path")
        so = desc.get("save_opts") or {}
        for k in ("meta", "value_map", "key_map"):
            if so.get(k, "default") != "default":
                yield dict(desc, save_opts={kk: vv for kk, vv in so.items() if kk != k})
        if desc.get("after", "none") != "none":
            yield dict(desc, after="none")
        if desc.get("after2", "none") not in ("none", "grow"):
            yield dict(desc, after2="grow")

    # ----- one case ----------------------------------------------------
    def run(self, desc) -> Case:
        k = desc.get("kind", "load")
        if k == "load":
            return self.run_load(desc)
        if k == "entry":
            return self.run_entry(desc)
        if k in ("sort", "pathsort", "pathsort_win"):
            return self.run_sort(desc)
        if k == "repr":
            return self.run_repr(desc)
        return self.run_deser(desc)

    def run_repr(self, desc) -> Case:
        """FileSystemEntry.__repr__ (= node.name) against the model; oracle = parsing the text back."""
        import ast
        import calendar

        name, is_dir, size, mdate = desc["name"], desc["is_dir"], desc["size"], desc["mdate"]
        mval = None if mdate is None else mdate[0] + mdate[1] / 8
        e = FileSystemEntry(name, is_dir=is_dir, size=size, mdate=mval)
        try:
            txt = repr(e)
        except (AssertionError, ValueError, OverflowError, OSError):
            txt = None
        fail = None
        if txt is not None:
            t = FileSystemTree("t")
            if t.add(e).name != txt:
                fail = "repr: node.name differs from repr(node.data)"
        if fail:
            pass
        elif is_dir:
            if txt != "[" + name + "]":
                fail = f"repr: folder {name!r} shown as {txt!r}"
        elif mdate is None:
            if txt is not None:
                fail = "repr: a file without mdate has a repr"
        else:
            whole = mdate[0]                       # floor of the timestamp (eighths are >= 0)
            in_range = -62_135_596_800 <= whole < 253_402_300_800
            if txt is None:
                if in_range:
                    fail = f"repr: raises for the representable time {whole}"
            else:
                m = re.match(r"^(?P<name>.*), (?P<size>-?\d{1,3}(?:,\d{3})*) bytes, (?P<dt>\d{4}-\d\d-\d\d \d\d:\d\d:\d\d)$", txt, re.S)
                if not m:
                    fail = f"repr: {txt!r} does not have the shape <name>, <size> bytes, <date>"
                elif ast.literal_eval(m.group("name")) != name:
                    fail = f"repr: the quoted name {m.group('name')!r} does not evaluate to {name!r}"
                elif int(m.group("size").replace(",", "")) != size:
                    fail = f"repr: size {m.group('size')!r} is not {size}"
                else:
                    y, mo, d = (int(x) for x in m.group("dt")[:10].split("-"))
                    hh, mi, ss = (int(x) for x in m.group("dt")[11:].split(":"))
                    if calendar.timegm((y, mo, d, hh, mi, ss, 0, 0, 0)) != whole or not in_range:
                        fail = f"repr: date {m.group('dt')!r} is not second {whole}"
        printable = sorted({ord(c) for c in name if ord(c) > 127 and c.isprintable()})
        mr = None if mval is None else list(float(mval).as_integer_ratio())
        coq = (f"(CRepr {H.coq_list(H.z(c) for c in printable)} {H.coq_text(name)} {H.coq_bool(is_dir)} "
               f"{H.coq_opt(size, H.z)} {H.coq_opt(mr, coq_mt)})")
        return Case(desc=desc, coq_input=coq, impl_obs=[] if txt is None else [txt], oracle_fail=fail, nontrivial=True,
                    key=H.digest(desc), stats=dict(kind="repr", is_dir=is_dir, has_text=txt is not None,
                                                   ascii=all(ord(c) < 128 for c in name)))

    def run_sort(self, desc) -> Case:
        """CPython's sorted() with the two key functions of fs.py against the model's stable insertion sort."""
        from operator import attrgetter, itemgetter
        from pathlib import PurePosixPath

        items = desc["items"]
        # names containing "/" cannot be path components; the generator has none
        if desc["kind"] == "sort":
            objs = [FileSystemEntry(nm, size=tag, mdate=0) for nm, tag in items]
            res = [[o.name, o.size] for o in sorted(objs, key=attrgetter("name"))]
            coq = f"(CSort {H.coq_list(f'({H.coq_text(nm)}, {H.z(tag)})' for nm, tag in items)})"
        elif desc["kind"] == "pathsort_win":
            from pathlib import PureWindowsPath

            parent = PureWindowsPath(desc["parent"])
            pairs = [(parent / nm, tag) for nm, tag in items]
            res = [[c.name, tag] for c, tag in sorted(pairs, key=itemgetter(0))]
            comps = str(parent / "x").split("\\")[:-1]
            coq = (f"(CPathSortW {H.coq_list(H.coq_text(c) for c in comps)} "
                   f"{H.coq_list(f'({H.coq_text(nm)}, {H.z(tag)})' for nm, tag in items)})")
        else:
            parent = PurePosixPath(desc["parent"])
            pairs = [(parent / nm, tag) for nm, tag in items]
            res = [[c.name, tag] for c, tag in sorted(pairs, key=itemgetter(0))]
            comps = str(parent / "x").split("/")[:-1]     # the components every child path starts with
            coq = (f"(CPathSort {H.coq_list(H.coq_text(c) for c in comps)} "
                   f"{H.coq_list(f'({H.coq_text(nm)}, {H.z(tag)})' for nm, tag in items)})")
        fail = None
        if sorted(map(tuple, res), key=lambda x: x[1]) != [tuple(x) for x in items]:
            fail = f"sort: not a permutation: {res!r}"
        elif desc["kind"] == "pathsort_win":
            # statement for the case-folding flavour: ordered by the ASCII-lower-cased name, stable
            low = lambda t: [c + 32 if 65 <= c <= 90 else c for c in cps(t)]  # noqa: E731
            if any(low(a[0]) > low(b[0]) or (low(a[0]) == low(b[0]) and a[1] > b[1]) for a, b in zip(res, res[1:])):
                fail = f"sort: PureWindowsPath order is not the order of the lower-cased names: {res!r}"
        elif any(cps(a[0]) > cps(b[0]) or (a[0] == b[0] and a[1] > b[1]) for a, b in zip(res, res[1:])):
            fail = f"sort: not sorted by code points / not stable: {res!r}"
        return Case(desc=desc, coq_input=coq, impl_obs=res, oracle_fail=fail, nontrivial=len(items) >= 2,
                    key=H.digest(desc), stats=dict(kind=desc["kind"], n=len(items), dup=len({n for n, _ in items}) < len(items)))

    def run_load(self, desc) -> Case:
        """scan -> (the folder changes: files rewritten / touched / everything removed) -> observe the tree -> save with the
        requested option values (twice, with the SAME caller-owned option objects) -> load (twice, one file_meta dict) ->
        observe the tree again -> scan the changed folder again."""
        sort = bool(desc["sort"])
        how = desc.get("how", "path")
        after = desc.get("after", "none")
        sopts = desc.get("save_opts") or {}
        base = tempfile.mkdtemp(prefix="c19_")
        try:
            root = os.path.join(base, "root")
            os.mkdir(root)
            build_dir(root, desc["tree"])
            seen = observed_order(root, desc["tree"])
            exp = expected_walk(root, desc["tree"])          # the directory AS SCANNED (before anything changes)
            arg = root
            cwd = os.getcwd()
            try:
                if how == "pathobj":
                    arg = Path(root)
                elif how == "relative":          # a relative path with a trailing slash
                    os.chdir(base)
                    arg = "root/"
                if how == "default" and sort:    # the documented default is sort=True
                    tree = load_tree_from_fs(arg)
                else:
                    tree = load_tree_from_fs(arg, sort=sort)
            except Exception as e:  # noqa: BLE001  -- the scan of a readable directory must not raise
                tree = None
                load_err = f"{type(e).__name__}: {e}"
            finally:
                os.chdir(cwd)
            if observed_order(root, desc["tree"]) != seen:
                raise RuntimeError("environment: listing order changed during the scan")
            model_listing = desc["tree"] if sort else seen
            coq = f"(CLoad {H.coq_bool(sort)} {coq_root(arg)} {H.coq_list(coq_fsn(e) for e in model_listing)})"
            if tree is None:
                return Case(desc=desc, coq_input=coq, impl_obs=[-1], oracle_fail="load-raises: " + load_err, nontrivial=True,
                            key=H.digest([sort, desc["tree"], after, sopts]), stats=dict(kind="load", sort=sort, raised=True))

            # the folder changes AFTER the scan returned and BEFORE the tree is looked at for the first time
            tree_after = disturb(root, desc["tree"], after)

            obs_err = None
            try:
                o_tree = obs_tree(tree)
            except Exception as e:  # noqa: BLE001
                o_tree = [-1]
                obs_err = f"{type(e).__name__}: {e}"

            # save to a real file OUTSIDE the scanned folder, read the raw node list, load it back
            target = os.path.join(base, "saved.json")
            target2 = os.path.join(base, "saved2.json")
            err = None
            o_nodes, o_back = [], []
            meta, tree2, extra = {}, None, None
            kw, owned = save_kwargs(sopts)
            snap = json.dumps(owned, sort_keys=True, default=str)
            try:
                if how == "explicit":
                    kw["mapper"] = tree.serialize_mapper
                elif how == "zip":
                    kw["compression"] = True
                if how == "stream":
                    with open(target, "w", encoding="utf8") as fp:
                        tree.save(fp, **kw)
                    with open(target2, "w", encoding="utf8") as fp:
                        tree.save(fp, **kw)
                else:
                    tree.save(target, **kw)
                    tree.save(target2, **kw)              # again, with the same option objects
                raw, raw2 = read_saved(target, how), read_saved(target2, how)
                doc = dict(json.loads(raw, object_pairs_hook=lambda ps: ps))
                meta = dict(doc["meta"])
                o_nodes = [[p, obs_dict(d)] for p, d in logical_nodes(doc["nodes"], meta)]
                file_meta: dict = {}
                lkw = dict(file_meta=file_meta)
                if how == "explicit":
                    lkw["mapper"] = tree.deserialize_mapper
                if how == "stream":
                    with open(target, encoding="utf8") as fp:
                        tree2 = FileSystemTree.load(fp, **lkw)
                    with open(target2, encoding="utf8") as fp:
                        tree2b = FileSystemTree.load(fp, **lkw)
                else:
                    tree2 = FileSystemTree.load(target, **lkw)
                    tree2b = FileSystemTree.load(target2, **lkw)   # the same file_meta dict again
                o_back = [obs_tree(tree2)]
                if raw2 != raw:
                    extra = "save-twice: the second save() with the same arguments wrote a different file"
                elif obs_tree(tree2b) != o_back[0]:
                    extra = "load-twice: the second load() (same file_meta dict) built a different tree"
                elif json.dumps(owned, sort_keys=True, default=str) != snap:
                    extra = f"caller-args: save() changed the caller's option objects: {owned!r}"
                elif obs_err is None and obs_tree(tree) != o_tree:
                    extra = "tree-changed: the scanned tree reads differently after save/load"
            except Exception as e:  # noqa: BLE001
                err = f"{type(e).__name__}: {e}"
                tree2 = None
            obs = [o_tree, o_nodes, o_back]
            fail = ("observe-raises: reading the scanned tree " + obs_err) if obs_err else None
            fail = fail or self.oracle_load(desc, exp, tree, tree2, meta, err, sort, sopts)
            fail = fail or extra
            nm = str(tree.name)
            if not fail and nm != str(Path(arg)):
                fail = f"tree-name: {nm!r} is not the scanned path"
            # scan_1 is done, tree_1 has been read and saved (snapshot: o_tree, raw).  The disk changes once more, the folder
            # is scanned again: the second tree shows the folder as it is NOW, the first tree and what it saves stay
            # what they were, and the two trees do not share entry objects
            after2 = desc.get("after2", "none")
            if not fail and tree_after is not None and (after != "none" or after2 != "none" or desc.get("rescan")):
                try:
                    tree_now = disturb2(root, tree_after, after2)
                    tree3 = load_tree_from_fs(root, sort=sort)
                    fail = self.check_tree(tree3, expected_walk(root, tree_now), sort)
                    if fail:
                        fail = "rescan: " + fail
                    if not fail:
                        o_again = obs_tree(tree)
                        if o_again != o_tree:
                            fail = (f"first-tree-changed: scanning the folder again changed the tree of the first scan: it was "
                                    f"{flat_obs(o_tree)!r}, it is {flat_obs(o_again)!r}")
                    if not fail and err is None:
                        raw3 = save_to(tree, os.path.join(base, "saved3.json"), how, kw)
                        if raw3 != raw:
                            fail = "first-tree-changed: after the second scan the first tree saves a different file"
                    ids1, ids3 = entry_ids(tree), entry_ids(tree3)
                    if not fail and (len(set(ids3)) != len(ids3) or set(ids1) & set(ids3)):
                        fail = "rescan-shares-entries: nodes of two scans (or two nodes of one scan) carry the same entry object"
                    if not fail:       # ... and once more with the second tree gone
                        del tree3
                        if obs_tree(tree) != o_tree:
                            fail = "first-tree-changed: the first tree changed when the second tree was dropped"
                except Exception as e:  # noqa: BLE001
                    fail = f"rescan-raises: {type(e).__name__}: {e}"
        finally:
            shutil.rmtree(base, ignore_errors=True)
        fsz = [len(f) for f in folders(desc["tree"])]
        mixed = any(len({e[0] for e in f if e[0] != "o"}) == 2 for f in folders(desc["tree"]))
        return Case(desc=desc, coq_input=coq, impl_obs=obs, oracle_fail=fail,
                    nontrivial=max(fsz) >= 2, key=H.digest([sort, desc["tree"], after, sopts, desc.get("after2", "none")]),
                    stats=dict(kind="load", sort=sort, after2=desc.get("after2", "none"), entries=min(count(desc["tree"]), 41) // 5 * 5, depth=depth(desc["tree"]),
                               max_folder=min(max(fsz), 8), special=count(desc["tree"], "o") > 0,
                               mixed_folder=mixed, how=how, after=after,
                               key_map=str(sopts.get("key_map", "default")), value_map=str(sopts.get("value_map", "default"))))

    # the property statement, executed on the real directory and the real trees
    def check_tree(self, tree, exp, sort):
        """one node per regular entry of every folder, with its name / flag / size / mtime, in the required order"""
        def check(nodes, exp, where):
            # one node per regular entry of this folder
            got = []
            for n in nodes:
                e = n.data
                if type(e) is not FileSystemEntry:
                    return f"node-data: {where}: {type(e).__name__} is not a FileSystemEntry"
                if type(e.name) is not str or type(e.is_dir) is not bool or type(e.size) is not int:
                    return f"entry-types: {where}/{e.name!r}: name/is_dir/size have types {type(e.name).__name__}/{type(e.is_dir).__name__}/{type(e.size).__name__}"
                if e.is_dir:
                    if e.size != 0 or e.mdate is not None:
                        return f"dir-entry: {where}/{e.name!r}: a folder carries size {e.size!r} mdate {e.mdate!r}"
                    got.append((e.name, True, None, None))
                else:
                    if type(e.mdate) is not float:
                        return f"entry-types: {where}/{e.name!r}: mdate is {type(e.mdate).__name__}"
                    got.append((e.name, False, e.size, e.mdate.as_integer_ratio()))
                    if n.children:
                        return f"file-with-children: {where}/{e.name!r}"
            want = [x[:4] for x in exp]
            if sorted(got, key=lambda x: (cps(x[0]), x[1], x[2] or 0, x[3] or (0, 0))) != \
                    sorted(want, key=lambda x: (cps(x[0]), x[1], x[2] or 0, x[3] or (0, 0))):
                return f"mirror: folder {where!r}: nodes {got!r} but the directory holds {want!r}"
            if sort:
                flags = [g[1] for g in got]
                if flags != sorted(flags):
                    return f"files-first: folder {where!r}: directory flags in child order are {flags}"
                for grp in (False, True):
                    ns = [cps(g[0]) for g in got if g[1] == grp]
                    if any(not (a < b) for a, b in zip(ns, ns[1:])):
                        return f"name-order: folder {where!r}: {'folders' if grp else 'files'} are listed as {[g[0] for g in got if g[1] == grp]!r}"
            else:
                if got != want:
                    return f"listing-order: folder {where!r}: sort=False gives {[g[0] for g in got]!r}, the listing is {[w[0] for w in want]!r}"
            sub = {x[0]: x[4] for x in exp if x[1]}
            for n in nodes:
                if n.data.is_dir:
                    r = check(n.children, sub[n.data.name], where + "/" + n.data.name)
                    if r:
                        return r
            return None

        return check(tree.children, exp, "")

    def oracle_load(self, desc, exp, tree, tree2, meta, err, sort, sopts):
        r = self.check_tree(tree, exp, sort)
        if r:
            return r
        nreg = count(desc["tree"], "f") + count(desc["tree"], "d")
        if len(tree) != nreg:
            return f"count: len(tree)={len(tree)} for {nreg} files and folders"
        if err:
            return f"save-load-raises: {err}"
        # the header announces exactly the maps that were asked for: none for default / True / False (the class default
        # of a FileSystemTree is "no map": the mapper's own keys 'n' 's' 'm' 'd' must not be renamed on load)
        for opt, hk in (("key_map", "$key_map"), ("value_map", "$value_map")):
            want = sopts.get(opt, "default")
            want = CUSTOM[opt] if want == "custom" else None
            got = meta.get(hk)
            got = None if got is None else json.loads(json.dumps(dict(got) if opt == "key_map" else {k: v for k, v in got}))
            if got != want:
                return f"save-meta: save({opt}={sopts.get(opt, 'default')!r}) announces {hk}={got!r}, expected {want!r}"

        def same(a, b, where):
            if len(a) != len(b):
                return f"save-load: folder {where!r}: {len(a)} nodes saved, {len(b)} loaded"
            for x, y in zip(a, b):
                e, f = x.data, y.data
                if type(f) is not FileSystemEntry:
                    return f"save-load: {where}/{e.name!r} came back as {type(f).__name__}"
                te = (e.name, e.is_dir, e.size, type(e.size), None if e.mdate is None else e.mdate.as_integer_ratio(), type(e.mdate))
                tf = (f.name, f.is_dir, f.size, type(f.size), None if f.mdate is None else float(f.mdate).as_integer_ratio(), type(f.mdate))
                if te != tf:
                    return f"save-load: {where}/{e.name!r}: saved {te!r} loaded {tf!r}"
                r = same(x.children, y.children, where + "/" + e.name)
                if r:
                    return r
            return None

        return same(tree.children, tree2.children, "")

    def run_entry(self, desc) -> Case:
        name, is_dir, size, mdate, data0 = desc["name"], desc["is_dir"], desc["size"], desc["mdate"], desc["data0"]
        fail = None
        try:
            e = FileSystemEntry(name, is_dir=is_dir, size=size, mdate=mdate)
        except AssertionError:
            e = None
        if e is None:
            obs = []
            if (is_dir and size is None) or (not is_dir and size is not None):
                fail = "entry-ctor: refused valid arguments"
        else:
            t = FileSystemTree("t")
            node = t.add(e)
            d = FileSystemTree.serialize_mapper(node, dict((k, v) for k, v in data0))
            d = json.loads(json.dumps(d), object_pairs_hook=lambda ps: ps)
            try:
                back = FileSystemTree.deserialize_mapper(None, dict(d))
            except Exception:  # noqa: BLE001
                back = None
            obs = [obs_entry(e), obs_dict(d), [] if back is None else [obs_entry(back)]]
            if (is_dir and size is not None) or (not is_dir and size is None):
                fail = "entry-ctor: accepted is_dir with a size / a file without size"
            # the property: the mappers are inverse on every entry the loader can create
            loader_form = (e.is_dir and e.mdate is None) or (not e.is_dir and e.mdate is not None)
            if not fail and loader_form and not any(k == "d" for k, _ in data0):
                if back is None or obs_entry(back) != obs_entry(e) or type(back.size) is not int:
                    fail = f"mapper-inverse: {obs_entry(e)!r} -> {d!r} -> {None if back is None else obs_entry(back)!r}"
        mr = None if mdate is None else list(float(mdate).as_integer_ratio())
        coq = (f"(CEntry {H.coq_text(name)} {H.coq_bool(is_dir)} {H.coq_opt(size, H.z)} "
               f"{H.coq_opt(mr, coq_mt)} {coq_dict(data0)})")
        return Case(desc=desc, coq_input=coq, impl_obs=obs, oracle_fail=fail, nontrivial=True, key=H.digest(desc),
                    stats=dict(kind="entry", accepted=e is not None, is_dir=is_dir))

    def run_deser(self, desc) -> Case:
        data = desc["data"]
        try:
            back = FileSystemTree.deserialize_mapper(None, dict((k, v) for k, v in data))
            obs = [obs_entry(back)]
        except (KeyError, AssertionError, TypeError, ValueError):
            back = None
            obs = []
        fail = None
        d = dict((k, v) for k, v in data)
        # statement: a dict with a key "d" is a folder named d["n"]; any other dict must hold "n", a size "s" and an
        # mtime "m" (None allowed) and is that file; anything else is refused
        def num(v):
            return isinstance(v, (int, float)) and not isinstance(v, str)
        if "d" in d:
            want = [d["n"], True, 0, []] if "n" in d else None
        elif all(k in d for k in ("n", "s", "m")) and num(d["s"]) and (d["m"] is None or num(d["m"])):
            want = [d["n"], False, int(d["s"]), ratio(None if d["m"] is None else float(d["m"]))]
        else:
            want = None
        got = None if back is None else obs_entry(back)
        if got != want:
            fail = f"deser: {data!r} gives {got!r}, expected {want!r}"
        if back is not None and not isinstance(back.name, str):
            # names that are not str are outside the model: keep the case out of the comparison by making it trivial
            obs = []
        return Case(desc=desc, coq_input=f"(CDeser {coq_dict(data)})", impl_obs=obs, oracle_fail=fail, nontrivial=True,
                    key=H.digest(desc), stats=dict(kind="deser", accepted=back is not None))


def _leaves(shape):
    for t in shape:
        if t:
            yield from _leaves(t)
        else:
            yield t


HOWS = ["path", "default", "pathobj", "relative", "explicit", "stream", "zip"]

CORPUS = [
    # the names of the task statement: upper/lower case, '_', umlaut, "10" vs "9", files and folders mixed
    dict(kind="load", sort=True, how="path", tree=[
        ["d", "a", [["f", "10", 3, [1000, 0]], ["f", "9", 0, [5, 4]], ["d", "B", []], ["f", "_x", 1, [7, 1]]]],
        ["f", "\u00e4", 13, [1_600_000_000, 0]], ["f", "B", 2, [2, 0]], ["d", "_x", [["d", "y", [["f", "z", 9, [3, 0]]]]]],
        ["f", "b", 1, [1, 0]], ["d", "10", []], ["d", "9", []], ["f", "A", 0, [0, 0]]]),
    dict(kind="load", sort=False, how="explicit", tree=[
        ["f", "\u00e4", 13, [1_600_000_000, 0]], ["d", "a", [["f", "10", 3, [1000, 0]], ["f", "9", 0, [5, 4]]]],
        ["f", "B", 2, [2, 0]], ["d", "10", []], ["d", "9", [["d", "e", []]]]]),
    # empty root; a folder with only special files
    dict(kind="load", sort=True, how="path", tree=[]),
    dict(kind="load", sort=True, how="path", tree=[["o", "p", "fifo"], ["d", "d", [["o", "l", "dangling"]]], ["f", "f", 0, [0, 0]]]),
    # the folder changes after the scan and before the tree is read / saved: the tree is the folder AS SCANNED
    dict(kind="load", sort=True, how="path", after="rewrite", tree=[["f", "a.txt", 5, [1_000_000_000, 0]], ["d", "d", [["f", "b", 0, [1, 4]]]]]),
    dict(kind="load", sort=False, how="stream", after="touch", tree=[["f", "a.txt", 5, [1_000_000_000, 0]], ["f", "b", 2, [7, 0]]]),
    dict(kind="load", sort=True, how="zip", after="remove", tree=[["f", "a.txt", 5, [1_000_000_000, 0]], ["d", "d", [["f", "b", 0, [1, 4]]]]]),
    dict(kind="load", sort=True, how="path", after="mixed", rescan=True, tree=[["d", "d", [["f", "b", 1, [1, 0]]]], ["f", "c", 0, [0, 0]]]),
    # two scans of one folder with a change in between: the first tree and what it saves stay what they were
    dict(kind="load", sort=True, how="path", after2="grow", tree=[["d", "logs", [["f", "app.log", 8, [1_600_000_100, 4]], ["f", "old.log", 10, [1_600_000_200, 6]]]], ["f", "x", 1, [1, 0]]]),
    dict(kind="load", sort=False, how="stream", after2="rename", tree=[["d", "logs", [["f", "app.log", 8, [1_600_000_100, 4]]]], ["f", "x", 1, [1, 0]]]),
    dict(kind="load", sort=True, how="zip", after2="touch", tree=[["f", "a", 0, [0, 0]]]),
    dict(kind="load", sort=True, how="path", after2="replace", tree=[["f", "a", 3, [9, 0]], ["d", "d", [["f", "a", 3, [9, 0]]]]]),
    dict(kind="load", sort=True, how="explicit", after2="hardlink", tree=[["f", "a", 3, [9, 0]], ["d", "d", [["f", "b", 0, [1, 1]]]]]),
    dict(kind="load", sort=True, how="path", after="rewrite", after2="grow", save_opts=dict(key_map="custom"), tree=[["f", "a", 3, [9, 0]]]),
    # every explicit value of the save options
    dict(kind="load", sort=True, how="path", save_opts=dict(key_map=True), tree=[["f", "a", 1, [1, 0]], ["d", "d", []]]),
    dict(kind="load", sort=True, how="path", save_opts=dict(key_map=True, value_map=True, meta=True), tree=[["f", "a", 1, [1, 0]]]),
    dict(kind="load", sort=True, how="stream", save_opts=dict(key_map=False, value_map=False), tree=[["f", "a", 1, [1, 0]], ["d", "d", []]]),
    dict(kind="load", sort=False, how="zip", save_opts=dict(key_map="custom", value_map="custom"), tree=[["f", "a", 1, [1, 0]], ["d", "d", [["f", "s", 0, [0, 0]]]]]),
    dict(kind="load", sort=True, how="explicit", save_opts=dict(key_map="custom", value_map=True), tree=[["d", "d", []], ["f", "m", 3, [2, 1]]]),
    # code point order vs UTF-16 order
    dict(kind="load", sort=True, how="zip", tree=[["f", "a\U00010000", 1, [1, 0]], ["f", "a\uffff", 1, [1, 0]],
                                                  ["d", "a\U00010000d", []], ["d", "a\uffffd", []]]),
]

PROP = Prop()
