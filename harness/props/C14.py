"""C14 — the nested list-of-dicts form round-trips and mirrors the tree."""
from __future__ import annotations

import copy
import dataclasses
import itertools
import json

import build as B
import common as H
from common import Case, Tree
from nutree.common import DictWrapper


@dataclasses.dataclass
class MutDC:
    """non-frozen dataclass with eq: unhashable (__hash__ is None)"""
    v: int

    def __str__(self):
        return f"MutDC{self.v}"


def make_obj14(spec: str):
    """build.make_obj + unhashable data objects: u:<v> a plain dict, m:<v> a non-frozen dataclass"""
    k, _, v = spec.partition(":")
    if k == "u":
        return {"v": int(v)}
    if k == "m":
        return MutDC(int(v))
    return B.make_obj(spec)


# ---------------------------------------------------------------------------
# Trees that are instances of SUBCLASSES of Tree / TypedTree overriding the class-level hooks (serialize_mapper and
# deserialize_mapper – documented as the defaults of save()/load() only –, the key/value maps, DEFAULT_CHILD_TYPE,
# calc_data_id).  to_dict_list / to_dict / from_dict called WITHOUT an explicit mapper must behave exactly as for the
# base class (the model is unchanged) and must never call the mapper hooks.
# ---------------------------------------------------------------------------
HOOK_CALLS = [0]


class _HookMixin:
    DEFAULT_KEY_MAP = {"data_id": "I", "str": "S", "label": "L"}
    DEFAULT_VALUE_MAP = {"L": ["a", "b"]}

    @classmethod
    def serialize_mapper(cls, node, data):
        HOOK_CALLS[0] += 1
        return {"label": f"{node.data}", "key": node.data_id}

    @classmethod
    def deserialize_mapper(cls, parent, data):
        HOOK_CALLS[0] += 1
        data["data_id"] = data.get("key")
        return data.get("label")


class HookTree(_HookMixin, Tree):
    pass


class HookCalcTree(_HookMixin, Tree):
    def calc_data_id(self, data):          # overridden method instead of the calc_data_id= hook
        return f"id:{data}"


class HookTypedTree(_HookMixin, H.TypedTree):
    DEFAULT_CHILD_TYPE = "kid"


SUBCLASSES = {"hook": HookTree, "hookcalc": HookCalcTree, "hooktyped": HookTypedTree}


def build14(desc):
    U = H.Universe([make_obj14(s) for s in desc["univ"]])
    if desc.get("subclass"):
        t = SUBCLASSES[desc["subclass"]]("T", calc_data_id=B.calc_fn(desc.get("calc")))
    else:
        t = B.new_tree(desc)
    B.add_nodes(t._root, desc["nodes"], U, bool(desc.get("typed")))
    snapshot_universe(U)
    return t, U


def snapshot_obj(o):
    """a deep copy of what a caller-owned data object holds (the library must never change it)"""
    if isinstance(o, DictWrapper):
        return ("w", copy.deepcopy(o._dict))
    if isinstance(o, dict):
        return ("u", copy.deepcopy(o))
    if isinstance(o, MutDC):
        return ("m", dataclasses.asdict(o))
    return ("r", repr(o))


def snapshot_universe(U):
    U.snap = [snapshot_obj(o) for o in U.objs]


def changed_objects(U):
    """indices of the caller's data objects that no longer hold what they held when the tree was built"""
    return [i for i, sn in enumerate(getattr(U, "snap", [])) if snapshot_obj(U.objs[i]) != sn]


def safe_hash(o) -> int:
    """hash(o), or -1 (never a value of hash()) when o is unhashable"""
    try:
        return hash(o)
    except TypeError:
        return -1


def info14(obj, U):
    i = U.index(obj)
    return dict(obj=i, eqc=U.eqc[i], hash=safe_hash(obj), isstr=isinstance(obj, str), name=f"{obj}")


def coq_info14(node, U) -> str:
    a = info14(node._data, U)
    kind = getattr(node, "kind", None)
    return (f"(I {H.z(a['obj'])} {H.z(a['eqc'])} {H.z(a['hash'])} {H.coq_bool(a['isstr'])} "
            f"{H.coq_text(a['name'])} {H.coq_did(node._data_id)} {H.coq_opt(kind, H.coq_text)} {H.coq_meta(node._meta)})")


def coq_rt14(node, U) -> str:
    return f"(Tz {H.nid(node)} {coq_info14(node, U)} {H.coq_list(coq_rt14(c, U) for c in (node._children or []))})"


def coq_forest14(root, U) -> str:
    return H.coq_list(coq_rt14(c, U) for c in (root._children or []))


def is_custom(n) -> bool:
    """the node's data_id is not the default hash(data) (unhashable data has no default)"""
    try:
        return n._data_id != hash(n._data)
    except TypeError:
        return True


def call(fn):
    try:
        return fn()
    except Exception as e:  # noqa: BLE001
        return ("ERR", H.err_class(e))


def is_err(x):
    return isinstance(x, tuple) and len(x) == 2 and x[0] == "ERR"


# ---------------------------------------------------------------------------
# JSON-like values <-> sx / Coq terms
# ---------------------------------------------------------------------------
KEYCODE = {"data": 0, "data_id": 1, "children": 2}


def jv_sx(v):
    if v is None:
        return [0]
    if isinstance(v, bool):
        return [1, v]
    if isinstance(v, int):
        return [2, v]
    if isinstance(v, str):
        return [3, v]
    if isinstance(v, tuple):
        return [6, [jv_sx(x) for x in v]]
    if isinstance(v, list):
        return [4, [jv_sx(x) for x in v]]
    if isinstance(v, dict):
        return [5, [[KEYCODE.get(k, str(k)), jv_sx(x)] for k, x in v.items()]]
    raise TypeError(f"not a JSON-like value: {v!r}")


def jv_coq(v) -> str:
    if v is None:
        return "JNull"
    if isinstance(v, bool):
        return f"(JBool {H.coq_bool(v)})"
    if isinstance(v, int):
        return f"(JInt {H.z(v)})"
    if isinstance(v, str):
        return f"(JStr {H.coq_text(v)})"
    if isinstance(v, tuple):
        return "(JTuple " + H.coq_list(jv_coq(x) for x in v) + ")"
    if isinstance(v, list):
        return "(JList " + H.coq_list(jv_coq(x) for x in v) + ")"
    if isinstance(v, dict):
        return "(JDict " + H.coq_list(f"({H.coq_text(str(k))}, {jv_coq(x)})" for k, x in v.items()) + ")"
    raise TypeError(f"not a JSON-like value: {v!r}")


def jv_key(v) -> str:
    """structural key (order- and type-sensitive, unlike Python's ==)"""
    return json.dumps(jv_sx(v))


# ---------------------------------------------------------------------------
# The mapper pair of the harness.  enc/dec are inverse on the universe: value
# types are rebuilt from their value, identity-hashed objects are looked up by
# their key (index in the universe), as a real application would look up a
# record by primary key.
# ---------------------------------------------------------------------------
def enc(obj, U):
    if isinstance(obj, str):
        return obj
    if isinstance(obj, bool):
        raise TypeError
    if isinstance(obj, int):
        return {"t": "i", "v": obj}
    if isinstance(obj, tuple):
        return {"t": "t", "v": list(obj)}
    if isinstance(obj, H.EqObj):
        return {"t": "e", "v": obj.v}
    if isinstance(obj, B.DC):
        return {"t": "d", "v": obj.v}
    if isinstance(obj, (H.PlainObj, DictWrapper, dict, MutDC)):
        return {"t": "k", "k": U.index(obj)}
    raise TypeError(obj)


def dec(j, U):
    if isinstance(j, str):
        return j
    t = j["t"]
    if t == "i":
        return int(j["v"])
    if t == "t":
        return tuple(j["v"])
    if t == "e":
        return H.EqObj(j["v"])
    if t == "d":
        return B.DC(j["v"])
    if t == "k":
        return U.objs[j["k"]]
    raise ValueError(j)


SM_KINDS = ["none", "set", "wrap", "new", "newdrop", "extra", "guid", "tuple"]


def json_norm(v):
    """reference for what json.loads(json.dumps(v)) is on the value kinds used here: tuples come back as lists,
    everything else (None/bool/int/str, lists, str-keyed dicts in order) unchanged"""
    if isinstance(v, (list, tuple)):
        return [json_norm(x) for x in v]
    if isinstance(v, dict):
        return {k: json_norm(x) for k, x in v.items()}
    return v


def make_ser(kind, U):
    if kind == "none":
        return None
    if kind == "set":
        def ser(node, data):
            data["data"] = enc(node.data, U)
        return ser
    if kind == "wrap":
        def ser(node, data):
            data["data"] = [data["data"], enc(node.data, U)]
        return ser
    if kind == "stock":   # the library's own mapper for DictWrapper data (returns a copy of the wrapped dict)
        return DictWrapper.serialize_mapper
    if kind == "tuple":   # outside the JSON-able subset: the mapper writes a tuple (JSON turns it into a list)
        def ser(node, data):
            data["data"] = (data["data"], enc(node.data, U))
        return ser
    if kind == "extra":   # the style of the pinned suite: leave "data", add entries, return the dict
        def ser(node, data):
            data["t"] = enc(node.data, U)
            return data
        return ser
    if kind == "guid":   # the id is kept under an application key; the deserialize mapper restores item["data_id"]
        def ser(node, data):
            if "data_id" in data:
                data["g"] = data.pop("data_id")
            data["t"] = enc(node.data, U)
            return data
        return ser
    if kind in ("new", "newdrop"):
        def ser(node, data):
            res = {"data": enc(node.data, U), "x": 1}
            if kind == "new" and "data_id" in data:
                res["data_id"] = data["data_id"]
            return res
        return ser
    raise ValueError(kind)


def payload(kind, v):
    """the part of item['data'] the decoder reads"""
    return v[1] if kind in ("wrap", "tuple") else v


def decode_item(kind, item, U):
    """the data object the deserialisation step builds for an item dict (read-only version, for the reference)"""
    if kind == "none":
        return item["data"]
    if kind in ("extra", "guid"):
        return dec(item["t"], U)
    if kind == "stock":
        # all entries but the structural ones are the wrapped dict; an object of the universe with that content is
        # looked up (first match), as an application would look a record up by its fields
        content = {k: v for k, v in item.items() if k not in ("children", "data_id", "node_id")}
        for o in U.objs:
            if isinstance(o, DictWrapper) and o._dict == content:
                return o
        return DictWrapper(content)
    return dec(payload(kind, item["data"]), U)


def item_id(kind, item):
    """the data_id entry the item has once the deserialize mapper ran"""
    return item.get("g") if kind == "guid" else item.get("data_id")


def make_deser(kind, U):
    if kind == "none":
        return None
    if kind == "extra":    # a mapper that consumes (pops) the entry it reads
        def deser(parent, item):
            return dec(item.pop("t"), U)
        return deser
    if kind == "guid":     # ... and restores the data_id the serialize mapper moved away
        def deser(parent, item):
            o = dec(item.pop("t"), U)
            if "g" in item:
                item["data_id"] = item.pop("g")
            return o
        return deser

    def deser(parent, item):
        return decode_item(kind, item, U)
    return deser


def after_mapper(kind, wire):
    """the caller's structure as from_dict may leave it: only what the deserialize mapper itself does to an item"""
    def go(l):
        out = []
        for it in l:
            d = dict(it)
            if kind in ("extra", "guid"):
                d.pop("t", None)
            if kind == "guid" and "g" in d:
                d["data_id"] = d.pop("g")
            if "children" in d and isinstance(d["children"], list):
                d["children"] = go(d["children"])
            out.append(d)
        return out
    return go(wire)


def coq_smd(kind, U, tree_nodes):
    if kind == "none":
        return "SMnone"
    if kind == "stock":
        seen = {}
        for n in tree_nodes:
            i = U.index(n._data)
            if i not in seen:
                seen[i] = dict(n._data._dict)
        return "(SMstock " + H.coq_list(f"({H.z(i)}, {jv_coq(v)})" for i, v in seen.items()) + ")"
    seen = {}
    for n in tree_nodes:
        i = U.index(n._data)
        if i not in seen:
            seen[i] = enc(n._data, U)
    tbl = H.coq_list(f"({H.z(i)}, {jv_coq(v)})" for i, v in seen.items())
    if kind == "set":
        return f"(SMset {tbl})"
    if kind == "wrap":
        return f"(SMwrap {tbl})"
    if kind == "tuple":
        return f"(SMtuple {tbl})"
    if kind == "extra":
        return f"(SMextra {tbl})"
    if kind == "guid":
        return f"(SMguid {tbl})"
    return f"(SMnew {tbl} {H.coq_bool(kind == 'new')})"


MISSING = object()


def random_items(rng, n, depth):
    """a random list of items for from_dict: valid entries mostly, every kind of malformed entry now and then"""
    def pick(common, rare, p_rare=0.12):
        return rng.choice(rare) if rng.random() < p_rare else rng.choice(common)

    out = []
    for _ in range(n):
        if rng.random() < 0.04:
            out.append(rng.choice([5, "a", None, [], True]))
            continue
        it = {}
        data = pick(["a", "b", "c", "d", 1, 2], [True, None, [1], {"k": 1}, MISSING, "", 0, -1, -2])
        if data is not MISSING:
            it["data"] = data
        did = pick([MISSING, MISSING, MISSING, "k", 5, 0, ""], [None, True, False, [1], {}, 1, "a"])
        if did is not MISSING:
            it["data_id"] = did
        nid = pick([MISSING] * 6 + [5, 6, 7], [None, 0, "7", "x", "", [1], True, False, -3, "05"])
        if nid is not MISSING:
            it["node_id"] = nid
        if rng.random() < 0.2:
            it["other"] = rng.choice([1, "x", None, [1, 2]])
        r = rng.random()
        if depth < 3 and r < 0.45:
            it["children"] = random_items(rng, rng.randint(1, 3), depth + 1)
        elif r < 0.6:
            it["children"] = pick([[], None], [0, "", False, "ab", {"k": 1}, 5, True, {}])
        out.append(it)
    return out


def item_dicts(obj):
    """all dicts reachable through 'children' lists, pre-order"""
    out = []

    def go(l):
        if not isinstance(l, list):
            return
        for it in l:
            if isinstance(it, dict):
                out.append(it)
                ch = it.get("children")
                if ch:
                    go(ch)
    go(obj)
    return out


def coq_info_data(obj, U) -> str:
    a = info14(obj, U)
    return (f"(I (-1) {H.z(a['eqc'])} {H.z(a['hash'])} {H.coq_bool(a['isstr'])} "
            f"{H.coq_text(a['name'])} (DInt 0) None [])")


def coq_dtable(obj, kind, U) -> str:
    """what Python makes of every distinct item['data'] that occurs: the data
    object (raw value or decoded), abstracted; or the error class of hashing it"""
    rows = {}
    for it in item_dicts(obj):
        if kind in ("extra", "guid", "stock"):   # keyed by the item's own entries
            v = {k: x for k, x in it.items() if k != "children"}
        elif "data" not in it:
            continue
        else:
            v = it["data"]
        k = jv_key(v)
        if k in rows:
            continue
        try:
            o = decode_item(kind, it, U)
            rows[k] = f"({jv_coq(v)}, dok {coq_info_data(o, U)})"
        except Exception as e:  # noqa: BLE001
            rows[k] = f"({jv_coq(v)}, derr {H.err_class(e)})"
    return H.coq_list(rows.values())


def obs_rebuilt(res, U):
    if is_err(res):
        return [1, res[1]]

    def go(n):
        a = info14(n._data, U)
        explicit_nid = [n._node_id] if n._node_id != id(n) else []
        return [H.nid(n), [a["eqc"], a["hash"], a["isstr"], a["name"], H.sx_did(n._data_id), explicit_nid],
                [go(c) for c in (n._children or [])]]
    return [0, [go(c) for c in (res._root._children or [])]]


# ---------------------------------------------------------------------------
def apply_prep(tree, prep):
    if not prep:
        return
    if prep == "clear":
        tree.clear()
    elif prep == "remove_tops":
        for n in list(tree._root._children or []):
            n.remove()
    elif prep == "clear_readd":
        tree.clear()
        tree.add("again")
    elif prep == "remove_kids":
        for n in list(tree._root._children or []):
            for c in list(n._children or []):
                c.remove()
    else:
        raise ValueError(prep)


HIST_OPS = ["remove", "remove_keep", "remove_children", "move", "move_top", "add", "filter"]


def apply_hist(tree, hist):
    """a mutation history applied before the tree is serialised; node arguments are pre-order indices into the
    tree as it is at that moment; an operation the library refuses (or that does not apply) is skipped"""
    for op in hist or []:
        if op[0] not in HIST_OPS and op[0] != "clear_readd":
            raise ValueError(op)
        nodes = B.all_nodes(tree._root)
        try:
            if op[0] == "clear_readd":
                tree.clear()
                tree.add(op[1])
                continue
            if not nodes:
                continue
            n = nodes[op[1] % len(nodes)]
            if op[0] == "remove":
                n.remove()
            elif op[0] == "remove_keep":
                n.remove(keep_children=True)
            elif op[0] == "remove_children":
                n.remove_children()
            elif op[0] == "move":
                n.move_to(nodes[op[2] % len(nodes)])
            elif op[0] == "move_top":
                n.move_to(tree)
            elif op[0] == "add":
                n.add(op[2])
            elif op[0] == "filter":   # in place: drop the nodes whose name ends in op[1]
                tree.filter(lambda x: not x.name.endswith(str(op[1])))
        except Exception:  # noqa: BLE001  (refused: uniqueness, move into own branch, ...)
            pass


class Prop:
    id = "C14"
    coq_prop = "Properties/C14.v"
    case_module = "CaseC14"
    case_vo = "theories/Cases/CaseC14.vo"
    run_fn = "run14"
    shard = 250
    rule = ("plain trees: every ordered forest with <= 3 nodes x every labeling over 2 strings x data_id in {default, 0, '', 'k', "
            "hash(data)} that the tree accepts (quick: 3-node forests with {default, 0} only); every forest with <= N nodes (N=5 "
            "quick, 6 thorough) x 8 labeling patterns (distinct strings; strings JSON must escape; unhashable dicts/dataclasses under explicit ids; clones in different parents; explicit/falsy/default-valued ids; "
            "value-equal objects, tuples, ints, dataclasses; identity-hashed objects; '7' next to 7) x the 8 serialisation mappers (a tuple-writing one / none / "
            "set data in place / wrap / new dict keeping or dropping data_id / extra entry popped by the decoder / data_id moved to "
            "another key and restored into item['data_id'] by the deserialize mapper) with the inverse deserialisation mapper (quick: all 8 up to 3 nodes, 3 of 8 at 4 "
            "nodes, 1 of 8 at 5 nodes; thorough: all up to 4 nodes, 3 of 8 at 5 nodes, 2 of 8 at 6 nodes); trees under a calc_data_id hook; typed trees; emptied trees (clear, remove of the last top "
            "node); trees reached through mutation histories (remove, remove(keep_children), remove_children, move_to, filter, add, "
            "clear + re-add: every single operation on every node of every forest <= 3 nodes, pairs on 4 nodes, random histories); "
            "the same histories between TWO serialisations with the same mapper and the same data objects (stock "
            "DictWrapper.serialize_mapper on DictWrapper data, harness mappers on plain-dict / dataclass / DictWrapper data, stock "
            "Tree.serialize_mapper on strings), all caller-owned data objects snapshotted before and compared after; "
            "instances of Tree / TypedTree SUBCLASSES overriding the class-level hooks (serialize_mapper, deserialize_mapper, key/value "
            "maps, DEFAULT_CHILD_TYPE, calc_data_id) without explicit mapper (hooks must not be called; tree-level = node-level); seeded random trees (5..18 nodes quick, 5..30 thorough); 47 hand-written + 150 (thorough 500) random dict lists (missing/unhashable data, bad data_id / node_id / children entries, non-dict items); Node.from_dict "
            "into every node of every forest <= 3 (thorough 4) nodes x 3 calc_data_id hooks x 6 item lists.  Every dump goes through "
            "json.dumps/json.loads before from_dict.  A case is one tree (or one dict list); distinct = distinct desc; non-trivial = >= 3 nodes")
    exhaustive_note = ("all shapes <= 3 nodes x all labelings (2 strings x 5 data_id choices; quick: 2 choices at 3 nodes); "
                       "all shapes <= N nodes x 8 patterns x mappers (N=5 quick, 6 thorough)")
    assumptions = [
        "serialisation mappers are functions of the node's data object/ids and the dict passed in; deserialisation mappers are functions of the item dict (any entry) and may add/change/pop entries other than 'children'",
        "the mapper pair is inverse: deser(ser(x)) == x (hence equal hash) – hypothesis of the round-trip theorem, not an axiom",
        "str(data) == f'{data}' (node.name) for the data objects used",
        "hash() never returns -1 (CPython): the model encodes 'hash(data) raises TypeError' as i_hash = -1",
        "json.dumps/json.loads transport of str/int/list/dict values is trusted (exercised on every case: from_dict runs on the reloaded structure)",
        "identity of nodes is the allocation index recorded by a harness-side wrapper of Node.__init__",
    ]
    manifest = dict(
        text=("Machine-checked theorems (Coq 8.16, no axioms) about an executable model of Node.to_dict / Tree.to_dict_list / "
              "Node.from_dict / Tree.from_dict over a JSON-like value type: (1) the dict forest mirrors the tree (one dict per node, same "
              "nesting and child order, pre-order preserved, 'data' = node name or the mapper's value, 'data_id' present iff it differs "
              "from hash(data) and then equal to it, 'children' iff non-empty; without mapper no other entries), for every admissible "
              "serialisation mapper; (2) from_dict(to_dict_list(t)) succeeds and rebuilds a tree of the same shape, order, data, data_ids "
              "(explicit ones carried, default ones recomputed equal) and therefore the same clone partition, nodes allocated in "
              "pre-order, for string data without mapper and for any inverse mapper pair, for every tree with unique sibling data_ids; "
              "(3) for ANY input from_dict builds exactly one node per item with the item's data and effective id, never a tree with two "
              "equal-id siblings, refuses well-formed inputs iff two sibling items share an effective id and then only with "
              "UniqueConstraintError, registers only distinct non-zero explicit node ids; Node.from_dict into an existing tree keeps "
              "sibling uniqueness; unhashable data (documented with explicit data_id / calc_data_id hook) is covered; (4) canonical dict lists are "
              "reproduced exactly by to_dict_list(from_dict(d)); (5) the literal keys, the data_id test and the statement order of "
              "Node.to_dict are lifted from the source on every run and proved equal to the model's.  Tied to /repo on every run by a "
              "correspondence check (vm_compute; every dump really goes through json.dumps/json.loads) and an independent Python oracle "
              "walking _children pointers."),
        note=("Trusted: Coq kernel + vm_compute; hand-written model theories/Forest/DictList.v (tied by the correspondence and the "
              "generated facts only); harness; mapper assumptions (listed).  The JSON transport is the model function json_rt (tuples "
              "come back as lists, everything else unchanged; floats / non-str keys do not occur): the dump of a tree is proved to be a "
              "fixed point of it for string data and for mappers writing JSON-able values, the correspondence applies it before "
              "from_dict, and the harness compares the real json.loads(json.dumps(d)) with it on every case (one mapper kind writes a "
              "tuple on purpose).  Tuple-valued data_ids (possible through a calc_data_id hook) are outside DataIdType = str|int and "
              "outside the model: named exclusion, with an Example of what JSON does to them.  'node_id' entries of hand-written dicts "
              "ARE modelled (nid_of / nid_check: int(), assert, order of the checks; str ids as ASCII digits only).  'from_dict does "
              "not modify the caller's structure' and 'serialising does not modify the caller's data objects (a mapper result must "
              "not alias them)' are outside a pure value model: checked by the harness oracle (snapshots of the structure and of every "
              "caller-owned data object, incl. a second serialisation after a mutation history with the same mapper and objects).  Not "
              "modelled: the partial state a refused Node.from_dict leaves behind; deserialize mappers that change the 'children' "
              "entry.  Print Assumptions: closed under the global context for every theorem."),
        technique="Coq proof about an executable Gallina model + differential correspondence check (vm_compute) + Python oracle",
        design_ref="DESIGN.md section 6 (C14)",
    )

    # ------------------------------------------------------------------
    def descs(self, tier, rng):
        yield from CORPUS
        seen = set()

        def ok(d):
            k = H.digest(d)
            if k in seen:
                return False
            seen.add(k)
            try:
                build14(d)
                return True
            except Exception:  # labeling refused by the tree (duplicate sibling)
                return False

        # (1) exhaustive small scope: strings, clones, explicit / falsy / default-valued ids
        nsmall = 3
        univ = ["s:a", "s:b"]
        hs = {i: hash(B.make_obj(u)) for i, u in enumerate(univ)}
        def choices(ids):
            return [(l, hs[l] if did == "HASH" else did) for l in range(len(univ)) for did in ids]

        full = choices((None, 0, "", "k", "HASH"))
        small = choices((None, 0)) if tier == "quick" else full
        for n in range(0, nsmall + 1):
            for shape in H.forests(n):
                for lab in itertools.product(full if n < 3 else small, repeat=n):
                    d = dict(univ=univ, nodes=B.shape_to_nodes(shape, lambda i, dp, s: (lab[i][0], None, lab[i][1])), sm="none")
                    if ok(d):
                        yield d
        # (2) every shape up to N with labeling patterns x mappers
        nmax = 5 if tier == "quick" else 6
        pats = self.patterns()
        for n in range(1, nmax + 1):
            for si, shape in enumerate(H.forests(n)):
                for pi, (univ, labeler) in enumerate(pats):
                    nodes = B.shape_to_nodes(shape, labeler)
                    if n <= (3 if tier == "quick" else 4):
                        kinds = SM_KINDS
                    elif n == (4 if tier == "quick" else 5):
                        kinds = [SM_KINDS[(pi + si + j) % 8] for j in (0, 2, 5)]
                    elif tier == "quick":
                        kinds = [SM_KINDS[(pi + si) % 8]]
                    else:
                        kinds = [SM_KINDS[(pi + si) % 7 + 1], "none"]
                    for sm in kinds:
                        d = dict(univ=univ, nodes=nodes, sm=sm)
                        if ok(d):
                            yield d
        # (3) calc_data_id hooks on the source tree, emptied trees
        for n in (1, 2, 3, 4):
            for shape in H.forests(n):
                for calc in ("name", "mod7"):
                    for sm in ("none", "set"):
                        d = dict(univ=[f"s:n{i}" for i in range(n)], calc=calc, sm=sm,
                                 nodes=B.shape_to_nodes(shape, lambda i, dp, s: (i, None, None)))
                        if ok(d):
                            yield d
        # unhashable data under a calc_data_id hook (the other documented way to store dicts)
        for n in (1, 2, 3, 4):
            for shape in H.forests(n):
                for sm in ("none", "set", "newdrop"):
                    d = dict(univ=["u:1", "m:2", "s:a", "u:3"], calc="name", sm=sm,
                             nodes=B.shape_to_nodes(shape, lambda i, dp, s: (i, None, None)))
                    if ok(d):
                        yield d
        # typed trees go through the same Node.to_dict (the kind is not carried; from_dict builds a plain Tree)
        for n in (2, 3):
            for shape in H.forests(n):
                for sm in ("none", "set"):
                    d = dict(typed=True, univ=["s:a", "s:b", "e:1"], sm=sm,
                             nodes=B.shape_to_nodes(shape, lambda i, dp, s: ((i + dp) % 3 if sm == "set" else (i + dp) % 2, "ab"[i % 2], None if i % 2 else f"t{i}")))
                    if ok(d):
                        yield d
        for prep in ("clear", "remove_tops", "clear_readd", "remove_kids"):
            for shape in H.forests(3):
                d = dict(univ=["s:a", "s:b", "s:c"], nodes=B.shape_to_nodes(shape, lambda i, dp, s: (i, None, None)), sm="none", prep=prep)
                if ok(d):
                    yield d
        # (3b) trees reached through a mutation history (remove, remove(keep_children), remove_children, move_to,
        #      clear + re-add, in-place filter, add) before they are serialised
        def hist_desc(shape, n, hist, sm="none"):
            return dict(univ=[f"s:n{i}" for i in range(n)] + ["s:x"], sm=sm, hist=hist,
                        nodes=B.shape_to_nodes(shape, lambda i, dp, s: (i, None, None if i % 2 else f"h{i}")))

        for n in (1, 2, 3):
            for shape in H.forests(n):
                for k in range(n):
                    for op in ("remove", "remove_keep", "remove_children", "move_top"):
                        d = hist_desc(shape, n, [[op, k]])
                        if ok(d):
                            yield d
                    for j in range(n):
                        if j != k:
                            d = hist_desc(shape, n, [["move", k, j]])
                            if ok(d):
                                yield d
                d = hist_desc(shape, n, [["filter", n - 1]])
                if ok(d):
                    yield d
        for shape in H.forests(4):
            for k in range(4):
                for op in ("remove_keep", "remove"):
                    d = hist_desc(shape, 4, [[op, k], ["remove_keep", k]], sm="set" if k % 2 else "none")
                    if ok(d):
                        yield d
        for _ in range(40 if tier == "quick" else 300):
            n = rng.randint(2, 7)
            shape = H.random_shape(rng, n, deep=rng.choice([0.3, 0.7]))
            hist = []
            for _i in range(rng.randint(1, 5)):
                op = rng.choice(HIST_OPS)
                if op in ("move",):
                    hist.append([op, rng.randrange(8), rng.randrange(8)])
                elif op == "add":
                    hist.append([op, rng.randrange(8), "x"])
                elif op == "filter":
                    hist.append([op, rng.randrange(n)])
                else:
                    hist.append([op, rng.randrange(8)])
            if rng.random() < 0.1:
                hist.insert(rng.randrange(len(hist) + 1), ["clear_readd", "again"])
            d = hist_desc(shape, n, hist, sm=rng.choice(["none", "none", "set", "extra", "guid"]))
            if ok(d):
                yield d
        # (3d) instances of Tree / TypedTree subclasses that override the class-level hooks; no explicit mapper (and a
        #      few with one): same behaviour as the base class, tree-level and node-level entry points agree
        for n in (1, 2, 3) if tier == "quick" else (1, 2, 3, 4):
            for si, shape in enumerate(H.forests(n)):
                for sub in ("hook", "hookcalc", "hooktyped"):
                    typed = sub == "hooktyped"
                    d = dict(univ=["s:a", "s:b", "s:c", "e:1"], subclass=sub, typed=typed, sm="none",
                             nodes=B.shape_to_nodes(shape, lambda i, dp, s: ((i + dp) % 3, "ab"[i % 2] if typed else None,
                                                                              None if (i + si) % 2 else f"x{i}")))
                    if ok(d):
                        yield d
                    if n == 3:
                        d = dict(d, sm=["set", "extra", "guid"][si % 3], univ=["s:a", "s:b", "s:c", "e:1"])
                        if ok(d):
                            yield d
                        d = dict(d, sm="none", warm=True, hist=[["remove_children", si % 3]])
                        if ok(d):
                            yield d
        # (3c) serialize -> mutate the same tree -> serialize again with the SAME mapper and the SAME data objects
        #      (DictWrapper data with the stock DictWrapper.serialize_mapper, plain-dict / dataclass / DictWrapper data
        #      with the harness's mappers, strings with the stock Tree.serialize_mapper); every caller-owned data object
        #      is snapshotted when the tree is built and must be unchanged afterwards; the second output is what is
        #      compared with the model (evaluated on the mutated tree) and the oracle
        def warm_desc(fam, shape, n, hist, j=0):
            if fam == "stock":
                univ = ["w:1", "w:2", "w:3", "w:4", "w:1", "w:2"]
                return dict(univ=univ, sm="stock", warm=True, hist=hist,
                            nodes=B.shape_to_nodes(shape, lambda i, dp, s: (i % 6, None, None)))
            if fam == "dicts":
                univ = ["u:1", "m:2", "w:3", "u:4", "s:a", "m:5"]
                return dict(univ=univ, sm=["set", "extra", "guid", "none", "new"][j % 5], warm=True, hist=hist,
                            nodes=B.shape_to_nodes(shape, lambda i, dp, s: (i % 6, None, f"k{i}")))
            return dict(univ=[f"s:n{i}" for i in range(n)], sm="none", tree_mapper=True, warm=True, hist=hist,
                        nodes=B.shape_to_nodes(shape, lambda i, dp, s: (i, None, None if i % 2 else f"h{i}")))

        wn = (2, 3) if tier == "quick" else (2, 3, 4)
        for n in wn:
            for si, shape in enumerate(H.forests(n)):
                for k in range(n):
                    ops = [["remove", k], ["remove_keep", k], ["remove_children", k], ["move_top", k]]
                    ops += [["move", k, j] for j in range(n) if j != k]
                    for oi, op in enumerate(ops):
                        fams = ["stock", "dicts", "tree"] if n <= 2 or tier != "quick" else [["stock", "dicts", "tree"][(si + k + oi) % 3], "stock"]
                        for fam in dict.fromkeys(fams):
                            d = warm_desc(fam, shape, n, [op], j=si + k + oi)
                            if ok(d):
                                yield d
        for _ in range(30 if tier == "quick" else 300):
            n = rng.randint(2, 7)
            shape = H.random_shape(rng, n, deep=rng.choice([0.3, 0.7]))
            hist = []
            for _i in range(rng.randint(1, 4)):
                op = rng.choice(["remove", "remove_keep", "remove_children", "move", "move_top", "filter"])
                hist.append([op, rng.randrange(8), rng.randrange(8)] if op == "move" else [op, rng.randrange(8)])
            d = warm_desc(rng.choice(["stock", "stock", "dicts", "tree"]), shape, n, hist, j=rng.randrange(5))
            if ok(d):
                yield d
        # (4) random
        nrand = 60 if tier == "quick" else 400
        for _ in range(nrand):
            n = rng.randint(5, 18 if tier == "quick" else 30)
            shape = H.random_shape(rng, n, deep=rng.choice([0.2, 0.5, 0.85]))
            univ = ["s:a", "s:b", "s:c", "s:", "e:1", "e:1", "e:2", "t:1,2", "i:7", "i:-1", "d:3", "p:1", "p:1", "w:4", "s:7", "u:5", "m:6"]
            sm = rng.choice(SM_KINDS)
            pool = range(len(univ)) if sm != "none" or rng.random() < 0.3 else [0, 1, 2, 3, 14]
            pool = list(pool)
            dids = [None, None, None, 0, "", "k", 5, "a"]
            for _try in range(20):
                lab = [(rng.choice(pool), rng.choice(dids)) for _ in range(n)]
                d = dict(univ=univ, nodes=B.shape_to_nodes(shape, lambda i, dp, s: (lab[i][0], None, lab[i][1])), sm=sm)
                if rng.random() < 0.1:
                    d["calc"] = "name"   # (mod7 of an identity hash differs from build to build)
                if ok(d):
                    yield d
                    break
        # (5) hand-written / malformed inputs of from_dict
        yield from LOADS
        # (5b) random dict lists, mostly valid + malformed entries of every kind (from_dict on ANY input)
        for _ in range(150 if tier == "quick" else 500):
            yield dict(load=random_items(rng, rng.randint(1, 4), 0))
        # (6) Node.from_dict into a node of an existing tree (with and without calc_data_id hook)
        items_pool = [
            [{"data": "a"}],
            [{"data": "a"}, {"data": "b", "children": [{"data": "a"}, {"data": "n0"}]}],
            [{"data": "a", "data_id": 0}, {"data": "a", "data_id": ""}, {"data": "b", "data_id": "n1"}],
            [{"data": "n0"}, {"data": "n0", "data_id": "n0"}],
            [{"data": "a"}, {"data": "b", "children": [{"data": "c"}, {"data": "c"}]}],
            [],
        ]
        for n in (1, 2, 3) if tier == "quick" else (1, 2, 3, 4):
            for shape in H.forests(n):
                for calc in (None, "name", "mod7"):
                    for into in range(n):
                        for ii, items in enumerate(items_pool):
                            if tier == "quick" and (ii + into + n) % 2:
                                continue
                            d = dict(univ=[f"s:n{i}" for i in range(n)] , calc=calc, into=into, items=items,
                                     nodes=B.shape_to_nodes(shape, lambda i, dp, s: (i, None, None)))
                            if ok(d):
                                yield d

    @staticmethod
    def patterns():
        return [
            # distinct strings
            ([f"s:n{i}" for i in range(8)], lambda i, d, s: (i, None, None)),
            # clones of strings in different parents (label by depth+sibling index), falsy/explicit ids beyond
            (["s:a", "s:b", "s:c", "s:"], lambda i, d, s: ((d + s) % 4, None, None if s < 4 else f"x{i}")),
            # one string everywhere under explicit ids, two of them falsy, one equal to the default
            (["s:a"], lambda i, d, s: (0, None, [0, "", hash("a"), "k", 1, "a", -1, "b"][i % 8] if s == 0 or d == 0 else f"u{i}")),
            # value-equal objects / tuples / ints / dataclasses: clones by equality
            (["e:1", "e:1", "t:1,2", "i:7", "d:3", "e:2", "t:", "i:0"], lambda i, d, s: ((d * 3 + s) % 8, None, None if s < 8 else f"x{i}")),
            # identity-hashed objects (clones only through the same object) with explicit ids on some
            (["p:1", "p:1", "w:4", "p:2"], lambda i, d, s: ((d + s) % 4, None, None if i % 3 else (0 if i == 0 else f"q{i}"))),
            # strings JSON has to escape (quote, backslash, control, non-ASCII, non-BMP), also as explicit ids
            (["s:a\"b", "s:a\\b", "s:\n\t", "s:\u00e9\u00df", "s:\U0001F600x", "s: "],
             lambda i, d, s: ((d + 2 * s + i) % 6, None, None if (i + s) % 3 else ["\"", "\\", "\u00e9", "\U0001F600", "\n"][i % 5] + str(i))),
            # unhashable data objects (dict, non-frozen dataclass) under explicit ids, clones through one id (D30b)
            (["u:1", "u:1", "m:2", "s:a"], lambda i, d, s: ((d + s) % 4, None, f"h{(d + s) % 4}" + ("" if s < 4 else str(i)))),
            # strings and non-strings mixed, same printed form ("7" and 7)
            (["s:7", "i:7", "s:a", "e:7"], lambda i, d, s: ((d + 2 * s) % 4, None, None if s < 2 else f"x{i}")),
        ]

    def shrink_candidates(self, desc):
        if "load" in desc or "into" in desc:
            return
        for nodes in B.drop_one_node(desc["nodes"]):
            yield dict(desc, nodes=nodes)
        if desc.get("sm") != "none":
            yield dict(desc, sm="none")
        h = desc.get("hist") or []
        for i in range(len(h)):
            yield dict(desc, hist=h[:i] + h[i + 1:])

    # ------------------------------------------------------------------
    def run(self, desc) -> Case:
        if "load" in desc:
            return self.run_load(desc)
        if "into" in desc:
            return self.run_into(desc)
        HOOK_CALLS[0] = 0
        tree, U = build14(desc)
        # Tree.from_dict is a classmethod: for a plain subclass it is called on the subclass
        from_dict_cls = type(tree) if desc.get("subclass") in ("hook", "hookcalc") else Tree
        apply_prep(tree, desc.get("prep"))
        kind = desc.get("sm", "none")
        ser, deser = make_ser(kind, U), make_deser(kind, U)
        if desc.get("tree_mapper"):      # the library's default mapper of Tree (returns the dict it was given)
            ser = Tree.serialize_mapper
        warm_fail = None
        if desc.get("warm"):
            # serialize, THEN mutate the same tree, then serialize again with the same mapper and the same data
            # objects: what the first call did must not show in the second
            first = call(lambda: tree.to_dict_list(mapper=ser))
            for n0 in B.all_nodes(tree._root)[:2]:
                call(lambda n0=n0: n0.to_dict(mapper=ser))
            if is_err(first):
                warm_fail = f"to_dict_list: first serialisation raised {H.ERR_NAMES.get(first[1], '?')}"
            elif changed_objects(U):
                warm_fail = f"snapshot: to_dict_list modified the caller's data object(s) {changed_objects(U)}"
        apply_hist(tree, desc.get("hist"))
        nodes = B.all_nodes(tree._root)
        finput = coq_forest14(tree._root, U)
        smd = coq_smd(kind, U, nodes)

        dump = call(lambda: tree.to_dict_list(mapper=ser))
        subs = nodes if len(nodes) <= 2 else [nodes[len(nodes) // 2], nodes[-1]]
        sub_dumps = [call(lambda n=n: n.to_dict(mapper=ser)) for n in subs]
        stats = dict(nodes=len(nodes), depth=B.nodes_depth(desc["nodes"]), mapper=kind, prep=str(desc.get("prep")), hist=len(desc.get("hist") or []),
                     custom_ids=sum(1 for n in nodes if is_custom(n)),
                     unhashable=sum(1 for n in nodes if safe_hash(n._data) == -1),
                     clones=sum(1 for n in nodes if len(tree._nodes_by_data_id.get(n._data_id, [])) > 1))
        key = H.digest(desc)
        nontrivial = len(nodes) >= 3
        if is_err(dump) or any(is_err(s) for s in sub_dumps):
            obs = [[-1, dump[1] if is_err(dump) else 0]]
            coq_input = f"(CRound {finput} {smd} {H.coq_list(H.z(H.nid(n)) for n in subs)} [] 0)"
            return Case(desc=desc, coq_input=coq_input, impl_obs=obs, oracle_fail="to_dict_list: raised "
                        f"{H.ERR_NAMES.get(dump[1] if is_err(dump) else 0, '?')} on a tree with {len(nodes)} nodes",
                        nontrivial=nontrivial, key=key, stats=stats)

        # transport: really dump and load
        fail = None
        try:
            wire = json.loads(json.dumps(dump))
            if jv_sx(wire) != jv_sx(json_norm(dump)):
                fail = "json: dump/load is not the documented transport (tuples -> lists, everything else unchanged)"
            elif kind != "tuple" and jv_sx(wire) != jv_sx(dump):
                fail = "json: dump/load changed a structure that has to be JSON-stable"
        except Exception as e:  # noqa: BLE001
            wire = dump
            fail = f"json: structure is not JSON-serialisable ({type(e).__name__})"
        dt = coq_dtable(wire, kind, U)
        wire0 = copy.deepcopy(wire)
        nxt = H.alloc_count()
        rebuilt = call(lambda: from_dict_cls.from_dict(wire, mapper=deser))
        if not fail and kind == "none" and not desc.get("tree_mapper") and HOOK_CALLS[0]:
            fail = (f"hooks: the class-level serialize_mapper/deserialize_mapper hook of the Tree subclass was called "
                    f"{HOOK_CALLS[0]}x though no mapper was passed")
        if not fail and not is_err(rebuilt):
            # from_dict must not modify the caller's structure (beyond what the caller's own mapper does to an item)
            if jv_sx(wire) != jv_sx(after_mapper(kind, wire0)):
                fail = "snapshot: from_dict modified the structure it was given"
        wire = wire0
        obs = [[jv_sx(d) for d in dump], [jv_sx(d) for d in sub_dumps], obs_rebuilt(rebuilt, U)]
        coq_input = f"(CRound {finput} {smd} {H.coq_list(H.z(H.nid(n)) for n in subs)} {dt} {nxt})"
        fail = warm_fail or fail or self.oracle(tree, U, kind, dump, subs, sub_dumps, wire, rebuilt)
        if not fail and changed_objects(U):
            fail = f"snapshot: serialising / loading modified the caller's data object(s) {changed_objects(U)}"
        stats["rebuilt"] = "error" if is_err(rebuilt) else "ok"
        stats["warm"] = bool(desc.get("warm"))
        return Case(desc=desc, coq_input=coq_input, impl_obs=obs, oracle_fail=fail, nontrivial=nontrivial, key=key, stats=stats)

    def run_load(self, desc) -> Case:
        U = B.make_universe([])
        obj = desc["load"]
        dt = coq_dtable(obj, "none", U)
        nxt = H.alloc_count()
        rebuilt = call(lambda: Tree.from_dict(json.loads(json.dumps(obj))))
        obs = [obs_rebuilt(rebuilt, U)]
        coq_input = f"(CLoad {H.coq_list(jv_coq(x) for x in obj)} {dt} {nxt})"
        fail = self.oracle_load(obj, rebuilt)
        n = len(item_dicts(obj))
        return Case(desc=desc, coq_input=coq_input, impl_obs=obs, oracle_fail=fail, nontrivial=n >= 3, key=H.digest(desc),
                    stats=dict(nodes=n, mapper="load", rebuilt="error" if is_err(rebuilt) else "ok"))

    def run_into(self, desc) -> Case:
        """Node.from_dict(items) on the node with pre-order index desc['into'] of an existing tree"""
        tree, U = build14(desc)
        nodes = B.all_nodes(tree._root)
        target = nodes[desc["into"]]
        obj = desc["items"]
        before = [(n, n._parent, list(n._children or []), n._data, n._data_id) for n in nodes]
        finput = coq_forest14(tree._root, U)
        dt = coq_dtable(obj, "none", U)
        nxt = H.alloc_count()
        r = call(lambda: target.from_dict(json.loads(json.dumps(obj))))
        obs = [obs_rebuilt(r if is_err(r) else tree, U)]
        calc = {None: 0, "name": 1, "mod7": 2}[desc.get("calc")]
        coq_input = (f"(CNode {finput} {calc} {H.nid(target)} {H.coq_list(jv_coq(x) for x in obj)} {dt} {nxt})")
        fail = self.oracle_into(tree, desc, target, obj, before, r)
        return Case(desc=desc, coq_input=coq_input, impl_obs=obs, oracle_fail=fail, nontrivial=len(nodes) + len(item_dicts(obj)) >= 3,
                    key=H.digest(desc), stats=dict(nodes=len(nodes), mapper="into", rebuilt="error" if is_err(r) else "ok"))

    def oracle_into(self, tree, desc, target, obj, before, r):
        calc = B.calc_fn(desc.get("calc"))

        def eff(d):
            if d.get("data_id") is not None:
                return d["data_id"]
            return calc(tree, d["data"]) if calc else hash(d["data"])

        def collision(dl):
            ids = []
            for d in dl:
                e = eff(d)
                if any(e == x and type(e) is type(x) for x in ids):
                    return True
                ids.append(e)
                if d.get("children") and collision(d["children"]):
                    return True
            return False

        had_children = bool(next(b for b in before if b[0] is target)[2])
        if had_children:
            if not (is_err(r) and r[1] == 6):
                return "Node.from_dict: target with children not refused"
        elif collision(obj):
            if not (is_err(r) and r[1] == 1):
                return "Node.from_dict: duplicate sibling data_id not refused with UniqueConstraintError"
            return None
        elif is_err(r):
            return f"Node.from_dict: raised {H.ERR_NAMES.get(r[1])} on a well-formed input"
        # the rest of the tree is untouched (by identity)
        for n, p, ch, data, did in before:
            if n._parent is not p or n._data is not data or n._data_id != did:
                return f"Node.from_dict: node {H.nid(n)} outside the target changed"
            if n is not target or had_children:
                now = list(n._children or [])
                if len(now) != len(ch) or any(a is not b for a, b in zip(now, ch)):
                    return f"Node.from_dict: children of node {H.nid(n)} changed"
        if had_children:
            return None

        def same(dl, rc, parent, where):
            if len(dl) != len(rc):
                return f"Node.from_dict shape: {where}"
            for k, (d, x) in enumerate(zip(dl, rc)):
                if x._parent is not parent or x._tree is not tree:
                    return f"Node.from_dict pointers: {where}/{k}"
                if x._data != d["data"] or type(x._data) is not type(d["data"]):
                    return f"Node.from_dict data: {where}/{k}"
                if x._data_id != eff(d) or type(x._data_id) is not type(eff(d)):
                    return f"Node.from_dict data_id: {where}/{k}: {x._data_id!r} expected {eff(d)!r}"
                e = same(d.get("children") or [], x._children or [], x, f"{where}/{k}")
                if e:
                    return e
            return None

        e = same(obj, target._children or [], target, "")
        if e:
            return e
        # the tree's index sees old and new nodes of one data_id as one clone group
        alln = B.all_nodes(tree._root)
        if tree.count != len(alln):
            return f"Node.from_dict: tree counts {tree.count}, {len(alln)} reachable"
        for n in alln:
            grp = {id(x) for x in tree.find_all(data_id=n._data_id)}
            exp = {id(x) for x in alln if x._data_id == n._data_id and type(x._data_id) is type(n._data_id)}
            if grp != exp:
                return f"Node.from_dict clones: group of node {H.nid(n)} has {len(grp)} members, expected {len(exp)}"
        return None

    # ------------------------------------------------------------------
    # Oracle: written from the property statement; walks _children pointers.
    # ------------------------------------------------------------------
    @staticmethod
    def expected_data(kind, n, U):
        if kind in ("none", "extra", "guid"):
            return str(n._data)
        if kind == "wrap":
            return [str(n._data), enc(n._data, U)]
        if kind == "tuple":
            return (str(n._data), enc(n._data, U))
        return enc(n._data, U)

    def oracle(self, tree, U, kind, dump, subs, sub_dumps, wire, rebuilt):
        root = tree._root

        # (a) mirror: one dict per node, same nesting and order, data, data_id iff non-default
        def mirror(children, dl, where):
            if type(dl) is not list:
                return f"mirror: {where}: not a list"
            if len(dl) != len(children):
                return f"mirror: {where}: {len(dl)} dicts for {len(children)} nodes"
            for k, (n, d) in enumerate(zip(children, dl)):
                w = f"{where}/{k}"
                if type(d) is not dict:
                    return f"mirror: {w}: not a dict"
                if kind == "stock":
                    # the entries the caller's dict held when the tree was built (+ children iff the node has children)
                    exp = dict(U.snap[U.index(n._data)][1])
                    got = {k: v for k, v in d.items() if k != "children"}
                    if jv_sx(got) != jv_sx(exp) or ("children" in d) != bool(n._children):
                        return f"mirror keys: {w}: keys {sorted(d.keys())} expected {sorted(exp) + (['children'] if n._children else [])}"
                    if n._children:
                        r = mirror(n._children, d["children"], w)
                        if r:
                            return r
                    continue
                custom = is_custom(n)
                keys = {"data"}
                if kind in ("new", "newdrop"):
                    keys.add("x")
                if kind in ("extra", "guid"):
                    keys.add("t")
                idkey = "g" if kind == "guid" else "data_id"
                if custom and kind != "newdrop":
                    keys.add(idkey)
                if n._children:
                    keys.add("children")
                if set(d.keys()) != keys:
                    return f"mirror keys: {w}: keys {sorted(d.keys())} expected {sorted(keys)}"
                exp = self.expected_data(kind, n, U)
                if jv_sx(d["data"]) != jv_sx(exp):
                    return f"mirror data: {w}: {d['data']!r} expected {exp!r}"
                if idkey in keys and (d[idkey] != n._data_id or type(d[idkey]) is not type(n._data_id)):
                    return f"mirror data_id: {w}: {d[idkey]!r} expected {n._data_id!r}"
                if n._children:
                    r = mirror(n._children, d["children"], w)
                    if r:
                        return r
            return None

        r = mirror(root._children or [], dump, "")
        if r:
            return r

        # Node.to_dict of a node = the dict at that node's place in the dump
        def dict_at(n):
            path = []
            while n is not root:
                sibs = n._parent._children
                path.append(next(i for i, c in enumerate(sibs) if c is n))
                n = n._parent
            cur = dump
            for depth, i in enumerate(reversed(path)):
                cur = cur[i] if depth == 0 else cur["children"][i]
            return cur

        for n, sd in zip(subs, sub_dumps):
            if jv_sx(sd) != jv_sx(dict_at(n)):
                return f"to_dict: node {H.nid(n)} differs from its place in to_dict_list"

        # (b) round trip
        strings_only = all(isinstance(n._data, str) for n in B.all_nodes(root))
        hyp = (kind == "none" and strings_only) or kind in ("set", "wrap", "new", "extra", "guid", "tuple")

        def first_refusal(dl):
            """what from_dict has to refuse first, items taken in pre-order: 7 = an item without data_id whose data is
            unhashable (no default id), 1 = an item whose effective id is already taken by an earlier sibling"""
            ids = []
            for d in dl:
                if item_id(kind, d) is not None:
                    e = item_id(kind, d)
                else:
                    e = safe_hash(decode_item(kind, d, U))
                    if e == -1:
                        return 7
                if any(e == x and type(e) is type(x) for x in ids):
                    return 1
                ids.append(e)
                if d.get("children"):
                    r = first_refusal(d["children"])
                    if r:
                        return r
            return None

        want_err = first_refusal(wire)
        if hyp and want_err:
            return f"oracle: a valid tree's dump must be loadable, reference says {H.ERR_NAMES.get(want_err)}"
        if is_err(rebuilt):
            if hyp:
                return f"round trip: from_dict raised {H.ERR_NAMES.get(rebuilt[1])} on the dump of a valid tree"
            if rebuilt[1] == want_err:
                return None   # outside the property's domain (str() merged two siblings / the mapper dropped a needed id)
            return f"round trip: from_dict raised {H.ERR_NAMES.get(rebuilt[1])}, expected {H.ERR_NAMES.get(want_err, 'success')}"
        if want_err:
            return f"round trip: from_dict accepted an input it has to refuse with {H.ERR_NAMES.get(want_err)}"

        O = []
        R = []

        def iso(oc, rc, rparent, where):
            if len(oc) != len(rc):
                return f"round trip shape: {where}: {len(rc)} children rebuilt for {len(oc)}"
            for k, (o, r) in enumerate(zip(oc, rc)):
                w = f"{where}/{k}"
                if r._parent is not rparent:
                    return f"round trip shape: {w}: parent pointer"
                O.append(o)
                R.append(r)
                if kind == "stock":
                    if not isinstance(r._data, DictWrapper) or r._data._dict != U.snap[U.index(o._data)][1]:
                        return f"round trip data: {w}: {r._data!r} for {o._data!r}"
                elif kind == "none":
                    if type(r._data) is not str or r._data != str(o._data):
                        return f"round trip data: {w}: {r._data!r} for {o._data!r}"
                else:
                    if type(r._data) is not type(o._data) or r._data != o._data:
                        return f"round trip data: {w}: {r._data!r} for {o._data!r}"
                custom = is_custom(o)
                if hyp or (custom and kind not in ("newdrop", "stock")):
                    want = o._data_id
                else:
                    want = hash(r._data)
                if r._data_id != want or type(r._data_id) is not type(want):
                    return f"round trip data_id: {w}: {r._data_id!r} expected {want!r}"
                e = iso(o._children or [], r._children or [], r, w)
                if e:
                    return e
            return None

        e = iso(root._children or [], rebuilt._root._children or [], rebuilt._root, "")
        if e:
            return e
        if rebuilt.count != len(R):
            return f"round trip: rebuilt tree counts {rebuilt.count} nodes, {len(R)} reachable"
        if kind == "none" and strings_only:
            # the other direction: the dump is canonical, so dumping the rebuilt tree reproduces it
            again = call(lambda: rebuilt.to_dict_list())
            if is_err(again) or jv_sx(again) != jv_sx(dump):
                return "canonical: to_dict_list(from_dict(d)) differs from d"
        if hyp:
            # clone groups = the same partition of positions, as the trees' own indexes see it
            for i in range(len(O)):
                go = {id(x) for x in tree.find_all(data_id=O[i]._data_id)}
                gr = {id(x) for x in rebuilt.find_all(data_id=R[i]._data_id)}
                po = {j for j in range(len(O)) if id(O[j]) in go}
                pr = {j for j in range(len(R)) if id(R[j]) in gr}
                if po != pr or i not in po:
                    return f"round trip clones: position {i}: group {sorted(pr)} expected {sorted(po)}"
        return None

    def oracle_load(self, obj, rebuilt):
        items = item_dicts(obj)

        nids = [it["node_id"] for it in items if it.get("node_id") is not None]
        nids_ok = all(isinstance(x, int) and not isinstance(x, bool) and x != 0 for x in nids) and len(set(nids)) == len(nids)
        if all(isinstance(x, int) for x in nids) and not is_err(rebuilt):   # bool is an int: int(True) == 1
            vals = [int(x) for x in nids]
            if 0 in vals or len(set(vals)) != len(vals):
                return "from_dict: zero or duplicate node_id accepted"

        def wf(l):
            return nids_ok and isinstance(l, list) and all(
                isinstance(it, dict) and "data" in it and isinstance(it["data"], (str, int)) and not isinstance(it["data"], bool)
                and (it.get("data_id") is None or (isinstance(it["data_id"], (str, int)) and not isinstance(it["data_id"], bool)))
                and (not it.get("children") or wf(it["children"])) for it in l)

        if not wf(obj):
            if not is_err(rebuilt) and (any(not isinstance(it, dict) for it in obj)
                                        or any(isinstance(it, dict) and "data" not in it for it in items)):
                return "from_dict: malformed item accepted"
            return None

        def eff(d):
            return d["data_id"] if d.get("data_id") is not None else hash(d["data"])

        def collision(dl):
            ids = []
            for d in dl:
                e = eff(d)
                if any(e == x and type(e) is type(x) for x in ids):
                    return True
                ids.append(e)
                if d.get("children") and collision(d["children"]):
                    return True
            return False

        if collision(obj):
            if not (is_err(rebuilt) and rebuilt[1] == 1):
                return "from_dict: duplicate sibling data_id not refused with UniqueConstraintError"
            return None
        if is_err(rebuilt):
            return f"from_dict: raised {H.ERR_NAMES.get(rebuilt[1])} on a well-formed input"

        def same(dl, rc, where):
            if len(dl) != len(rc):
                return f"from_dict shape: {where}"
            for k, (d, r) in enumerate(zip(dl, rc)):
                if r._data != d["data"] or type(r._data) is not type(d["data"]):
                    return f"from_dict data: {where}/{k}"
                if r._data_id != eff(d):
                    return f"from_dict data_id: {where}/{k}: {r._data_id!r} expected {eff(d)!r}"
                if d.get("node_id") is not None and r._node_id != d["node_id"]:
                    return f"from_dict node_id: {where}/{k}: {r._node_id!r} expected {d['node_id']!r}"
                e = same(d.get("children") or [], r._children or [], f"{where}/{k}")
                if e:
                    return e
            return None
        return same(obj, rebuilt._root._children or [], "")


CORPUS = [
    # D30b: unhashable data stored the documented way (explicit data_id): to_dict evaluates hash(data)
    dict(univ=["u:1", "s:a"], nodes=[[0, None, "{123-456}", [[1, None, None, []]]]], sm="set"),
    dict(univ=["m:2"], nodes=[[0, None, 7, []]], sm="none"),
    # D30: to_dict_list on a tree emptied by clear() / by removing its last top-level node
    dict(univ=["s:a", "s:b"], nodes=[[0, None, None, [[1, None, None, []]]]], sm="none", prep="clear"),
    dict(univ=["s:a"], nodes=[[0, None, None, []]], sm="none", prep="remove_tops"),
    # falsy explicit ids on nested levels, an explicit id equal to the default, clones
    dict(univ=["s:a", "s:b"], sm="none",
         nodes=[[0, None, 0, [[1, None, "", [[0, None, 0, []]]], [0, None, None, []]]], [1, None, None, [[0, None, "", []]]]]),
]

LOADS = [
    dict(load=[]),
    dict(load=[{"data": "a"}]),
    dict(load=[{"data": "a"}, {"data": "a"}]),
    dict(load=[{"data": "a"}, {"data": "b", "children": [{"data": "a"}, {"data": "b"}, {"data": "a"}]}]),
    dict(load=[{"data": "a", "data_id": 1}, {"data": "a", "data_id": "1"}, {"data": "b", "data_id": 1}]),
    dict(load=[{"data": "a", "data_id": 0}, {"data": "a", "data_id": ""}, {"data": "a", "data_id": None}, {"data": "a", "data_id": False}]),
    dict(load=[{"data": "a", "children": []}, {"data": "b", "children": None}, {"data": "c", "children": {}}]),
    dict(load=[{"data": "a", "children": [{"data": "x"}]}, {"children": [{"data": "y"}]}]),
    dict(load=[{"data": "a", "children": [{"data": "x"}, {"data": "x"}]}, {"nodata": 1}]),
    dict(load=[{"data": 5}, {"data": 5, "data_id": "five"}, {"data": None}, {"data": True}]),
    dict(load=[{"data": [1, 2]}]),
    dict(load=[{"data": {"a": 1}}]),
    dict(load=[{"data": "a", "data_id": [1]}]),
    dict(load=[{"data": "a", "extra": 1, "children": [{"data": "a", "data_id": 7, "children": [{"data": "a"}]}]}]),
    dict(load=[{"data": 1}, {"data": True}]),
    dict(load=[{"data": -1}, {"data": -2}]),
    # explicit node ids: kept, int()-converted, refused when zero / used twice; order of the checks
    dict(load=[{"data": "a", "node_id": 5}, {"data": "b", "node_id": 6, "children": [{"data": "a", "node_id": 7}]}]),
    dict(load=[{"data": "a", "node_id": 0}]),
    dict(load=[{"data": "a", "node_id": 5}, {"data": "b", "node_id": 5}]),
    dict(load=[{"data": "a", "node_id": 5, "children": [{"data": "b", "node_id": 5}]}]),
    dict(load=[{"data": "a", "node_id": 5, "children": [{"data": "b", "node_id": 6}]}, {"data": "c", "node_id": 6}]),
    dict(load=[{"data": "a", "node_id": "12"}, {"data": "b", "node_id": "012"}]),
    dict(load=[{"data": "a", "node_id": "x"}]),
    dict(load=[{"data": "a", "node_id": ""}]),
    dict(load=[{"data": "a", "node_id": [1]}]),
    dict(load=[{"data": "a", "node_id": {}}]),
    dict(load=[{"data": "a", "node_id": True}, {"data": "b", "node_id": 1}]),
    dict(load=[{"data": "a", "node_id": False}]),
    dict(load=[{"data": "a", "node_id": None}, {"data": "b", "node_id": -3}]),
    dict(load=[{"data": "a", "node_id": 5}, {"data": "a", "node_id": 5}]),
    dict(load=[{"data": "a", "node_id": 0, "data_id": [1]}]),
    dict(load=[{"data": "a", "node_id": "x", "data_id": [1]}]),
    dict(load=[{"data": "a", "node_id": 3, "data_id": [1]}]),
    dict(load=[{"data": "a"}, {"data": "a", "node_id": 0}]),
    dict(load=[{"data": [1], "node_id": 0}]),
    dict(load=[{"data": [1], "node_id": 0, "data_id": 4}]),
    dict(load=[{"data": [1], "data_id": 5}, {"data": {"a": 1}, "data_id": "k", "children": [{"data": "x"}]}]),
    # items that are not dicts; "children" values that are not lists
    dict(load=[5]),
    dict(load=[{"data": "a"}, "a"]),
    dict(load=[None]),
    dict(load=[[{"data": "a"}]]),
    dict(load=[{"data": "a", "children": "ab"}, {"data": "b"}]),
    dict(load=[{"data": "a", "children": {"k": 1}}]),
    dict(load=[{"data": "a", "children": 5}]),
    dict(load=[{"data": "a", "children": True}]),
    dict(load=[{"data": "a", "children": 0}, {"data": "b", "children": ""}, {"data": "c", "children": False}]),
    dict(load=[{"data": "a", "children": [{"data": "b"}, 5]}, {"data": "a"}]),
]

PROP = Prop()

import parts  # noqa: E402
import parts_misc  # noqa: E402

parts.attach(PROP, parts_misc.MAPPER, parts_misc.COMMONMISC)   # common.call_mapper; check_python_version and the exception hierarchy (models Forest/MiscMapper.v, MiscCommon.v; theorems at the end of Properties/C14.v)
