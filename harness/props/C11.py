"""C11 — diff() marks exactly the one-sided children and projects back to both inputs."""
from __future__ import annotations

import itertools

import build as B
import common as H
from common import Case, Tree
from nutree.diff import DiffClassification as DC
from nutree.diff import diff_node_formatter
from nutree.common import UniqueConstraintError

GONE = (DC.REMOVED, DC.MOVED_TO)
NEW = (DC.ADDED, DC.MOVED_HERE)

# ---------------------------------------------------------------------------
# harness-side instrumentation: remember what t2 looked like when diff_tree()
# handed it to Tree.filter (reduce=True), so that the reduce law can be checked
# against the unreduced result of the *same* run (the set iteration order of
# the re-classification differs between runs).
# ---------------------------------------------------------------------------
_SNAP = {"on": False, "val": None}
_orig_filter = Tree.filter


def _snap(node):
    return [(c._data, dict(c._meta) if c._meta else None, _snap(c)) for c in (node._children or [])]


def _filter_wrapper(self, predicate):
    if _SNAP["on"]:
        _SNAP["val"] = (dict(self._root._meta) if self._root._meta else None, _snap(self._root))
    return _orig_filter(self, predicate)


Tree.filter = _filter_wrapper


def live(node):
    return [(c._data, dict(c._meta) if c._meta else None, live(c)) for c in (node._children or [])]


# ---------------------------------------------------------------------------
# enumeration of small labelled forests (sibling-unique labels)
# ---------------------------------------------------------------------------
def labelled_forests(n, k):
    """all forests with exactly n nodes, labels 0..k-1, no two siblings with one label; nested [lbl, [kids]]"""
    out = []
    for shape in H.forests(n):
        for labs in itertools.product(range(k), repeat=n):
            it = iter(labs)

            def go(f):
                res = []
                seen = set()
                for t in f:
                    l = next(it)
                    if l in seen:
                        raise ValueError
                    seen.add(l)
                    res.append([l, go(t)])
                return res

            try:
                out.append(go(shape))
            except ValueError:
                pass
    return out


def pre_labels(f):
    for l, kids in f:
        yield l
        yield from pre_labels(kids)


def canonical_pair(f0, f1):
    """labels occur in first-occurrence order 0,1,2.. over t0 then t1 (one representative per renaming)"""
    nxt = 0
    for l in itertools.chain(pre_labels(f0), pre_labels(f1)):
        if l > nxt:
            return False
        if l == nxt:
            nxt += 1
    return True


def to_nodes(f):
    return [[l, None, None, to_nodes(k)] for l, k in f]


LABELS = ["s:a", "s:ab", "s:b", "s:ba", "s:c", "s:abc"]   # with prefix relations between the names


# ---------------------------------------------------------------------------
# random trees and mutations, on descriptions
# ---------------------------------------------------------------------------
def rand_nodes(rng, n, k):
    nodes = []
    allp = [nodes]
    for _ in range(n):
        for _try in range(10):
            p = rng.choice(allp)
            l = rng.randrange(k)
            if all(c[0] != l for c in p):
                c = [l, None, None, []]
                p.insert(rng.randint(0, len(p)), c)
                allp.append(c[3])
                break
    return nodes


def child_lists(nodes):
    out = [nodes]
    for c in nodes:
        out.extend(child_lists(c[3]))
    return out


def clone_nodes(nodes):
    return [[l, k, d, clone_nodes(ch)] for l, k, d, ch in nodes]


def contains(nodes, target):
    return any(ch is target or contains(ch, target) for _, _, _, ch in nodes)


def mutate(rng, nodes, k, steps):
    t = clone_nodes(nodes)
    for _ in range(steps):
        lists = child_lists(t)
        op = rng.choice(["add", "remove", "move", "swap", "relabel", "sort", "move"])
        if op == "add":
            p = rng.choice(lists)
            l = rng.randrange(k)
            if all(c[0] != l for c in p):
                p.insert(rng.randint(0, len(p)), [l, None, None, []])
        elif op == "remove":
            p = rng.choice(lists)
            if p:
                c = p.pop(rng.randrange(len(p)))
                if rng.random() < 0.3:  # keep children when they fit
                    for g in c[3]:
                        if all(x[0] != g[0] for x in p):
                            p.append(g)
        elif op == "move":
            p = rng.choice(lists)
            if p:
                i = rng.randrange(len(p))
                c = p[i]
                q = rng.choice(lists)
                if q is p or q is c[3] or contains(c[3], q):
                    continue
                if all(x[0] != c[0] for x in q):
                    p.pop(i)
                    q.insert(rng.randint(0, len(q)), c)
        elif op == "swap":
            p = rng.choice(lists)
            if len(p) >= 2:
                i, j = rng.sample(range(len(p)), 2)
                p[i], p[j] = p[j], p[i]
        elif op == "relabel":
            p = rng.choice(lists)
            if p:
                c = rng.choice(p)
                l = rng.randrange(k)
                if all(x[0] != l for x in p):
                    c[0] = l
        elif op == "sort":
            p = rng.choice(lists)
            p.sort(key=lambda c: c[0], reverse=rng.random() < 0.5)
    return t


CONFIGS = [(False, False), (True, False), (False, True), (True, True)]


class Prop:
    id = "C11"
    coq_prop = "Properties/C11.v"
    case_module = "CaseC11"
    case_vo = "theories/Cases/CaseC11.vo"
    run_fn = "run11"
    shard = 250
    rule = ("a case is one pair (t0, t1) of trees over a shared alphabet of strings (names with prefix relations), run through "
            "Tree.diff with ordered x reduce in {F,T}^2 (4 calls per case; result forest, root meta, diff_node_formatter labels, both "
            "inputs before/after).  Enumerated: every pair of sibling-unique labelled forests with <= 3 nodes each over 3 labels, one "
            "representative per renaming of the labels (thorough: plus all pairs (4 nodes, <= 3 nodes) and seeded samples of the "
            "(<= 3, 4) and (4, 4) pairs); random: mutated copies (add/remove/move/swap/relabel/sort, 0-6 steps) of random trees with up "
            "to 14 (thorough 30) nodes over 3-6 labels, unrelated random pairs, identical copies, the same tree object on both sides; pairs of TypedTrees with random kinds; pairs built with a calc_data_id hook or explicit per-label data_ids (ids agree with the data but are not hash(data)); pairs whose nodes carry user metadata; every diff is run twice on the same inputs and each input is diffed against a fresh copy of itself; histories: all diffs in both directions first, then in-place edits of the same tree objects (re-order, rename, move-away + add: child counts kept), then the observed diffs of the CURRENT inputs; "
            "plus an out-of-domain stream (equal-comparing objects under explicit data_ids, ids shared by unequal data; diff may lose or "
            "duplicate nodes) on which model = implementation and 'inputs unchanged' are checked.  The oracle is "
            "applied exactly on the pairs inside the theorems' domain (computed independently on both sides).  distinct = distinct "
            "(t0, t1); non-trivial = the result carries at least one mark")
    exhaustive_note = "all pairs of labelled forests <= 3 nodes over 3 labels up to renaming x 4 configurations"
    assumptions = [
        "identity of nodes is the allocation index recorded by a harness-side wrapper of Node.__init__",
        "the iteration order of the set added_nodes (id() values) is not reproduced: the model receives as hints the t1 nodes whose "
        "copies the implementation marked MOVED_HERE and processes them first; agreement then shows the implementation's output is "
        "the model's output for one admissible iteration order (the theorems hold for every order)",
        "Tree.filter is wrapped inside the harness process to snapshot t2 before the reduce step of the same run",
        "'neither input is modified' is observed as a deep snapshot of both inputs (node and data identities, data_id, kind, contents and "
        "object identity of every meta dict) before the first and after every call",
        "outside the theorems' domain a t1 branch can be copied twice (top matched by == and added by data_id); the model identifies "
        "result nodes by their source and cannot tell the copies apart in the re-classification: such a case is not compared "
        "when a MOVED_TO mark carries a data_id of that branch (stat dup_excluded); inside the domain this cannot happen "
        "(C11_result_identities_distinct)",
    ]
    manifest = dict(
        text=("Machine-checked theorems (Coq 8.16, no axioms) about an executable model of nutree/diff.py (find_child, compare with the "
              "literal branch structure, copy_children, the set-ordered re-classification with the iteration order as an explicit "
              "parameter, reduce through the boolean in-place filter, the uniqueness check of the result tree, "
              "diff_node_formatter): for sibling-unique trees on which == and data_id agree and EVERY iteration order, identical inputs "
              "give an unmarked copy, dropping REMOVED/MOVED_TO gives t1's parent-child relation (paths of data objects, as a "
              "permutation), dropping ADDED/MOVED_HERE gives t0's child lists in order below every node present in both, marks sit "
              "exactly on the one-sided children, inside an added branch the first level is marked and deeper nodes are not (or MOVED_HERE), order marks are the true old/new index and appear only when ordered (dc_renumbered "
              "iff a child is shifted); for ANY two forests diff does not raise (inputs with sibling-unique data_ids), MOVED_HERE and MOVED_TO come in pairs with equal "
              "data_id and reduce keeps exactly the marked nodes and their ancestors (pre-order with depths); complete iteration orders "
              "leave no REMOVED mark that an added node could explain.  Tied to /repo on every run by a correspondence check (all pairs "
              "of small forests x 4 configurations, mutated random trees, typed trees, an out-of-domain stream) and an independent "
              "Python oracle of the projection laws, the marks, the order marks, the move pairs, reduce and 'inputs unchanged'."),
        note=("Trusted: Coq kernel + vm_compute; hand-written model theories/Forest/Diff.v, DiffFormat.v (tied by the correspondence only); "
              "harness. The property quantifies over trees 'over a shared label alphabet': equal labels <=> equal data <=> equal data_id "
              "(did_is_data); with it the domain costs nothing for reachable trees (C11_reachable_domain).  Outside it the library "
              "really misbehaves and the model reproduces it (Examples C11_outside_domain_node_lost, _self_diff_marks, "
              "_branch_copied_twice: explicit data_ids / calc_data_id that disagree with ==); the one case reachable with default ids, "
              "a hash collision between unequal labels (hash(-1) == hash(-2)), is the KNOWN FINDING D91 (C11_projection_t1_unrestricted_refuted). "
              "'Inputs unchanged' is a fact of the model being a pure function; for the implementation it is observed (both "
              "inputs before/after every call). The set iteration order of the implementation is not reproduced but witnessed: the "
              "harness passes the nodes marked MOVED_HERE as hints, the model processes them first (a permutation of added_nodes, "
              "proved). Marks inside an added branch (ADDED on its first level only, nothing below) are modelled as they are; the "
              "theorems speak about the children of nodes present in both trees, as the property does. Repair D62 (typed trees "
              "crashed) is part of the modelled code."),
        technique="Coq proof about an executable Gallina model + differential correspondence check (vm_compute) + Python oracle",
        design_ref="DESIGN.md section 6 (C11)",
    )

    # ------------------------------------------------------------------
    def descs(self, tier, rng):
        yield from CORPUS
        small = {n: labelled_forests(n, 3) for n in range(0, 5)}
        upto3 = [f for n in range(0, 4) for f in small[n]]
        univ3 = LABELS[:3]
        for f0 in upto3:
            for f1 in upto3:
                if canonical_pair(f0, f1):
                    yield dict(univ=univ3, t0=to_nodes(f0), t1=to_nodes(f1))
        if tier == "thorough":
            for f0 in small[4]:
                for f1 in upto3:
                    if canonical_pair(f0, f1):
                        yield dict(univ=univ3, t0=to_nodes(f0), t1=to_nodes(f1))
            for _ in range(1500):
                f0, f1 = rng.choice(upto3), rng.choice(small[4])
                yield dict(univ=univ3, t0=to_nodes(f0), t1=to_nodes(f1))
            for _ in range(1500):
                f0, f1 = rng.choice(small[4]), rng.choice(small[4])
                yield dict(univ=univ3, t0=to_nodes(f0), t1=to_nodes(f1))
        nrand = 140 if tier == "quick" else 1500
        nmax = 14 if tier == "quick" else 30
        for i in range(nrand):
            k = rng.choice([3, 3, 4, 6])
            n = rng.randint(1, nmax)
            t0 = rand_nodes(rng, n, k)
            r = rng.random()
            if r < 0.75:
                t1 = mutate(rng, t0, k, rng.randint(0, 6))
            elif r < 0.78:
                t1 = clone_nodes(t0)
            elif r < 0.8:
                yield dict(univ=LABELS[:k], t0=t0, t1=clone_nodes(t0), alias=True)
                continue
            else:
                t1 = rand_nodes(rng, rng.randint(0, nmax), k)
            yield dict(univ=LABELS[:k], t0=t0, t1=t1)
        # inputs whose nodes carry user metadata (on changed and on unchanged nodes); diff must neither copy nor touch it
        nmeta = 120 if tier == "quick" else 800
        small_all = [f for n in range(1, 4) for f in small[n]]
        for i in range(nmeta):
            k = rng.choice([3, 3, 4])
            if i % 2 == 0:
                t0 = to_nodes(rng.choice(small_all))
                t1 = mutate(rng, t0, 3, rng.randint(0, 3)) if rng.random() < 0.6 else to_nodes(rng.choice(small_all))
                k = 3
            else:
                t0 = rand_nodes(rng, rng.randint(2, 10), k)
                t1 = mutate(rng, t0, k, rng.randint(0, 5))

            def um(nodes):
                n = B.nodes_size(nodes)
                return {str(j): rng.choice([{"u": 1}, {"note": "x", "n": 2}, {"flag": True}])
                        for j in range(n) if rng.random() < 0.6}

            d = dict(univ=LABELS[:k], t0=t0, t1=t1, um0=um(t0), um1=um(t1))
            if i % 7 == 0:
                d = dict(d, typed=True, t0=[[l, "k1", x, c] for l, _, x, c in t0], t1=[[l, "k1", x, c] for l, _, x, c in t1])
            yield d
        # histories: diff, edit the same tree objects in place (mostly keeping the child counts), diff again
        nhist = 160 if tier == "quick" else 800
        for i in range(nhist):
            k = rng.choice([3, 4, 4, 6])
            t0 = rand_nodes(rng, rng.randint(2, 9), k)
            t1 = mutate(rng, t0, k, rng.randint(0, 2))
            edits = []
            for _ in range(rng.randint(1, 3)):
                op = rng.choice(["sort", "rotate", "rotate", "rename", "move_add", "move_add", "swap_data"])
                which = rng.choice([1, 1, 0])
                if op == "sort":
                    edits.append([op, which, rng.randint(-1, 8), rng.randint(0, 1)])
                elif op == "rotate":
                    edits.append([op, which, rng.randint(-1, 8)])
                elif op == "rename":
                    edits.append([op, which, rng.randint(0, 8), rng.randrange(k)])
                elif op == "move_add":
                    edits.append([op, which, rng.randint(0, 8), rng.randint(0, 8), rng.randrange(k)])
                else:
                    edits.append([op, which, rng.randint(0, 8)])
            yield dict(univ=LABELS[:k], t0=t0, t1=t1, edits=edits)
        # typed trees (both inputs TypedTree; kinds play no role in the comparison and are copied to the result)
        ntyped = 50 if tier == "quick" else 300
        for i in range(ntyped):
            k = rng.choice([3, 4])
            t0 = rand_nodes(rng, rng.randint(1, 10), k)
            t1 = mutate(rng, t0, k, rng.randint(0, 5))

            def kinds(nodes):
                return [[l, rng.choice(["k1", "k2"]), d, kinds(ch)] for l, _, d, ch in nodes]

            yield dict(univ=LABELS[:k], t0=kinds(t0), t1=kinds(t1), typed=True)
        # custom data_ids that agree with the data but are NOT hash(data): a calc_data_id hook on both input trees, or
        # explicit ids chosen per label (inside the domain: all laws, the move pairing in particular, apply)
        ncust = 160 if tier == "quick" else 1000
        for i in range(ncust):
            k = rng.choice([3, 4, 6])
            t0 = rand_nodes(rng, rng.randint(2, 10), k)
            t1 = mutate(rng, t0, k, rng.randint(1, 5))

            def with_ids(nodes, kind):
                return [[l, kind, f"id-{l}", with_ids(ch, kind)] for l, _, _, ch in nodes]

            v = i % 4
            if v == 0:
                yield dict(univ=LABELS[:k], t0=t0, t1=t1, calc="name")
            elif v == 1:
                yield dict(univ=LABELS[:k], t0=with_ids(t0, None), t1=with_ids(t1, None))
            elif v == 2:
                yield dict(univ=LABELS[:k], t0=with_ids(t0, "k1"), t1=with_ids(t1, "k1"), typed=True)
            else:
                yield dict(univ=LABELS[:k], t0=[[l, "k1", d, c] for l, _, d, c in t0], t1=[[l, "k1", d, c] for l, _, d, c in t1],
                           typed=True, calc="name")
        # known finding D91: default-id trees over an alphabet with a hash collision between unequal labels (-1, -2)
        ncoll = 25 if tier == "quick" else 150
        for i in range(ncoll):
            t0 = rand_nodes(rng, rng.randint(1, 5), 3)
            t1 = mutate(rng, t0, 3, rng.randint(1, 3))
            yield dict(univ=["i:-1", "i:-2", "s:a"], t0=t0, t1=t1)
        # out of the theorem's domain: equal-comparing objects under explicit ids
        nout = 60 if tier == "quick" else 300
        for i in range(nout):
            univ = ["e:1", "e:1", "e:2", "s:a", "i:1", "t:1"]
            n = rng.randint(1, 6)

            pool = rng.random() < 0.6
            pool_map = [rng.choice(["k0", "k1", "k2", None, None]) for _ in range(6)]

            def lab(nodes, pfx):
                out = []
                for j, (l, _, _, ch) in enumerate(nodes):
                    if pool:   # ids from a small pool, unrelated to the data: equal ids on unequal data and vice versa
                        did = pool_map[l]
                    else:
                        did = f"{pfx}{j}" if (l < 3 and rng.random() < 0.7) else None
                    out.append([l, None, did, lab(ch, pfx + str(j))])
                return out

            t0 = rand_nodes(rng, n, 6)
            t1 = mutate(rng, t0, 6, rng.randint(0, 3))
            yield dict(univ=univ, t0=lab(t0, "x"), t1=lab(t1, "x"), outside=True)

    def shrink_candidates(self, desc):
        for nodes in B.drop_one_node(desc["t0"]):
            yield dict(desc, t0=nodes)
        for nodes in B.drop_one_node(desc["t1"]):
            yield dict(desc, t1=nodes)

    # ------------------------------------------------------------------
    def build_pair(self, desc):
        U = B.make_universe(desc["univ"])
        base = H.alloc_count()
        typed = bool(desc.get("typed"))
        cls = H.TypedTree if typed else Tree
        # trees built with a calc_data_id hook (desc["calc"]: "name" -> data_id = str(data)): ids differ from hash(data)
        calc = B.calc_fn(desc.get("calc"))
        t0 = cls("T0", calc_data_id=calc)
        t1 = cls("T1", calc_data_id=calc)
        try:
            B.add_nodes(t0._root, desc["t0"], U, typed)
            if desc.get("alias"):
                t1 = t0     # tree.diff(tree): the same object on both sides
            else:
                B.add_nodes(t1._root, desc["t1"], U, typed)
        except Exception:
            return None
        # user metadata on some nodes of the inputs: {"<pre-order index>": {key: value}}
        for tree, key in ((t0, "um0"), (t1, "um1")):
            if key == "um1" and desc.get("alias"):
                continue
            um = desc.get(key) or {}
            if um:
                nodes = B.all_nodes(tree._root)
                for idx, d in um.items():
                    if int(idx) < len(nodes):
                        nodes[int(idx)].update_meta(dict(d))
        return U, t0, t1, base

    def run(self, desc) -> Case:
        built = self.build_pair(desc)
        if built is None:
            # description violates sibling uniqueness (possible after shrinking / out-of-domain labelling): trivial case
            return Case(desc=desc, coq_input="(([], [], []) : case11)", impl_obs=[[], [], [], True, True], nontrivial=False, key=H.digest(desc))
        U, t0, t1, base = built
        # HISTORY: diff first (both directions, all configurations), then edit the SAME tree objects in place, then run the
        # observed diffs: the result must be the diff of the CURRENT inputs (model, oracle), whatever an earlier call saw
        edits = desc.get("edits")
        if edits:
            for o, r in CONFIGS:
                for a, b in ((t0, t1), (t1, t0)):
                    try:
                        a.diff(b, ordered=o, reduce=r)
                    except Exception:  # noqa: BLE001
                        pass
            for e in edits:
                apply_edit(e, t0, t1, U)
        # node identities local to the case (allocation index minus the index at the start of the case): unary nat in Coq
        in0, in1 = coq_forest(t0._root, U, base), coq_forest(t1._root, U, base)
        before = (sx_forest(t0._root, U, base), sx_forest(t1._root, U, base))
        deep_before = (deep_snapshot(t0), deep_snapshot(t1))
        outside = not in_domain(t0._root._children or [], t1._root._children or [])
        # the no-error theorem needs only well-formed inputs: no two siblings with one data_id (Tree._register's own rule)
        may_not_raise = dids_unique_everywhere(t0) and dids_unique_everywhere(t1)
        cfgs = desc.get("configs") or CONFIGS
        obs_runs = []
        coq_cfgs = []
        moved_to_dids = set()
        fails = []
        kfails = []
        default_ids = not any_explicit_id(desc["t0"]) and not any_explicit_id(desc["t1"]) and not desc.get("calc")
        marks = 0
        ambiguous = False
        errors = 0
        def call(ordered, reduce):
            _SNAP["on"], _SNAP["val"] = True, None
            try:
                r, e = t0.diff(t1, ordered=ordered, reduce=reduce), None
            except Exception as ex:  # noqa: BLE001
                r, e = None, ex
            finally:
                _SNAP["on"] = False
            # "neither input is modified": identity, payload, FULL meta contents and the identity of the meta dict objects
            if (deep_snapshot(t0), deep_snapshot(t1)) != deep_before:
                fails.append(f"inputs-modified: ordered={ordered} reduce={reduce}")
            return r, e, _SNAP["val"]

        for ordered, reduce in cfgs:
            res, err, snap = call(ordered, reduce)
            after = (sx_forest(t0._root, U, base), sx_forest(t1._root, U, base))
            if after != before:
                fails.append(f"inputs-modified: ordered={ordered} reduce={reduce}")
            if err is not None:
                errors += 1
                obs_runs.append([-1, H.err_class(err)])
                coq_cfgs.append(f"({H.coq_bool(ordered)}, {H.coq_bool(reduce)}, [])")
                if may_not_raise or not isinstance(err, UniqueConstraintError):
                    fails.append(f"raised: {type(err).__name__} ordered={ordered} reduce={reduce}")
                continue
            try:   # the result is a well-formed tree of its own (registry, index, parent links)
                res._self_check()
            except Exception as e:  # noqa: BLE001
                fails.append(f"selfcheck: result tree fails _self_check ({type(e).__name__}) ordered={ordered} reduce={reduce}")
            moved_to_dids.update(n._data_id for n in B.all_nodes(res._root) if n.get_meta("dc") == DC.MOVED_TO)
            hints = [h - base for h in compute_hints(res, t0, t1)]
            coq_cfgs.append(f"({H.coq_bool(ordered)}, {H.coq_bool(reduce)}, {H.coq_list(H.z(h) for h in hints)})")
            rm = res._root._meta or {}
            labels = [diff_node_formatter(n) for n in B.all_nodes(res._root)] if (ordered and not reduce) else []
            obs_runs.append([enc_meta(rm), obs_forest(res._root, U), labels])
            if outside and default_ids:
                # KNOWN FINDING D91: default-id trees whose alphabet has two unequal labels with one hash (CPython:
                # hash(-1) == hash(-2)): children are matched by ==, "added" is decided by data_id.  The oracle is the
                # property's; its failures here are the finding (the model reproduces the behaviour exactly).
                f, st = oracle(t0, t1, res, ordered, reduce, snap)
                marks += st["marks"]
                if f:
                    kfails.append(f"{f} [ordered={ordered} reduce={reduce}]")
            if not outside:
                f, st = oracle(t0, t1, res, ordered, reduce, snap)
                f = f or check_kinds(res, t0, t1)
                marks += st["marks"]
                ambiguous = ambiguous or st["ambiguous"]
                if f:
                    fails.append(f"{f} [ordered={ordered} reduce={reduce}]")
                # the same call once more on the same inputs: a history of diffs must not change what a diff reports
                res2, err2, snap2 = call(ordered, reduce)
                if err2 is not None:
                    fails.append(f"raised: second call {type(err2).__name__} ordered={ordered} reduce={reduce}")
                else:
                    f2, _ = oracle(t0, t1, res2, ordered, reduce, snap2)
                    if f2:
                        fails.append(f"second-call: {f2} [ordered={ordered} reduce={reduce}]")
        # ... and against a fresh copy of itself: no marks
        if not fails:
            for t in ([t0] if t1 is t0 else [t0, t1]):
                f3 = self_diff_check(t)
                if f3:
                    fails.append(f3)
                if (deep_snapshot(t0), deep_snapshot(t1)) != deep_before:
                    fails.append("inputs-modified: by diff against a fresh copy")
        # Outside the domain a t1 child can be matched (==) AND added (its data_id is not among p0's): its branch is
        # copied twice.  The model identifies result nodes by their source, so it cannot tell the two copies apart in the
        # re-classification; when that matters (a MOVED_TO mark for a data_id of such a branch) the results are not compared.
        dup_excluded = False
        if outside:
            dd = twice_copied_dids(t0._root, t1._root)
            if dd and (dd & moved_to_dids):
                dup_excluded = True
                obs_runs, coq_cfgs = [], []
        obs = [obs_runs, before[0], before[1], not outside, may_not_raise]
        # the model is compared against the inputs as observed AFTER the calls
        obs[1], obs[2] = sx_in(t0._root, U, base), sx_in(t1._root, U, base)
        coq_input = f"(({in0}, {in1}, {H.coq_list(coq_cfgs)}) : case11)"
        n0, n1 = B.nodes_size(desc["t0"]), B.nodes_size(desc["t1"])
        finding = None
        if kfails and not fails:
            fails, finding = ["known D91 (hash collision between unequal labels): " + kfails[0]], "D91"
        return Case(desc=desc, coq_input=coq_input, impl_obs=obs, oracle_fail="; ".join(fails[:3]) if fails else None,
                    finding=finding, nontrivial=marks > 0, key=H.digest([desc["univ"], desc["t0"], desc["t1"], desc.get("edits")]),
                    stats=dict(n0=min(n0, 16), n1=min(n1, 16), marked=marks > 0, ambiguous=ambiguous, raised=errors > 0,
                               outside=outside, dup_excluded=dup_excluded))


def any_explicit_id(nodes):
    return any(n[2] is not None or any_explicit_id(n[3]) for n in nodes)


def apply_edit(e, t0, t1, U):
    """one in-place edit of an input tree; node positions are pre-order indices (modulo the current size); an edit that the
    library refuses (uniqueness, own branch) is skipped"""
    op, which = e[0], e[1]
    tree = t1 if which == 1 else t0
    nodes = B.all_nodes(tree._root)
    if not nodes:
        return
    try:
        if op == "sort":          # re-order the children of one parent (or the top level): count unchanged
            idx, rev = e[2], e[3]
            p = tree._root if idx < 0 else nodes[idx % len(nodes)]
            p.sort_children(key=lambda n: f"{n.data}", reverse=bool(rev))
        elif op == "rotate":      # last child becomes the first: count unchanged
            idx = e[2]
            p = tree._root if idx < 0 else nodes[idx % len(nodes)]
            ch = p._children or []
            if len(ch) >= 2:
                ch[-1].move_to(p, before=ch[0])
        elif op == "rename":      # another data object on the same node: count unchanged
            n = nodes[e[2] % len(nodes)]
            n.set_data(U.objs[e[3] % len(U.objs)])
        elif op == "move_add":    # move a node away and add a new child to its old parent: count of the old parent unchanged
            n = nodes[e[2] % len(nodes)]
            tgt = nodes[e[3] % len(nodes)]
            old = n._parent
            if tgt is n or tgt.is_descendant_of(n) or tgt is old:
                return
            if any(c._data_id == n._data_id for c in (tgt._children or [])):
                return
            obj = U.objs[e[4] % len(U.objs)]
            if any(c._data == obj for c in (old._children or [])):
                return
            n.move_to(tgt)
            old.add(obj)
        elif op == "swap_data":   # two siblings exchange their data via a third value: count unchanged
            n = nodes[e[2] % len(nodes)]
            sib = n.next_sibling()
            if sib is not None:
                n.move_to(n._parent, before=None)   # n becomes the last child
    except Exception:  # noqa: BLE001
        return


def deep_snapshot(tree):
    """every node of a tree by pointers: identity, data object identity, data_id, kind, identity AND contents of its meta dict"""
    import copy

    out = []

    def go(n, depth):
        for c in (n._children or []):
            m = c._meta
            out.append((depth, id(c), id(c._data), c._data_id, getattr(c, "kind", None),
                        None if m is None else id(m), copy.deepcopy(m)))
            go(c, depth + 1)

    go(tree._root, 0)
    rm = tree._root._meta
    return (None if rm is None else (id(rm), copy.deepcopy(rm)), out)


DIFF_KEYS = ("dc", "dc_renumbered")


def self_diff_check(t):
    """t.diff(fresh copy of t): no marks anywhere, and no metadata at all on the result (the result carries only diff's own)"""
    try:
        c = t.copy()
    except Exception:  # noqa: BLE001
        return None
    if not in_domain(t._root._children or [], c._root._children or []):
        return None
    if shape(t._root) != shape(c._root):
        return None
    for ordered in (False, True):
        try:
            r = t.diff(c, ordered=ordered)
        except Exception as e:  # noqa: BLE001
            return f"raised: {type(e).__name__} in diff against a fresh copy"
        if r._root._meta:
            return f"identical: root meta {r._root._meta} on the diff against a fresh copy"
        for n in B.all_nodes(r._root):
            if n._meta:
                return f"identical: node {n._data!r} carries {n._meta} in the diff against a fresh copy"
    return None


def coq_rt(node, U, base):
    ch = node._children or []
    return f"(Tz {H.nid(node) - base} {H.coq_info(node, U)} {H.coq_list(coq_rt(c, U, base) for c in ch)})"


def coq_forest(root, U, base):
    return H.coq_list(coq_rt(c, U, base) for c in (root._children or []))


def sx_rt(node, U, base):
    """full observation of an input node (identity, payload incl. meta, children): compared before/after in Python"""
    return [H.nid(node) - base, H.sx_info(node, U), [sx_rt(c, U, base) for c in (node._children or [])]]


def sx_forest(root, U, base):
    return [sx_rt(c, U, base) for c in (root._children or [])]


def sx_in(root, U, base):
    """compact observation of an input tree for the model comparison: identity, data object, children"""
    return [[H.nid(c) - base, U.index(c._data), sx_in(c, U, base)] for c in (root._children or [])]


def enc_meta_val(v):
    """metadata values: enum members as [9, value] (as common.meta_val), tuples as [7, *items] (never confusable)"""
    if isinstance(v, tuple):
        return [7] + [enc_meta_val(x) for x in v]
    return H.meta_val(v)


KEYCODE = {"dc": 1, "dc_renumbered": 2}


def enc_meta(meta):
    return [[KEYCODE.get(str(k), str(k)), enc_meta_val(v)] for k, v in (meta or {}).items()]


def obs_D(node):
    """0 = data_id is hash(data) and the node is a plain one (what every node of t2 must be); else the full pair"""
    kind = getattr(node, "kind", None)
    try:
        plain = kind is None and type(node._data_id) is int and node._data_id == hash(node._data)
    except TypeError:
        plain = False
    return 0 if plain else [H.sx_did(node._data_id), H.sx_kind(kind)]


def in_domain(ch0, ch1):
    """the domain of the theorems (DiffProofs.dom), computed from the real objects: no two siblings with == data on either
    side, == of data coincides with equality of data_ids between the two child lists, recursively for the == pairs"""
    for ch in (ch0, ch1):
        for i, a in enumerate(ch):
            for b in ch[i + 1:]:
                if a._data == b._data:
                    return False
    for c0 in ch0:
        for c1 in ch1:
            eq = bool(c0._data == c1._data)
            if eq != (c0._data_id == c1._data_id):
                return False
            if eq and not in_domain(c0._children or [], c1._children or []):
                return False
    return True


def dids_unique_everywhere(tree):
    def ok(ch):
        ids = [c._data_id for c in ch]
        return len(set(ids)) == len(ids) and all(ok(c._children or []) for c in ch)

    return ok(tree._root._children or [])


def obs_forest(root, U):
    return [[U.index(c._data), obs_D(c), enc_meta(c._meta), obs_forest(c, U)] for c in (root._children or [])]


# ---------------------------------------------------------------------------
def twice_copied_dids(p0, p1):
    """data_ids of the t1 nodes that diff copies twice (their top is matched by == and also added by data_id, or is the
    peer of two == siblings of t0)"""
    out = set()
    ch0, ch1 = p0._children or [], p1._children or []
    ids0 = {c._data_id for c in ch0}
    peers = []
    for c0 in ch0:
        c1 = next((c for c in ch1 if c._data == c0._data), None)
        if c1 is None:
            continue
        if c1._data_id not in ids0 or any(c1 is q for q in peers):   # matched AND added, or the peer of two == t0 siblings
            out.update(n._data_id for n in B.all_nodes(c1))
        peers.append(c1)
        out |= twice_copied_dids(c0, c1)
    return out


def compute_hints(res, t0, t1):
    """t1 nodes whose copies in the result are marked MOVED_HERE, found by walking result, t0 and t1 in parallel (data
    objects are shared between a copy and its source)."""
    hints = []

    def by_obj(children, obj):
        for c in children or []:
            if c._data is obj:
                return c
        return None

    def collect(c2, c1):
        if c2.get_meta("dc") == DC.MOVED_HERE:
            hints.append(H.nid(c1))
        for k2 in (c2._children or []):
            k1 = by_obj(c1._children, k2._data)
            if k1 is not None:
                collect(k2, k1)

    def walk(p2, p0, p1):
        for c2 in (p2._children or []):
            dc = c2.get_meta("dc")
            if dc in NEW:
                c1 = by_obj(p1._children, c2._data)
                if c1 is not None:
                    collect(c2, c1)
            elif dc in GONE:
                continue
            else:
                c0 = by_obj(p0._children, c2._data)
                if c0 is None:
                    continue
                c1 = next((c for c in (p1._children or []) if c._data == c0._data), None)
                if c1 is not None:
                    walk(c2, c0, c1)

    walk(res._root, t0._root, t1._root)
    return hints


# ---------------------------------------------------------------------------
# The oracle: written from the property statement; walks _children by pointers,
# compares data objects with ==, never calls diff.py helpers.
# ---------------------------------------------------------------------------
def dc_of(meta):
    return None if not meta else meta.get("dc")


def oracle(t0, t1, res, ordered, reduce, snap):
    st = dict(marks=0, ambiguous=False)
    got = live(res._root)
    got_root_meta = dict(res._root._meta) if res._root._meta else None
    if reduce:
        if snap is None:
            return "reduce: Tree.filter was not called for reduce=True", st
        root_meta, full = snap
    else:
        if snap is not None:
            return "reduce: Tree.filter was called for reduce=False", st
        root_meta, full = got_root_meta, got

    s0 = [(c._data, shape(c)) for c in (t0._root._children or [])]
    s1 = [(c._data, shape(c)) for c in (t1._root._children or [])]

    def count(f):
        return sum((1 if (m and any(kk in m for kk in DIFF_KEYS)) else 0) + count(k) for _, m, k in f)

    st["marks"] = count(full) + (1 if root_meta else 0)

    # (0) the result carries only the diff's own metadata (user metadata of the inputs is not copied)
    def foreign(f):
        for d, m, k in f:
            extra = [kk for kk in (m or {}) if kk not in DIFF_KEYS]
            if extra:
                return f"meta: result node {d!r} carries foreign metadata keys {extra}"
            r = foreign(k)
            if r:
                return r
        return None

    r = foreign(full) or foreign(got)
    if r:
        return r, st
    if [kk for kk in (root_meta or {}) if kk not in DIFF_KEYS]:
        return f"meta: result root carries foreign metadata {root_meta}", st

    # (1) identical inputs: no marks at all
    if s0 == s1 and st["marks"]:
        return "identical: marks on the diff of identical trees", st

    # (2) projection to t1: dropping REMOVED/MOVED_TO gives t1's parent-child relation
    def p1(f):
        return usort([(d, p1(k)) for d, m, k in f if dc_of(m) not in GONE])

    if p1(full) != ucanon(s1):
        return "proj-t1: result without REMOVED/MOVED_TO is not t1", st

    # (3) projection to t0 (child lists in order below every node present in both) and (4) marks exactly on one-sided children
    # (5) order marks
    def both(f2, c0s, c1s, meta2, where):
        kids2 = [(d, m, k) for d, m, k in f2 if dc_of(m) not in NEW]
        if [d for d, _, _ in kids2] != [d for d, _ in c0s]:
            return f"proj-t0: child list below {where} without ADDED/MOVED_HERE is not t0's"
        any_shift = False
        for d, m, k in f2:
            dc = dc_of(m)
            i0 = next((i for i, (x, _) in enumerate(c0s) if x == d), None)
            i1 = next((i for i, (x, _) in enumerate(c1s) if x == d), None)
            if i0 is not None and i1 is None:
                if dc not in GONE:
                    return f"marks: child {d!r} of {where} only in t0 carries {dc}"
            elif i0 is None and i1 is not None:
                if dc not in NEW:
                    return f"marks: child {d!r} of {where} only in t1 carries {dc}"
                # inside the added branch: first level ADDED/MOVED_HERE, deeper levels no mark or MOVED_HERE
                for d1, m1, k1 in k:
                    if dc_of(m1) not in NEW:
                        return f"marks: first level {d1!r} below the added node {where}/{d} carries {dc_of(m1)}"
                    stack = list(k1)
                    while stack:
                        d2, m2, k2 = stack.pop()
                        if dc_of(m2) not in (None, DC.MOVED_HERE):
                            return f"marks: node {d2!r} deep inside the added branch {where}/{d} carries {dc_of(m2)}"
                        stack.extend(k2)
            elif i0 is not None and i1 is not None:
                exp = (i0, i1) if (ordered and i0 != i1) else None
                if dc != exp:
                    return f"order: child {d!r} of {where} at t0 index {i0}, t1 index {i1} carries {dc}, expected {exp}"
                any_shift = any_shift or exp is not None
                extra = {kk: v for kk, v in (m or {}).items() if kk not in ("dc", "dc_renumbered")}
                if extra:
                    return f"marks: unexpected meta {extra}"
                r = both(k, c0s[i0][1], c1s[i1][1], m, f"{where}/{d}")
                if r:
                    return r
            else:
                return f"marks: child {d!r} of {where} is in neither input"
        ren = bool(meta2 and meta2.get("dc_renumbered"))
        if ren != any_shift:
            return f"order: dc_renumbered on {where} is {ren}, children shifted: {any_shift}"
        return None

    r = both(full, s0, s1, root_meta, "")
    if r:
        return r, st

    # The re-classification works on data_ids (C11_moved_pairs, C11_moves_complete speak about data_ids); in terms of
    # the DATA it is what (6) says when == and data_id agree on all nodes of both trees (C11_moved_pairs_same_data),
    # which the domain of the projection laws does not imply for nodes that are never compared with each other.
    if not ids_agree_globally(t0, t1):
        if reduce:
            return check_reduce(got, full, got_root_meta, root_meta), st
        return None, st

    # (6) MOVED_HERE => a MOVED_TO with equal data exists (and conversely); a REMOVED mark survives only if no node copied
    #     from an added t1 branch has equal data
    flat = []

    def walk(f, in_added):
        for d, m, k in f:
            dc = dc_of(m)
            flat.append((d, dc, in_added or dc in NEW))
            walk(k, in_added or dc in NEW)

    walk(full, False)
    to = [d for d, dc, _ in flat if dc == DC.MOVED_TO]
    here = [d for d, dc, _ in flat if dc == DC.MOVED_HERE]
    rem = [d for d, dc, _ in flat if dc == DC.REMOVED]
    addset = [d for d, dc, a in flat if a]
    for d in here:
        if d not in to:
            return f"moved: MOVED_HERE {d!r} without a MOVED_TO of equal data", st
    for d in to:
        if d not in here:
            return f"moved: MOVED_TO {d!r} without a MOVED_HERE of equal data", st
        if here.count(d) != 1:
            return f"moved: {here.count(d)} MOVED_HERE nodes for {d!r}", st
    for d in rem:
        if d in addset:
            return f"moved: REMOVED {d!r} although an added node has equal data", st
    st["ambiguous"] = any(addset.count(d) > 1 for d in to)

    # (7) reduce = marked nodes and their ancestors
    if reduce:
        return check_reduce(got, full, got_root_meta, root_meta), st
    return None, st


def check_reduce(got, full, got_root_meta, root_meta):
    def keep(f):
        out = []
        for d, m, k in f:
            kk = keep(k)
            if bool(dc_of(m)) or kk:
                out.append((d, m, kk))
        return out

    if got != keep(full):
        return "reduce: result is not 'marked nodes and their ancestors' of the unreduced result of the same run"
    if got_root_meta != root_meta:
        return "reduce: root meta changed"
    return None


def ids_agree_globally(t0, t1):
    nodes = B.all_nodes(t0._root) + B.all_nodes(t1._root)
    for i, a in enumerate(nodes):
        for b in nodes[i + 1:]:
            if bool(a._data == b._data) != (a._data_id == b._data_id):
                return False
    return True


def shape(n):
    return [(c._data, shape(c)) for c in (n._children or [])]


def check_kinds(res, t0, t1):
    """typed trees: the result has t0's class and every result node has the kind of the node it was copied from"""
    if type(res) is not type(t0):
        return f"class: result is a {type(res).__name__}, t0 a {type(t0).__name__}"

    def kind(n):
        return getattr(n, "kind", None)

    def by_eq(children, data):
        return next((c for c in (children or []) if c._data == data), None)

    def copied(c2, c1):
        if kind(c2) != kind(c1):
            return f"kind: copy of added node {c1._data!r} has kind {kind(c2)!r}, source {kind(c1)!r}"
        for k2 in (c2._children or []):
            k1 = by_eq(c1._children, k2._data)
            if k1 is not None:
                r = copied(k2, k1)
                if r:
                    return r
        return None

    def walk(p2, p0, p1):
        for c2 in (p2._children or []):
            dc = c2.get_meta("dc")
            if dc in NEW:
                c1 = by_eq(p1._children, c2._data)
                r = copied(c2, c1) if c1 is not None else None
            else:
                c0 = by_eq(p0._children, c2._data)
                if c0 is None:
                    continue
                if kind(c2) != kind(c0):
                    return f"kind: copy of {c0._data!r} has kind {kind(c2)!r}, source {kind(c0)!r}"
                c1 = by_eq(p1._children, c2._data)
                r = walk(c2, c0, c1) if (c1 is not None and dc not in GONE) else None
            if r:
                return r
        return None

    return walk(res._root, t0._root, t1._root)


def usort(l):
    return sorted(l, key=repr)


def ucanon(s):
    return usort([(d, ucanon(k)) for d, k in s])


CORPUS = [
    # custom ids (seeded C11-12): a move between parents in trees built with a calc_data_id hook / explicit ids per label
    dict(univ=LABELS[:4], calc="name", t0=[[0, None, None, [[2, None, None, []]]], [1, None, None, []]],
         t1=[[0, None, None, []], [1, None, None, [[2, None, None, []]]]]),
    dict(univ=LABELS[:4], t0=[[0, None, "id-0", [[2, None, "id-2", []]]], [1, None, "id-1", []]],
         t1=[[0, None, "id-0", []], [1, None, "id-1", [[2, None, "id-2", []]]]]),
    # known finding D91: hash(-1) == hash(-2): the t1 child -2 is neither matched (==) nor added (data_id): lost
    dict(univ=["i:-1", "i:-2", "s:a"], t0=[[0, None, None, []]], t1=[[1, None, None, []]]),
    # history (seeded C11-9): diff, re-order / move-away+add in the second tree keeping the child counts, diff again
    dict(univ=LABELS[:4], t0=[[0, None, None, [[1, None, None, []], [2, None, None, []]]], [3, None, None, []]],
         t1=[[0, None, None, [[1, None, None, []], [2, None, None, []]]], [3, None, None, []]], edits=[["rotate", 1, 0]]),
    dict(univ=LABELS[:4], t0=[[0, None, None, [[1, None, None, []], [2, None, None, []]]], [3, None, None, []]],
         t1=[[0, None, None, [[1, None, None, []], [2, None, None, []]]], [3, None, None, []]], edits=[["move_add", 1, 1, 3, 3]]),
    # user metadata on a node that gets a mark and on an unchanged one (seeded C11-4 / C11-5)
    dict(univ=LABELS[:3], t0=[[0, None, None, [[1, None, None, []]]], [2, None, None, []]], t1=[[2, None, None, []], [0, None, None, []]],
         um0={"0": {"u": 1}, "1": {"u": 2}, "2": {"note": "x"}}, um1={"0": {"u": 3}}),
    # tree.diff(tree): the same object on both sides
    dict(univ=LABELS[:3], alias=True, t0=[[0, None, None, [[1, None, None, []]]], [2, None, None, []]], t1=[[0, None, None, [[1, None, None, []]]], [2, None, None, []]]),
    # D62: diff() of two typed trees raised TypeError (Node.add_child cannot construct a TypedNode copy)
    dict(univ=LABELS[:3], typed=True, t0=[[0, "k1", None, [[1, "k2", None, []]]]], t1=[[0, "k1", None, []], [1, "k1", None, []]]),
    # ambiguous re-classification: removed 'a', added branch b(a(a))... with two copies of the removed node's data
    dict(univ=LABELS[:3], t0=[[0, None, None, []]], t1=[[1, None, None, [[0, None, None, [[2, None, None, [[0, None, None, []]]]]]]]]),
    dict(univ=LABELS[:3], t0=[[0, None, None, []], [1, None, None, []]], t1=[[1, None, None, []], [0, None, None, []]]),
]

PROP = Prop()
