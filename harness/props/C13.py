"""C13 - refused or failing operations do not corrupt the tree.

Wrapper over harness/mut.py (history engine, C01-C03 oracles) and harness/mut_c13.py (deep snapshots,
invalid-argument enumeration, fault injection, read-only probes).

* correspondence: every generated history / single-op group is also evaluated by `CaseMut.run_mut` on the
  mutation machine Mut/Machine.v; result (Ok ids / error class) and the full state of every tree after every
  step must be equal - so the model's refusal and fault exits (theorems of Properties/C13.v) are the code's.
* oracle (independent of model and code under test):
    refused (UniqueConstraintError, AmbiguousMatchError, ValueError, NotImplementedError, KeyError of a lookup)
        => the deep pointer-level snapshot of every tree is unchanged (child list order, `_parent`, `_tree`,
           data identity, data_id, meta, `_node_by_id`, `_nodes_by_data_id` incl. dict / list order);
    after ANY step - also after an exception escaped from a user callback at any invocation - the C01-C03
        predicates of mut.py (wf_oracle, index_oracle, sibling_oracle) hold for every tree;
    an operation that fails by itself with any other exception (no callback raised) leaves the snapshot unchanged;
    sort / in-place filter, clean or with a raising callback, have only their documented partial effect (rows of the
        tree permuted / removed; registry and index untouched by sort);
    read-only operations (and the source of Tree.copy / Node.copy / add(node) / add(tree) / copy_to from another tree)
        leave the snapshot unchanged.
"""
from __future__ import annotations

import common as H
import mut
import mut_c13 as M
from common import Case

CHUNK = 40
BULK = ("addnode", "copyto", "move", "addtree", "add", "set_data")

# forests (beyond the exhaustive bound) with clones in different parents / nested clones / a deep chain
PROBE_SHAPES = [((((), ()),), ((),)), (((), ((), ())), ((), ())), ((((), (), ()),), ()), (((((),),),),)]

# witnesses of defects found by this check (each fails on the code without fixes/D8x.diff)
_W_UNIV = ["s:n0", "s:n1", "s:n2", "s:new", "s:f1", "s:f2", "s:f3", "e:9"]
_W_SETUP = [["new", False, None], ["add", 0, 0, 0, None, None, None], ["add", 0, 1, 1, None, None, None], ["add", 0, 0, 2, None, None, None],
            ["new", False, None], ["add", 1, 0, 0, None, None, None], ["add", 1, 4, 3, None, None, None]]
_WT_SETUP = [["new", True, None], ["add", 0, 0, 0, None, "k1", None], ["add", 0, 1, 1, None, "k1", None], ["add", 0, 0, 2, None, "k1", None],
             ["new", True, None], ["add", 1, 0, 0, None, "k1", None], ["add", 1, 4, 3, None, "k2", None]]
RAW_CORPUS: list = [
    dict(id="D82", kind="probe", univ=_W_UNIV, setup=_WT_SETUP, typed=True, only=["TypedTree.add(data, kind=ANY_KIND)"]),
    dict(id="D82b", kind="probe", univ=_W_UNIV, setup=_WT_SETUP, typed=True, only=["TypedNode.add(node, kind=5)"]),
    dict(id="D82c", kind="probe", univ=_W_UNIV, setup=_WT_SETUP, typed=True, only=["TypedNode.append_child(node, kind=False, deep=True)"]),
    dict(id="D80", kind="probe", univ=_W_UNIV, setup=_W_SETUP, typed=False, only=["Node.add(data, before='x')"]),
    dict(id="D80b", kind="probe", univ=_W_UNIV, setup=_W_SETUP, typed=False, only=["Node.add(node, before=1.5)"]),
    dict(id="D81", kind="probe", univ=_W_UNIV, setup=_W_SETUP, typed=False, only=["Node.add(data, data_id=[1])"]),
    dict(id="D81b", kind="probe", univ=_W_UNIV, setup=_W_SETUP, typed=False, only=["Node.set_data(data, data_id=[1])"]),
    dict(id="D81c", kind="probe", univ=_W_UNIV, setup=_W_SETUP, typed=False, only=["Tree.add(data) with calc_data_id returning a list"]),
]
CORPUS: list = []


class Prop:
    id = "C13"
    coq_prop = "Properties/C13.v"
    case_module = "CaseMut"
    case_vo = "theories/Cases/CaseMut.vo"
    run_fn = "run_mut"
    shard = 8
    rule = ("(a) corpus of defect witnesses (mut.CORPUS + C13.CORPUS); (b) invalid arguments, exhaustive: every ordered forest with <= N nodes "
            "(N=3 quick, 4 thorough) under three labelings (distinct strings / equal-comparing objects with distinct explicit ids / clones in "
            "different parents) in tree 0 next to a second tree of two nodes whose top node carries the data of tree 0's first node, plain "
            "(quick: also typed with 2 nodes; thorough: also typed, <= 3 nodes; at the largest size the high-volume families are sampled); on it every operation with every documented-invalid argument and its nearest valid "
            "neighbours: add under every parent with before in {node of another parent, node of the other tree, bools, in-range / negative / "
            "too large indexes, a child, None, 0}, colliding data and colliding explicit ids at every position, the four shortcuts with "
            "colliding data, add(node) of every node of both trees under every parent x deep in {None, True, False} (same parent, own branch, "
            "data_id conflict, id for a deep copy, foreign before), copy_to x add_self x deep (children of a leaf, the tree into itself, "
            "colliding top nodes), add(tree) of the other tree and of the tree itself x before x deep, from_dict with colliding items at the "
            "first and second level, colliding explicit ids, on leaves and on non-leaves, move_to of every node to every parent (own branch, "
            "itself, colliding) with every before (foreign, other tree, self, ints) and into the other tree, remove x keep_children x "
            "with_clones, set_data / rename towards the data / id of siblings and of other nodes x with_clones in {None, True, False}, del by "
            "data / data_id / node_id (present, ambiguous, absent), Tree.copy, Node.copy; (c) fault injection in the model's vocabulary: for "
            "sort (x reverse x deep, under every parent) and the in-place filter (verdict tables incl. skip/select/stop) one clean run "
            "records the invocations of the callback, then one alternative per invocation k answers `raise` there; calc_data_id raising on the "
            "data of the k-th invocation for add / shortcuts / set_data / rename / from_dict (3 levels) / del; (c2) call-INDEX faults of calc_data_id inside from_dict with the same object passed "
            "several times (every k): call-index injection on the implementation must equal the run with the k-th calling item poisoned "
            "(FaultIndex.step_k), which is what the model evaluates; (c3) the call ORDER: the invocations of the sort key (x reverse x deep x raising "
            "keys) and of the filter predicate (verdict tables incl. stop / raise) recorded on the implementation against FaultIndex.sort_calls / "
            "filter_calls evaluated by vm_compute; (d) probes through the raw API "
            "on bigger trees (clones, typed): ~30 mutating and ~50 read-only operations (save to StringIO and to a file, load, to_dict_list, "
            "to_list_iter, from_dict, visit x 3 orders, find_all / find_first by match / data / data_id / node_id, filtered / copy with "
            "predicates, format, print, iterators, to_dot, to_dotfile, to_mermaid_flowchart, to_rdf_graph, diff x ordered x reduce), each run "
            "clean with counting callbacks and then once per invocation k with an exception raised at exactly that invocation; plus ~75 calls "
            "with arguments outside the documented types (before = str / float / object / list, unhashable data_id - explicit or returned by "
            "calc_data_id -, unhashable data, duplicate / non-numeric node_id, malformed from_dict items, None / str targets, uncomparable sort "
            "keys, and on typed trees an invalid `kind` = ANY_KIND / int / tuple / list / bytes / bool / '' on every route that takes or passes "
            "on a kind: add, add_child x before, append_child, prepend_child, add(node, kind=) shallow and deep, the sibling shortcuts, copy_to, "
            "move_to, from_dict items, load of a file with that kind, ...): whatever they raise, the snapshot is unchanged; (e) seeded "
            "random histories (half malformed: invalid before, colliding ids, foreign targets, moves into the own branch, raising callbacks). "
            "A case = one history or one (setup, <=40 alternative last ops) group or one probe set; distinct = distinct (universe, ops); "
            "non-trivial = at least one refusal or escaped exception was observed")
    exhaustive_note = "every op x every documented-invalid argument on all forests <= 3 nodes (quick) / <= 4 nodes (thorough) x 3 labelings"
    assumptions = ["identity of nodes is the allocation index recorded by a harness-side wrapper of Node.__init__",
                   "user callbacks (calc_data_id, sort key, filter predicate) are tables from objects/nodes to values that may raise; "
                   "'the k-th invocation raises' is the table that raises on the argument of the k-th invocation of the clean run",
                   "node references of generated ops are live (references to removed nodes are not public operations)"]
    trusted = ["harness/mut.py + harness/mut_c13.py (replayer, observation, deep snapshot, fault injection)"]
    manifest = dict(
        text=("Machine-checked theorems (Coq 8.16, no axioms) about the executable model of the mutating API (Mut/Machine.v): every error "
              "exit of every operation is taken before the first write to a tree, so a refusal with one of the library's errors (uniqueness, "
              "ambiguous match, invalid position or target, unsupported move) leaves forest, node registry and clone index of every tree "
              "unchanged, for ALL worlds and arguments; an exception escaping from calc_data_id (add, shortcuts, set_data, rename, from_dict, "
              "del) leaves them unchanged as well; a raising sort key or filter predicate - whatever the table of answers, hence at any "
              "invocation - leaves a well-formed world (C01-C03 invariant) in which sort has only permuted child lists and filter has only "
              "removed nodes; Tree.copy / Node.copy leave all existing trees untouched.  Tied to /repo on every run: exhaustive invalid-argument "
              "enumeration and fault injection at every invocation, compared state by state with the model, plus a model-independent oracle "
              "(deep pointer-level snapshot equality after refusals and read-only operations, C01-C03 predicates after every step)."),
        note=("Trusted: Coq kernel + vm_compute; hand-written model Mut/Machine.v (tied by the correspondence only: that Python's refusals are "
              "free of partial effects is established by comparing the state after every refused step with the model, by the deep-refusal "
              "snapshot oracle and by the sensitivity mutations - the refusal theorem itself is, for the single-phase operations, a fact about a "
              "model written validate-first); harness/mut.py, mut_c13.py.  The model describes the code as repaired by fixes/.  "
              "Call indexes: the machine's callbacks are argument-keyed tables; 'the k-th invocation raises whatever its argument' is "
              "FaultIndex.step_k (poisoned operation) - for calc_data_id inside from_dict, where one object can be passed twice, the harness runs "
              "the implementation both with call-index injection and with the poisoned items, requires identical behaviour and lets run_mut "
              "evaluate the poisoned history; FaultIndex.sort_calls / filter_calls (the call ORDER of sort key and filter predicate) are compared with the "
              "invocations recorded on the implementation (cases of kind 'order', vm_compute).  "
              "Read-only operations are pure functions of a forest in their models (Traverse.v, DictList.v, Filter.v): 'the tree is unchanged' "
              "cannot be a theorem there and is NOT claimed as one - it is checked on the implementation only, by the snapshot oracle of "
              "run_probes (~50 read-only calls, clean and with an exception at every invocation k of their callback, deep pointer snapshot "
              "before/after, and the exception must escape: no result / no tree is returned; every node of the probed trees carries "
              "metadata set through set_meta / update_meta, the snapshot holds identity and content of every meta dict, and what a "
              "read-only operation hands back - copy, filtered, diff results in both directions x ordered x reduce, diffs against "
              "reordered / pruned / extended copies - is edited afterwards (meta and structure) before the source is compared: aliasing of "
              "metadata or nodes between a result and its inputs is an oracle failure).  Stated as theorems for these callbacks: a "
              "visitor raising at invocation k ends the traversal after exactly k+1 calls and is re-raised (C06 model); from_dict returns a "
              "tree only if the mapper raised on no item (C14 model); Node.from_dict(mapper) on an attached node at machine level "
              "(FaultReadOnly.op_from_dict_m, rollback of D48; tied by the probes 'Node.from_dict(mapper) ...' only, the op vocabulary of "
              "run_mut has no mapper).  Oracle only, no theorem: predicates of the copying filter (filtered / copy(predicate=): Filter.v has no "
              "exception exit), find(match=), serialisation mappers of save / to_dict_list / to_list_iter, load mappers, format / dot / mermaid "
              "mappers, invalid-type arguments (D80-D82: outside the vocabulary of Machine.op)."),
        technique="Coq proof about an executable Gallina model + differential correspondence check (vm_compute) + Python oracle with fault injection",
        design_ref="DESIGN.md section 6 (C13), 3.2, 3.4",
    )

    # ------------------------------------------------------------------
    def descs(self, tier, rng):
        quick = tier == "quick"
        for c in mut.CORPUS + CORPUS:
            yield dict(kind="hist", univ=c["univ"], ops=c["ops"], corpus=c["id"])
        for h in M.late_collision_hists():
            yield dict(kind="hist", univ=h["univ"], ops=h["ops"], label="late-collision")
        tg = M.typed_collision_hists()
        for gi, g in enumerate(tg):
            if quick and gi % 3 != 0 and gi < len(tg) - 2:
                continue
            yield dict(kind="alts", univ=g["univ"], setup=g["setup"], alts=g["alts"], label=g["label"])
        for c in RAW_CORPUS:
            yield dict(kind="probe", univ=c["univ"], setup=c["setup"], typed=c["typed"], only=c["only"], corpus=c["id"], label="corpus " + c["id"])
        # (b) invalid arguments
        groups = []
        if quick:
            groups += list(M.invalid_groups(3, labelings=("distinct", "clones"), thin=True))
            groups += list(M.invalid_groups(2, labelings=("equal",), thin=True))
            groups += list(M.invalid_groups(2, nmin=2, typed=(True,), labelings=("distinct",), thin=True))
        else:
            groups += list(M.invalid_groups(3))
            groups += list(M.invalid_groups(4, nmin=4, labelings=("distinct", "clones"), thin=True))
            groups += list(M.invalid_groups(3, typed=(True,), labelings=("distinct", "clones"), thin=True))
        for g in groups:
            alts = g["alts"]
            if quick and g["n"] == 3:
                alts = [a for i, a in enumerate(alts) if (a[0] not in BULK and i % 2 == 0) or i % 4 == 0]
            if not quick and g["n"] == 4:
                alts = [a for i, a in enumerate(alts) if (a[0] not in BULK and i % 2 == 0) or i % 5 == 0]
            for i in range(0, len(alts), CHUNK):
                yield dict(kind="alts", univ=g["univ"], setup=g["setup"], alts=alts[i:i + CHUNK], label=g["label"])
        # (c) fault injection, model vocabulary
        fshapes = [s for n in range(1, 4 if quick else 5) for s in H.forests(n)] + PROBE_SHAPES[:2 if quick else 4]
        for shape in fshapes:
            for lname, fty in ((("distinct", False),) if quick else (("distinct", False), ("clones", False), ("distinct", True))):
                n = H.shape_size(shape)
                if fty and n > 3:
                    continue
                st = M.two_tree_setup(shape, lname, fty)
                if st is None:
                    continue
                univ, setup, nodes, other = st
                ids = list(range(1, n + 1))
                alts = []
                for p in [0] + ids:
                    for rev in (False, True):
                        for deep in (False, True):
                            for keyfn in (None, {"tbl": {str(i): "ab"[(i * 7 // 3) % 2] for i in ids}}):
                                fa, _ = M.fault_alts(univ, setup, ["sort", 0, p, keyfn or {"tbl": {}}, rev, deep])
                                alts += fa
                    verds = [{}, {str(i): ["F", "T", "skip_keep", "select", "F", "stop"][i % 6] for i in ids},
                             {str(i): ["F", "F", "T"][i % 3] for i in ids}, {str(i): ["skip_keep", "T"][i % 2] for i in ids},
                             {str(i): ["T", "skip_keep", "F", "skip"][i % 4] for i in ids}]
                    for vd in verds:
                        fa, _ = M.fault_alts(univ, setup, ["filter", 0, p, vd])
                        alts += fa
                seen, ded = set(), []
                for a in alts:
                    k = H.digest(a)
                    if k not in seen:
                        seen.add(k)
                        ded.append(a)
                if quick:
                    ded = ded[::2] if n >= 3 else ded
                for i in range(0, len(ded), CHUNK):
                    yield dict(kind="alts", univ=univ, setup=setup, alts=ded[i:i + CHUNK], label=lname + ("/typed" if fty else "") + "/fault")
                # calc_data_id faults
                new_d = univ.index("s:new")
                f1, f2, f3 = (univ.index(x) for x in ("s:f1", "s:f2", "s:f3"))
                kd = "k1" if fty else None
                cops = [["add", 0, ids[-1], new_d, None, kd, None], ["add", 0, 0, new_d, None, kd, True],
                        ["short", 0, ids[0], "append_sibling", new_d, None, None], ["short", 0, ids[-1], "prepend_child", new_d, None, kd],
                        ["set_data", 0, ids[0], new_d, None, False], ["set_data", 0, ids[-1], new_d, None, True],
                        ["rename", 0, ids[0], new_d], ["del", 0, {"d": new_d}],
                        ["from_dict", 0, ids[-1], [[f1, None, [[f2, None, []], [f3, None, []]]], [new_d, None, []]]],
                        ["from_dict", 0, ids[-1], [[f1, None, []], [f2, None, [[f3, None, [[new_d, None, []]]]]]]]]
                if n >= (2 if quick else 4):
                    cops = cops[::2] if n < 3 or not quick else cops[::3]
                for op in cops:
                    hs, _ = M.calc_fault_hists(univ, setup, op, fn="name")
                    for h in hs:
                        yield dict(kind="hist", univ=h["univ"], ops=h["ops"], label="calc-fault")
        # (c3) the call ORDER the model's call indexes refer to
        oshapes = PROBE_SHAPES[:2] if quick else PROBE_SHAPES + [s_ for s_ in H.forests(3)]
        for shape in oshapes:
            st = M.two_tree_setup(shape, "distinct", False)
            univ, setup, nodes, other = st
            n = H.shape_size(shape)
            ids = list(range(1, n + 1))
            ops = []
            for p in [0] + ids[:2]:
                for rev in (False, True):
                    for deep in (False, True):
                        ops.append(["sort", 0, p, {"tbl": {str(i): "abc"[(i * 7 // 3) % 3] for i in ids}}, rev, deep])
                ops.append(["sort", 0, p, {"tbl": {str(ids[-1]): None}}, False, True])
                ops.append(["sort", 0, p, {"tbl": {str(ids[n // 2]): None}}, True, True])
                for vd in ({}, {str(i): ["F", "T", "skip_keep", "select", "F", "stop"][i % 6] for i in ids},
                           {str(i): ["T", "skip", "F", "raise"][i % 4] for i in ids}, {str(i): ["F", "F", "T"][i % 3] for i in ids}):
                    ops.append(["filter", 0, p, vd])
            for i in ids:                       # a raising key at every node: the invocations after it must not happen
                for rev in (False, True):
                    ops.append(["sort", 0, 0, {"tbl": {str(i): None, **{str(j): "abc"[(j * 5 // 2) % 3] for j in ids if j != i}}}, rev, True])
                ops.append(["filter", 0, 0, {str(i): "raise", **{str(j): ["T", "F", "T", "skip_keep"][j % 4] for j in ids if j != i}}])
            yield dict(kind="order", univ=univ, setup=setup, ops=ops, label="call order")
        # (c2) call-index faults of calc_data_id in from_dict with the SAME object passed several times
        for shape in (((),), ((), ((),))) if quick else (((),), ((), ((),)), (((), ()),)):
            st = M.two_tree_setup(shape, "distinct", False)
            univ, setup, nodes, other = st
            f1, f2, f3, fresh = (univ.index(x) for x in ("s:f1", "s:f2", "s:f3", "e:9"))
            leaf = H.shape_size(shape)
            for items in ([[f1, None, []], [f2, None, [[f1, None, []]]]],
                          [[f1, None, [[f2, None, []], [f3, "Z", [[f2, None, []]]]]], [f2, None, [[f1, None, []]]]],
                          [[f1, None, []], [f1, "other", []], [f2, None, [[f1, None, [[f1, "deep", []]]]]]])[:2 if quick else 3]:
                for k in range(M.count_calling_items(items) + 1):
                    yield dict(kind="fdk", univ=univ, setup=setup, ti=0, p=leaf, items=items, k=k, fresh=fresh, label="from_dict call index")
        # (d) probes through the raw API
        pshapes = PROBE_SHAPES[:2] if quick else PROBE_SHAPES + [s for s in H.forests(3)]
        for shape in pshapes:
            for lname in ("distinct", "equal", "clones"):
                for ty in (((False, True) if (shape, lname) == (pshapes[0], "distinct") else (False,)) if quick else (False, True)):
                    st = M.two_tree_setup(shape, lname, ty)
                    if st is None:
                        continue
                    yield dict(kind="probe", univ=st[0], setup=st[1], typed=ty, label=lname + ("/typed" if ty else ""))
        # (e) random histories
        nrand = 8 if quick else 160
        for i in range(nrand):
            n_ops = rng.randint(8, 25 if quick else 40)
            h = (mut.gen_malformed if i % 2 == 0 else mut.gen_random)(rng, n_ops)
            yield dict(kind="hist", univ=h["univ"], ops=h["ops"])

    def shrink_candidates(self, desc):
        if desc["kind"] == "alts":
            for alt in desc["alts"]:
                yield dict(kind="hist", univ=desc["univ"], ops=desc["setup"] + [alt])
            return
        if desc["kind"] == "fdk":
            return
        if desc["kind"] == "order":
            if len(desc["ops"]) > 1:
                for o in desc["ops"]:
                    yield dict(kind="order", univ=desc["univ"], setup=desc["setup"], ops=[o], label="call order")
            return
        if desc["kind"] == "probe":
            # one probe at a time (the names of the failing probes), then the same on the smallest two-tree setup
            if desc.get("only") and len(desc["only"]) == 1:
                if desc["setup"] != _W_SETUP and not desc.get("typed"):
                    yield dict(kind="probe", univ=_W_UNIV, setup=_W_SETUP, typed=False, only=desc["only"])
                if desc["setup"] != _WT_SETUP and desc.get("typed"):
                    yield dict(kind="probe", univ=_W_UNIV, setup=_WT_SETUP, typed=True, only=desc["only"])
                return
            pf, _ = M.run_probes(desc["univ"], desc["setup"], only=desc.get("only"))
            rf, _ = M.run_raw_invalid(desc["univ"], desc["setup"], desc.get("typed", False), only=desc.get("only"))
            seen = []
            for name, k, msg in pf + rf:
                if name not in seen:
                    seen.append(name)
                    yield dict(kind="probe", univ=desc["univ"], setup=desc["setup"], typed=desc.get("typed", False), only=[name])
            return
        for h in mut.shrink_candidates(dict(univ=desc["univ"], ops=desc["ops"])):
            yield dict(kind="hist", univ=h["univ"], ops=h["ops"])

    def run(self, desc) -> Case:
        fail = None
        if desc["kind"] == "alts":
            term, obs, runs, setup = M.run_group13(desc)
            fails = [(r.steps[-1]["op"], f) for r in runs for f in r.fails] + [(setup.steps[f[0]]["op"], f) for f in setup.fails]
            refused = sum(1 for r in runs if r.steps[-1]["res"][0] == 1)
            kinds = {}
            for r in runs:
                op, res = r.steps[-1]["op"], r.steps[-1]["res"]
                k = op[0] + ("" if res[0] == 0 else ":" + H.ERR_NAMES.get(res[1], str(res[1])))
                kinds[k] = kinds.get(k, 0) + 1
            top = max(kinds, key=kinds.get) if kinds else ""
            stats = dict(kind="single-op group", nodes=sum(1 for o in desc["setup"] if o[0] == "add"), label=desc.get("label", ""), most_frequent=top,
                         refused_share=round(refused / max(1, len(runs)), 1))
            nontrivial = refused > 0
            if fails:
                op, (si, name, msg) = fails[0]
                fail = f"{name}: {msg} [op {op}]"
        elif desc["kind"] == "order":
            r = M.replay13(dict(univ=desc["univ"], ops=desc["setup"]))
            term, obs = mut.coq_case(r), r.obs
            msg, ncmp = M.call_order_check(desc["univ"], desc["setup"], desc["ops"])
            stats = dict(kind="callback call order", compared=ncmp)
            nontrivial = ncmp > 0
            if msg:
                fail = "call-order: " + msg
        elif desc["kind"] == "fdk":
            r, msg = M.run_from_dict_k(desc["univ"], desc["setup"], desc["ti"], desc["p"], desc["items"], desc["k"], desc["fresh"])
            term, obs = mut.coq_case(r), r.obs
            stats = dict(kind="from_dict call-index fault", k=desc["k"], result=H.ERR_NAMES.get(r.obs[-1][0][1], "ok") if r.obs[-1][0][0] else "ok")
            nontrivial = r.obs[-1][0][0] == 1
            if r.fails:
                fail = f"{r.fails[0][1]}: {r.fails[0][2]}"
            elif msg:
                fail = "call-index: " + msg
        elif desc["kind"] == "probe":
            r = M.replay13(dict(univ=desc["univ"], ops=desc["setup"]))
            term, obs = mut.coq_case(r), r.obs
            only = desc.get("only")
            pf, pst = M.run_probes(desc["univ"], desc["setup"], only=only)
            rf, rst = M.run_raw_invalid(desc["univ"], desc["setup"], desc.get("typed", False), only=only)
            pf = pf + rf
            stats = dict(kind="probe set", label=desc.get("label", ""), probes=pst["probes"], fault_runs=pst["fault_runs"] // 50 * 50,
                         readonly=pst["readonly"], raw_invalid=rst["raw_invalid"], raw_raised=rst["raw_raised"] // 10 * 10)
            nontrivial = pst["fault_runs"] > 0 or rst["raw_raised"] > 0
            if r.fails:
                fail = f"{r.fails[0][1]}: {r.fails[0][2]} [setup]"
            elif pf:
                name, k, msg = pf[0]
                fail = f"probe {name!r}" + (f" fault at invocation {k}" if k else " (clean run)") + f": {msg}"
        else:
            r = M.replay13(dict(univ=desc["univ"], ops=desc["ops"]))
            term, obs = mut.coq_case(r), r.obs
            errs = sum(1 for s in r.steps if s["res"][0] == 1)
            crashes = sum(1 for s in r.steps if s["res"] == [1, 8])
            ntrees = len(r.steps[-1]["after"]) if r.steps else 0
            stats = dict(kind="history", length=len(desc["ops"]) // 10 * 10, trees=ntrees, errors=errs // 3 * 3, callback_faults=crashes,
                         label=desc.get("label", desc.get("corpus", "")))
            nontrivial = errs > 0
            if r.fails:
                si, name, msg = r.fails[0]
                fail = f"{name}: {msg} [step {si}: {r.steps[si]['op']}]"
        try:
            H.sx(obs)
        except RecursionError:      # a runaway copy (D06 on the unrepaired code): the observation cannot be rendered
            obs = [-3]
            fail = fail or "struct: the tree is nested too deeply to be observed (runaway copy)"
        return Case(desc=desc, coq_input=term, impl_obs=obs, oracle_fail=fail, nontrivial=nontrivial,
                    key=H.digest([desc["univ"], desc.get("setup"), desc.get("alts"), desc.get("ops"), desc["kind"], desc.get("only"), desc.get("items"), desc.get("k")]), stats=stats)


PROP = Prop()
