"""C03: the route-independent collision predicate (computed from pointers BEFORE the operation runs) and a
collision-driven history generator.

`judge(w, op)` -> (P, V, why)
    P  True  : the operation WOULD place a second child with an already present data_id under some parent
       False : it would not
       None  : not judged (add(node, data_id=<other id>): refused by the separate "data_id conflict" rule)
    V  True  : nothing else is wrong with the arguments (no other documented refusal applies), so a
               colliding operation has to be refused with UniqueConstraintError and nothing else.
`verdict(P, V, res)` -> message or None
    P            and the op succeeded                       -> "accepted a collision"
    P and V      and the outcome is not UniqueConstraintError -> "refused with something else"
    P is False   and the outcome is UniqueConstraintError    -> "over-refusal" (D12 family)

Everything is written from the property statement on plain pointers (`_children`, `_parent`, `_data_id`,
`_data`), by identity; neither the index (`_nodes_by_data_id`) nor the library's navigation is consulted.
"""
from __future__ import annotations

import mut
import mut_c01
from common import TypedTree
from mut import CallbackFault

RAISES = object()


# ---------------------------------------------------------------------------
# pointer helpers
# ---------------------------------------------------------------------------
def kids(n):
    return list(n._children or [])


def kid_ids(n):
    return [c._data_id for c in kids(n)]


def walk(t):
    out = []

    def rec(n, depth):
        for c in kids(n):
            out.append(c)
            if depth < 300:
                rec(c, depth + 1)

    rec(t._root, 0)
    return out


def in_branch(top, x):
    """x is top or a descendant of top (by the parent chain)"""
    seen = 0
    while x is not None and seen < 1000:
        if x is top:
            return True
        x = x._parent
        seen += 1
    return False


def has_dup(ids):
    for i, a in enumerate(ids):
        for b in ids[i + 1:]:
            if a == b:
                return True
    return False


def calc_of(w, ti, obj):
    """what the tree's id callback answers for `obj` (harness's own callback table, not the tree)"""
    fn = w.calc_fn(w.calcs[ti]) if ti < len(w.calcs) else None
    try:
        v = hash(obj) if fn is None else fn(w.trees[ti], obj)
        return v if isinstance(v, (int, str)) else RAISES      # an unhashable answer is as unusable as a raising hook
    except CallbackFault:
        return RAISES
    except TypeError:
        return RAISES


def new_id(w, ti, d, did):
    if isinstance(did, dict):
        return RAISES               # an unhashable explicit data_id ({"u": [...]}, see mut.py)
    return did if did is not None else calc_of(w, ti, w.dobj(d))


def before_ok(w, parent, b):
    if isinstance(b, dict):
        nd = w.live_node(b["n"])
        return nd is not None and nd._parent is parent
    return True


def is_typed(t):
    return isinstance(t, TypedTree)


# ---------------------------------------------------------------------------
def judge(w, op):
    k = op[0]
    if k == "add":
        _, ti, p, d, did, kind, before = op
        pn = w.parent_ref(ti, p)
        i = new_id(w, ti, d, did)
        if i is RAISES:
            return False, False, "callback raises"
        return i in kid_ids(pn), before_ok(w, pn, before), f"add id {i!r} under {p}"
    if k == "short":
        _, ti, n, how, d, did, kind = op
        nn = w.parent_ref(ti, n)
        pn = nn if how.endswith("child") else nn._parent
        i = new_id(w, ti, d, did)
        if i is RAISES:
            return False, False, "callback raises"
        return i in kid_ids(pn), True, f"{how} id {i!r}"
    if k == "addnode":
        _, ti, p, sti, src, did, kind, before, deep = op
        pn = w.parent_ref(ti, p)
        sn = w.live_node(src, sti)
        if did is not None and did != sn._data_id:
            return None, False, "data_id conflict rule"
        V = (not (deep and did is not None) and before_ok(w, pn, before)
             and is_typed(w.trees[ti]) == is_typed(w.trees[sti])
             and not (deep and ti == sti and in_branch(sn, pn)))
        return sn._data_id in kid_ids(pn), V, f"add(node {src}) under {p}"
    if k == "addtree":
        _, ti, p, sti, before, deep = op
        pn = w.parent_ref(ti, p)
        st = w.trees[sti]
        tops = kids(st._root)
        P = any(s._data_id in kid_ids(pn) for s in tops)
        V = (before_ok(w, pn, before) and is_typed(w.trees[ti]) == is_typed(st)
             and not (deep is not False and ti == sti and any(in_branch(s, pn) for s in tops)))
        if is_typed(w.trees[ti]) and not is_typed(st):
            P = False      # a plain Tree is not recognised as a tree by a typed node: no copy is attempted at all
        return P, V, f"add(tree {sti}) under {p}"
    if k == "copyto":
        _, sti, src, ti, target, add_self, before, deep = op
        tn = w.parent_ref(ti, target)
        st = w.trees[sti]
        same_kind = is_typed(w.trees[ti]) == is_typed(st)
        if add_self:
            sn = w.live_node(src, sti)
            V = before_ok(w, tn, before) and same_kind and not (deep and ti == sti and in_branch(sn, tn))
            return sn._data_id in kid_ids(tn), V, f"copy_to node {src} -> {target}"
        srcs = kids(st._root) if src == 0 else kids(w.live_node(src, sti))
        if not srcs:
            return False, False, "nothing to copy"
        P = any(s._data_id in kid_ids(tn) for s in srcs)
        V = same_kind and not (deep and ti == sti and any(in_branch(s, tn) for s in srcs))
        return P, V, f"copy_to children of {src} -> {target}"
    if k == "move":
        _, ti, n, tti, target, before = op
        nn = w.live_node(n, ti)
        tn = w.parent_ref(tti, target)
        V = (not is_typed(w.trees[ti])) and ti == tti and not in_branch(nn, tn) and before_ok(w, tn, before)
        P = tn is not nn._parent and any(c is not nn and c._data_id == nn._data_id for c in kids(tn))
        if ti != tti:
            P = False          # nothing can be placed: moving between trees is not offered
        return P, V, f"move {n} -> {target}"
    if k == "remove":
        _, ti, n, keep, wc = op
        if not keep:
            return False, True, "remove"
        nn = w.live_node(n, ti)
        t = w.trees[ti]
        victims = [x for x in walk(t) if x._data_id == nn._data_id] if wc else [nn]
        vid = {id(v) for v in victims}

        def contracted(parent):
            out = []
            for c in kids(parent):
                if id(c) in vid:
                    out += contracted(c)
                else:
                    out.append(c._data_id)
            return out

        parents = []
        for v in victims:
            if id(v._parent) not in vid and not any(v._parent is q for q in parents):
                parents.append(v._parent)
        return any(has_dup(contracted(q)) for q in parents), True, f"remove {n} keep_children"
    if k in ("set_data", "rename"):
        if k == "rename":
            _, ti, n, d = op
            did, wc = None, None
        else:
            _, ti, n, d, did, wc = op
        nn = w.live_node(n, ti)
        if k == "rename" and not isinstance(nn._data, str):
            return False, False, "rename of a non-string node"
        if d is None and did is None:
            return False, False, "nothing given"
        new_data = d is not None and w.dobj(d) is not nn._data
        i = did
        if i is None and new_data:
            i = calc_of(w, ti, w.dobj(d))
            if i is RAISES:
                return False, False, "callback raises"
        group = [x for x in walk(w.trees[ti]) if x._data_id == nn._data_id]
        has_clones = len(group) > 1
        V = not (has_clones and wc is None)
        if i is None or i == nn._data_id:
            return False, V, "id unchanged"
        members = group if (has_clones and wc) else [nn]
        P = any(s._data_id == i for m in members for s in kids(m._parent) if s is not m)
        return P, V, f"{k} {n} -> id {i!r}"
    if k in ("from_dict", "tree_from_dict"):
        if k == "from_dict":
            _, ti, p, items = op
            pn = w.parent_ref(ti, p)
            if kids(pn):
                return False, False, "from_dict on a node with children"
            calc = lambda obj: calc_of(w, ti, obj)  # noqa: E731
        else:
            items = op[1]
            calc = lambda obj: hash(obj)  # noqa: E731

        def sim(lst):
            """pre-order, first problem wins: 'dup' | 'raise' | None"""
            seen = []
            for d, did, ch in lst:
                i = did if did is not None else calc(w.dobj(d))
                if i is RAISES:
                    return "raise"
                if i in seen:
                    return "dup"
                seen.append(i)
                r = sim(ch)
                if r:
                    return r
            return None

        r = sim(items)
        return r == "dup", r != "raise", k
    return False, True, k


def verdict(P, V, res, why=""):
    if P is None:
        return None
    refused_unique = res == [1, 1]
    if P and res[0] == 0:
        return f"collision accepted: {why} would give a parent two children with one data_id, but the call succeeded"
    if P and V and not refused_unique:
        return f"collision not refused with UniqueConstraintError: {why} -> outcome {res}"
    if P is False and refused_unique:
        return f"over-refusal: {why} places no second child with a present data_id, but UniqueConstraintError was raised"
    return None


def hooks(stats=None):
    """(pre, post) for mut_ex.replay"""
    def pre(w, si, op):
        try:
            return judge(w, op)
        except Exception as e:      # a corrupted state must not kill the oracle
            return (None, False, f"judge failed: {e!r}")

    def post(w, si, step, ctx):
        if ctx is None:
            return []
        P, V, why = ctx
        step["collision"] = [P, V]
        if stats is not None:
            key = ("collide" if P else "free" if P is False else "unjudged")
            stats[key] = stats.get(key, 0) + 1
            if P:
                stats["route:" + step["op"][0]] = stats.get("route:" + step["op"][0], 0) + 1
        m = verdict(P, V, step["res"], why)
        return [("collision", m)] if m else []

    return pre, post


# ---------------------------------------------------------------------------
# generator
# ---------------------------------------------------------------------------
COLLIDE = ["add", "add", "short_child", "short_sibling", "addnode", "addnode_other", "copyto_self", "copyto_children", "addtree",
           "move", "move", "remove_keep", "remove_keep_clones", "set_data", "set_data_id", "set_data_group", "rename", "rename", "rename", "from_dict",
           "from_dict_nested", "tree_from_dict", "merge_then_add", "merge_then_add", "after_failed_batch", "after_failed_batch", "after_promote", "after_promote"]
NEAR = ["other_parent", "other_id", "move_same_parent", "move_free", "copy_below_sibling", "keep_own_clone", "keep_free", "merge_groups",
        "set_same", "addnode_free", "from_dict_free", "rename_free"]


class Gen03(mut_c01.Gen01):
    collide_share = 0.86
    near_share = 0.1

    def step(self):
        r = self.rng.random()
        try:
            if r < self.collide_share:
                if getattr(self, "co_" + self.rng.choice(COLLIDE))():
                    return
            elif r < self.collide_share + self.near_share:
                if getattr(self, "nm_" + self.rng.choice(NEAR))():
                    return
        except Exception:
            pass
        # building material: mostly adds, the rest Gen01's mix
        if self.rng.random() < 0.5:
            ti = self.pick_tree()
            return self.do(["add", ti, self.any_node(ti), self.rng.randrange(len(self.univ)), self.rng.choice(mut.DIDS), self._kind(ti), None])
        return super().step()

    # -- picking -----------------------------------------------------------
    def ref(self, t, n):
        return 0 if n is t._root else self.w.rel(n)

    def parents_with(self, ti, k=1):
        t = self.w.trees[ti]
        return [p for p in [t._root] + walk(t) if len(kids(p)) >= k]

    def pick_pc(self, k=1):
        """(ti, tree, parent, child) with a parent holding >= k children"""
        for _ in range(6):
            ti = self.pick_tree()
            ps = self.parents_with(ti, k)
            if ps:
                p = self.rng.choice(ps)
                return ti, self.w.trees[ti], p, self.rng.choice(kids(p))
        return None

    def data_args(self, t, c):
        """(data index, explicit id) that reproduce c's data_id on a new node"""
        return self.w.U.index(c._data), mut_c01.explicit_did_of(t, c)

    def valid_before(self, t, p):
        ch = kids(p)
        opts = [None, None, True, False, 0, 1, -1]
        if ch:
            opts += [{"n": self.w.rel(self.rng.choice(ch))}]
        return self.rng.choice(opts)

    # -- colliding steps ---------------------------------------------------
    def co_add(self):
        x = self.pick_pc()
        if not x:
            return False
        ti, t, p, c = x
        d, did = self.data_args(t, c)
        self.do(["add", ti, self.ref(t, p), d, did, self._kind(ti), self.valid_before(t, p)])
        return True

    def co_short_child(self):
        x = self.pick_pc()
        if not x:
            return False
        ti, t, p, c = x
        d, did = self.data_args(t, c)
        self.do(["short", ti, self.ref(t, p), self.rng.choice(["append_child", "prepend_child"]), d, did, self._kind(ti)])
        return True

    def co_short_sibling(self):
        x = self.pick_pc()
        if not x:
            return False
        ti, t, p, c = x
        d, did = self.data_args(t, c)
        at = self.rng.choice(kids(p))
        self.do(["short", ti, self.w.rel(at), self.rng.choice(["prepend_sibling", "append_sibling"]), d, did, None])
        return True

    def same_id_nodes(self, c, trees=None):
        out = []
        for sti, st in enumerate(self.w.trees):
            if trees is not None and sti not in trees:
                continue
            for x in walk(st):
                if x._data_id == c._data_id:
                    out.append((sti, x))
        return out

    def co_addnode(self):
        x = self.pick_pc()
        if not x:
            return False
        ti, t, p, c = x
        sti, s = self.rng.choice(self.same_id_nodes(c))
        self.do(["addnode", ti, self.ref(t, p), sti, self.w.rel(s), None, self._kind(ti), self.valid_before(t, p),
                 self.rng.choice([None, False, True])])
        return True

    def co_addnode_other(self):
        """the source lives in another tree (made first if there is none)"""
        x = self.pick_pc()
        if not x or len(self.w.trees) < 2:
            return False
        ti, t, p, c = x
        others = [i for i in range(len(self.w.trees)) if i != ti and isinstance(self.w.trees[i], TypedTree) == isinstance(t, TypedTree)]
        if not others:
            return False
        cands = self.same_id_nodes(c, others)
        if not cands:
            sti = self.rng.choice(others)
            d, _ = self.data_args(t, c)
            did = c._data_id if isinstance(c._data_id, (int, str)) else None
            self.do(["add", sti, self.any_node(sti), d, did, self._kind(sti), None])
            cands = self.same_id_nodes(c, others)
            if not cands:
                return True
        sti, s = self.rng.choice(cands)
        self.do(["addnode", ti, self.ref(t, p), sti, self.w.rel(s), None, self._kind(ti), None, self.rng.choice([None, False, True])])
        return True

    def co_copyto_self(self):
        x = self.pick_pc()
        if not x:
            return False
        ti, t, p, c = x
        sti, s = self.rng.choice(self.same_id_nodes(c))
        self.do(["copyto", sti, self.w.rel(s), ti, self.ref(t, p), True, self.valid_before(t, p), self.rng.random() < 0.5])
        return True

    def co_copyto_children(self):
        """copy the children of S below P where some child of S has the id of a child of P"""
        x = self.pick_pc()
        if not x:
            return False
        ti, t, p, c = x
        cands = [(sti, s._parent) for sti, s in self.same_id_nodes(c)]
        sti, sp = self.rng.choice(cands)
        st = self.w.trees[sti]
        self.do(["copyto", sti, self.ref(st, sp), ti, self.ref(t, p), False, None, self.rng.random() < 0.5])
        return True

    def co_addtree(self):
        x = self.pick_pc()
        if not x:
            return False
        ti, t, p, c = x
        tops = [(sti, s) for sti, s in self.same_id_nodes(c) if s._parent is self.w.trees[sti]._root]
        tops = [(sti, s) for sti, s in tops if isinstance(self.w.trees[sti], TypedTree) == isinstance(t, TypedTree)]
        if not tops:
            # make one: a top-level node with that id in some tree of the same class
            same = [i for i in range(len(self.w.trees)) if isinstance(self.w.trees[i], TypedTree) == isinstance(t, TypedTree)]
            sti = self.rng.choice(same)
            d, _ = self.data_args(t, c)
            did = c._data_id if isinstance(c._data_id, (int, str)) else None
            self.do(["add", sti, 0, d, did, self._kind(sti), None])
            tops = [(sti, None)]
        sti = self.rng.choice(tops)[0]
        self.do(["addtree", ti, self.ref(t, p), sti, self.rng.choice([None, None, True, False, 0]), self.rng.choice([None, True, False])])
        return True

    def co_move(self):
        """a node with the id of a child of P, living elsewhere (made first if needed), is moved to P"""
        x = self.pick_pc()
        if not x:
            return False
        ti, t, p, c = x
        if isinstance(t, TypedTree):
            return False
        cl = [s for sti, s in self.same_id_nodes(c, [ti]) if s._parent is not p and not in_branch(s, p)]
        if not cl:
            qs = [q for q in [t._root] + walk(t) if q is not p and c._data_id not in kid_ids(q)]
            if not qs:
                return False
            q = self.rng.choice(qs)
            d, did = self.data_args(t, c)
            self.do(["add", ti, self.ref(t, q), d, did, None, None])
            cl = [s for sti, s in self.same_id_nodes(c, [ti]) if s._parent is not p and not in_branch(s, p)]
            if not cl:
                return True
        s = self.rng.choice(cl)
        self.do(["move", ti, self.w.rel(s), ti, self.ref(t, p), self.valid_before(t, p)])
        return True

    def _nest_dup(self, wc):
        """P has children c1, c2; a node with c2's id is put below c1; then c1 is removed with keep_children"""
        x = self.pick_pc(2)
        if not x:
            return False
        ti, t, p, _ = x
        c1, c2 = self.rng.sample(kids(p), 2)
        if c2._data_id not in kid_ids(c1):
            d, did = self.data_args(t, c2)
            self.do(["add", ti, self.w.rel(c1), d, did, self._kind(ti), self.rng.choice([None, True])])
        self.do(["remove", ti, self.w.rel(c1), True, wc])
        return True

    def co_remove_keep(self):
        return self._nest_dup(False)

    def co_remove_keep_clones(self):
        return self._nest_dup(True)

    def co_set_data(self):
        """data route: c1 gets the data (and so the id) of its sibling c2"""
        x = self.pick_pc(2)
        if not x:
            return False
        ti, t, p, _ = x
        c1, c2 = self.rng.sample(kids(p), 2)
        d, did = self.data_args(t, c2)
        has_clones = len(self.same_id_nodes(c1, [ti])) > 1
        self.do(["set_data", ti, self.w.rel(c1), d, did, self.rng.choice([False, True]) if has_clones else self.rng.choice([None, False, True])])
        return True

    def co_set_data_id(self):
        """id route: only the data_id is changed to the sibling's"""
        x = self.pick_pc(2)
        if not x:
            return False
        ti, t, p, _ = x
        c1, c2 = self.rng.sample(kids(p), 2)
        if not isinstance(c2._data_id, (int, str)):
            return False
        has_clones = len(self.same_id_nodes(c1, [ti])) > 1
        self.do(["set_data", ti, self.w.rel(c1), None, c2._data_id, self.rng.choice([False, True]) if has_clones else None])
        return True

    def co_set_data_group(self):
        """with_clones: the collision is at a CLONE's parent, not at the node the call is made on"""
        for _ in range(4):
            ti = self.pick_tree()
            t = self.w.trees[ti]
            nodes = walk(t)
            groups = {}
            for n in nodes:
                groups.setdefault(n._data_id, []).append(n)
            big = [g for g in groups.values() if len(g) > 1 and any(len(kids(m._parent)) > 1 for m in g)]
            if not big:
                # make a clone next to some other node
                x = self.pick_pc(1)
                if not x:
                    return False
                ti, t, p, c = x
                qs = [q for q in [t._root] + walk(t) if q is not p and kids(q) and c._data_id not in kid_ids(q)]
                if not qs:
                    return False
                d, did = self.data_args(t, c)
                self.do(["add", ti, self.ref(t, self.rng.choice(qs)), d, did, self._kind(ti), None])
                continue
            g = self.rng.choice(big)
            holder = self.rng.choice([m for m in g if len(kids(m._parent)) > 1])
            s = self.rng.choice([s for s in kids(holder._parent) if s is not holder])
            caller = self.rng.choice([m for m in g if m is not holder] or g)
            if self.rng.random() < 0.5 and isinstance(s._data_id, (int, str)):
                self.do(["set_data", ti, self.w.rel(caller), None, s._data_id, True])
            else:
                d, did = self.data_args(t, s)
                self.do(["set_data", ti, self.w.rel(caller), d, did, True])
            return True
        return False

    def co_merge_then_add(self):
        """clones of X elsewhere, a node Y under p; X is re-keyed to Y's id with_clones (legal: no X has a Y sibling), then
        Y's id is placed under p again by add / shortcut / copy - the refusal has to see the ORIGINAL Y node, whatever the
        re-keying did to the bookkeeping"""
        w, rng = self.w, self.rng
        for _ in range(4):
            x = self.pick_pc()
            if not x:
                return False
            ti, t, p, y = x
            nodes = walk(t)
            groups = {}
            for n in nodes:
                groups.setdefault(n._data_id, []).append(n)
            ok = [g for i, g in groups.items() if i != y._data_id and len(g) >= 2
                  and not any(y._data_id in kid_ids(m._parent) for m in g)]
            if not ok:
                # make a clone pair of some other node away from Y's id
                others = [n for n in nodes if n._data_id != y._data_id]
                if not others:
                    return False
                o = rng.choice(others)
                qs = [q for q in [t._root] + nodes if o._data_id not in kid_ids(q) and y._data_id not in kid_ids(q)]
                if not qs:
                    return False
                d, did = self.data_args(t, o)
                self.do(["add", ti, self.ref(t, rng.choice(qs)), d, did, self._kind(ti), None])
                continue
            g = rng.choice(ok)
            d, did = self.data_args(t, y)
            if rng.random() < 0.5 and isinstance(y._data_id, (int, str)):
                self.do(["set_data", ti, w.rel(rng.choice(g)), None, y._data_id, True])
            else:
                self.do(["set_data", ti, w.rel(rng.choice(g)), d, did, True])
            how = rng.choice(["add", "add", "short", "addnode"])
            if how == "add":
                self.do(["add", ti, self.ref(t, p), d, did, self._kind(ti), self.valid_before(t, p)])
            elif how == "short":
                self.do(["short", ti, self.ref(t, p), rng.choice(["append_child", "prepend_child"]), d, did, self._kind(ti)])
            else:
                src = rng.choice(g)
                self.do(["addnode", ti, self.ref(t, p), ti, w.rel(src), None, self._kind(ti), None, None])
            return True
        return False

    def co_after_failed_batch(self):
        """a batch copy (add(tree) / copy_to of children) that fails for an UNRELATED reason (a `before` node that is not a
        child of the target, plain nodes into a typed tree), then a colliding add into the same tree: whatever the failed
        batch switched on or off has to be back to normal"""
        w, rng = self.w, self.rng
        x = self.pick_pc()
        if not x:
            return False
        ti, t, p, c = x
        nodes = walk(t)
        foreign = [n for n in nodes if n._parent is not p]
        srcs = [i for i in range(len(w.trees)) if kids(w.trees[i]._root)]
        if not srcs:
            return False
        sti = rng.choice(srcs)
        mode = rng.choice(["before", "before", "types"])
        other_class = [i for i in srcs if isinstance(w.trees[i], TypedTree) != isinstance(t, TypedTree)]
        if mode == "types" and other_class:
            sti = rng.choice(other_class)
            self.do(["copyto", sti, 0, ti, self.ref(t, p), False, None, rng.random() < 0.5])
        elif foreign:
            self.do(["addtree", ti, self.ref(t, p), sti, {"n": w.rel(rng.choice(foreign))}, rng.choice([None, False])])
        else:
            return False
        return self.co_add() or True

    def co_after_promote(self):
        """a child c (its id carried by a clone elsewhere as well) is promoted by remove(keep_children=True) of its parent,
        or moved; then c's id is placed next to c again: the refusal has to look at c's CURRENT parent"""
        w, rng = self.w, self.rng
        for _ in range(5):
            ti = self.pick_tree()
            t = w.trees[ti]
            cands = [n for n in walk(t) if kids(n) and not has_dup([i for s_ in kids(n._parent) if s_ is not n for i in [s_._data_id]] + kid_ids(n))]
            if not cands:
                continue
            n = rng.choice(cands)
            c = rng.choice(kids(n))
            p = n._parent
            d, did = self.data_args(t, c)
            # a clone of c somewhere else, so that the id has a clone list before the promotion
            qs = [q for q in [t._root] + walk(t) if q is not n and q is not p and c._data_id not in kid_ids(q)]
            if qs and len(self.same_id_nodes(c, [ti])) < 2:
                self.do(["add", ti, self.ref(t, rng.choice(qs)), d, did, self._kind(ti), None])
            self.do(["remove", ti, w.rel(n), True, False])
            if c._tree is None:
                return True
            how = rng.choice(["add", "add", "short", "addnode"])
            pr = self.ref(t, c._parent)
            if how == "add":
                self.do(["add", ti, pr, d, did, self._kind(ti), self.valid_before(t, c._parent)])
            elif how == "short":
                self.do(["short", ti, w.rel(c), rng.choice(["prepend_sibling", "append_sibling"]), d, did, None])
            else:
                others = [s_ for _, s_ in self.same_id_nodes(c, [ti]) if s_ is not c]
                if others:
                    self.do(["addnode", ti, pr, ti, w.rel(rng.choice(others)), None, self._kind(ti), None, None])
                else:
                    self.do(["add", ti, pr, d, did, self._kind(ti), None])
            return True
        return False

    def co_rename(self):
        """two string siblings: the later one (so the check has to look past the first sibling) is renamed to the other"""
        for _ in range(6):
            ti = self.pick_tree()
            t = self.w.trees[ti]
            ps = [p for p in [t._root] + walk(t) if sum(1 for c in kids(p) if isinstance(c._data, str)) >= 2]
            if not ps:
                continue
            p = self.rng.choice(ps)
            ss = [c for c in kids(p) if isinstance(c._data, str)]
            c1, c2 = self.rng.sample(ss, 2)
            if len(self.same_id_nodes(c1, [ti])) > 1:
                continue
            self.do(["rename", ti, self.w.rel(c1), self.w.U.index(c2._data)])
            return True
        return False

    def _leaf(self, ti):
        t = self.w.trees[ti]
        ls = [n for n in walk(t) if not kids(n)]
        return self.rng.choice(ls) if ls else None

    def co_from_dict(self):
        ti = self.pick_tree()
        n = self._leaf(ti)
        if n is None:
            return False
        d = self.rng.randrange(len(self.univ))
        did = self.rng.choice([None, None, "X1"])
        other = [self.rng.randrange(len(self.univ)), self.rng.choice([None, "X2"]), []]
        items = [[d, did, []], other, [d, did, []]]
        self.rng.shuffle(items)
        self.do(["from_dict", ti, self.w.rel(n), items])
        return True

    def co_from_dict_nested(self):
        ti = self.pick_tree()
        n = self._leaf(ti)
        if n is None:
            return False
        d = self.rng.randrange(len(self.univ))
        e = self.rng.randrange(len(self.univ))
        self.do(["from_dict", ti, self.w.rel(n), [[e, "Q1", []], [e, "Q2", [[d, None, []], [e, "Q3", []], [d, None, []]]]]])
        return True

    def co_tree_from_dict(self):
        if len(self.w.trees) >= 3:
            return False
        d = self.rng.randrange(len(self.univ))
        self.do(["tree_from_dict", [[d, None, [[d, None, []]]], [d, None, []]]])
        return True

    # -- near misses (must NOT be refused) -----------------------------------
    def nm_other_parent(self):
        """the id of a child of P under a different parent Q"""
        x = self.pick_pc()
        if not x:
            return False
        ti, t, p, c = x
        qs = [q for q in [t._root] + walk(t) if q is not p and c._data_id not in kid_ids(q)]
        if not qs:
            return False
        d, did = self.data_args(t, c)
        q = self.rng.choice(qs)
        self.do(["add", ti, self.ref(t, q), d, did, self._kind(ti), self.valid_before(t, q)])
        return True

    def nm_other_id(self):
        """the same data object as a child of P, under a fresh explicit id"""
        x = self.pick_pc()
        if not x:
            return False
        ti, t, p, c = x
        fresh = f"Z{len(self.ops)}"
        self.do(["add", ti, self.ref(t, p), self.w.U.index(c._data), fresh, self._kind(ti), self.valid_before(t, p)])
        return True

    def nm_move_same_parent(self):
        """the only sibling with the moved node's id is the moved node itself"""
        x = self.pick_pc()
        if not x:
            return False
        ti, t, p, c = x
        if isinstance(t, TypedTree):
            return False
        self.do(["move", ti, self.w.rel(c), ti, self.ref(t, p), self.valid_before(t, p)])
        return True

    def nm_move_free(self):
        x = self.pick_pc()
        if not x:
            return False
        ti, t, p, c = x
        if isinstance(t, TypedTree):
            return False
        qs = [q for q in [t._root] + walk(t) if q is not p and c._data_id not in kid_ids(q) and not in_branch(c, q)]
        if not qs:
            return False
        q = self.rng.choice(qs)
        self.do(["move", ti, self.w.rel(c), ti, self.ref(t, q), self.valid_before(t, q)])
        return True

    def nm_copy_below_sibling(self):
        """copy a node below one of its own siblings (D12: the pre-check looked at the wrong parent)"""
        x = self.pick_pc(2)
        if not x:
            return False
        ti, t, p, _ = x
        c1, c2 = self.rng.sample(kids(p), 2)
        if c1._data_id in kid_ids(c2):
            return False
        if self.rng.random() < 0.5:
            self.do(["addnode", ti, self.w.rel(c2), ti, self.w.rel(c1), None, self._kind(ti), None, self.rng.choice([None, False, True])])
        else:
            self.do(["copyto", ti, self.w.rel(c1), ti, self.w.rel(c2), True, None, self.rng.random() < 0.5])
        return True

    def nm_keep_own_clone(self):
        """remove(keep_children) of a node whose child is a clone of the node itself: the child takes its place"""
        x = self.pick_pc()
        if not x:
            return False
        ti, t, p, c = x
        if c._data_id not in kid_ids(c):
            d, did = self.data_args(t, c)
            self.do(["add", ti, self.w.rel(c), d, did, self._kind(ti), None])
        self.do(["remove", ti, self.w.rel(c), True, False])
        return True

    def nm_keep_free(self):
        for _ in range(6):
            x = self.pick_pc()
            if not x:
                return False
            ti, t, p, c = x
            if kids(c) and not has_dup([i for s in kids(p) if s is not c for i in [s._data_id]] + kid_ids(c)):
                self.do(["remove", ti, self.w.rel(c), True, False])
                return True
        return False

    def nm_merge_groups(self):
        """re-key a node to an id that exists elsewhere in the tree but not among its siblings"""
        x = self.pick_pc()
        if not x:
            return False
        ti, t, p, c = x
        others = [o for o in walk(t) if o._data_id != c._data_id and o._data_id not in kid_ids(p)]
        if not others:
            return False
        o = self.rng.choice(others)
        has_clones = len(self.same_id_nodes(c, [ti])) > 1
        wc = self.rng.choice([False, True]) if has_clones else self.rng.choice([None, False, True])
        if has_clones and wc:
            # every member of the group must be free of the new id
            if any(o._data_id in kid_ids(m._parent) for _, m in self.same_id_nodes(c, [ti])):
                wc = False
        d, did = self.data_args(t, o)
        self.do(["set_data", ti, self.w.rel(c), d, did, wc])
        return True

    def nm_set_same(self):
        """set_data with the node's own data / own id next to siblings"""
        x = self.pick_pc(2)
        if not x:
            return False
        ti, t, p, c = x
        has_clones = len(self.same_id_nodes(c, [ti])) > 1
        did = c._data_id if isinstance(c._data_id, (int, str)) and self.rng.random() < 0.5 else None
        self.do(["set_data", ti, self.w.rel(c), self.w.U.index(c._data), did, False if has_clones else None])
        return True

    def nm_addnode_free(self):
        x = self.pick_pc()
        if not x:
            return False
        ti, t, p, c = x
        qs = [q for q in [t._root] + walk(t) if q is not p and c._data_id not in kid_ids(q) and not in_branch(c, q)]
        if not qs:
            return False
        q = self.rng.choice(qs)
        self.do(["addnode", ti, self.ref(t, q), ti, self.w.rel(c), None, self._kind(ti), self.valid_before(t, q), self.rng.choice([None, True, False])])
        return True

    def nm_from_dict_free(self):
        """the same id at different levels / under different parents of the new branch"""
        ti = self.pick_tree()
        n = self._leaf(ti)
        if n is None:
            return False
        d = self.rng.randrange(len(self.univ))
        e = (d + 1) % len(self.univ)
        self.do(["from_dict", ti, self.w.rel(n), [[d, "R1", [[d, "R1", []], [e, "R2", []]]], [e, "R2", [[d, "R1", []]]]]])
        return True

    def nm_rename_free(self):
        ti = self.pick_tree()
        t = self.w.trees[ti]
        ss = [n for n in walk(t) if isinstance(n._data, str) and len(self.same_id_nodes(n, [ti])) == 1]
        strs = [i for i, s in enumerate(self.univ) if s.startswith("s:")]
        if not ss or not strs:
            return False
        n = self.rng.choice(ss)
        free = [i for i in strs if calc_of(self.w, ti, self.w.dobj(i)) not in kid_ids(n._parent)]
        if not free:
            return False
        self.do(["rename", ti, self.w.rel(n), self.rng.choice(free)])
        return True


def gen_history(rng, n_ops=30, **kw):
    return mut_c01.gen_history(rng, n_ops, cls=Gen03, init=(2, 4), **kw)


# ---------------------------------------------------------------------------------------------------------
# Tree.load / TypedTree.load as an operation of the mutation machine (Mut/MachineLoad.v): a part attached to
# C03 (harness/parts.py).  The hand-made node lists run through the implementation (Tree.load of a native
# file), the independent collision oracle AND the model ([CaseLoad.run_load]: result, full state, wf flag).
class LoadPart:
    tag = "load"
    case_module = "CaseLoad"
    case_vo = "theories/Cases/CaseLoad.vo"
    run_fn = "run_load"
    rule = ("hand-made and generated native node lists (parent index, label | reference) loaded with Tree.load / TypedTree.load: "
            "outcome (error class) and the whole loaded tree (nodes in creation order, clones, registry, index, parents) equal the "
            "model's op_load; files with two entries of one data_id under one parent must be refused with UniqueConstraintError "
            "(oracle computed from the file), all others must load; the model's world stays well-formed")

    def __init__(self, corpus, gen, oracle):
        self.corpus, self.gen, self.oracle = corpus, gen, oracle

    def descs(self, tier, rng):
        for c in self.corpus:
            yield dict(nodes=c["nodes"], typed=False, corpus=c["id"])
            yield dict(nodes=c["nodes"], typed=True, corpus=c["id"] + "/typed")
        for i in range(150 if tier == "quick" else 1500):
            yield dict(nodes=self.gen(rng), typed=(i % 4 == 3))

    def shrink_candidates(self, desc):
        nodes = desc["nodes"]
        for i in range(len(nodes) - 1, -1, -1):
            if any(p == i + 1 or (isinstance(d, int) and not isinstance(d, bool) and d == i + 1) for p, d in nodes):
                continue
            rest = [[p - (1 if p > i + 1 else 0), (d - (1 if d > i + 1 else 0)) if isinstance(d, int) else d]
                    for k, (p, d) in enumerate(nodes) if k != i]
            yield dict(nodes=rest, typed=desc.get("typed", False))

    def run(self, desc):
        import io
        import json
        import common as H
        nodes, typed = desc["nodes"], bool(desc.get("typed"))
        w = mut.World([])
        cls = H.TypedTree if typed else H.Tree
        text = json.dumps({"meta": {"$generator": "nutree/0.9.1", "$format_version": "1.0"}, "nodes": nodes})
        try:
            t = cls.load(io.StringIO(text))
            w.trees.append(t)
            res = [0, [0]]
        except Exception as e:   # the outcome is an observation
            t = None
            res = [1, H.err_class(e)]
        # data objects in creation order (the library creates them: one str per data entry, clones share theirs)
        created = [w.raw(k) for k in range(1, w.allocated() + 1)]
        for nd in created:
            w.U.index(nd._data)
        ents = []
        for k, (pidx, dat) in enumerate(nodes):
            if isinstance(dat, int) and not isinstance(dat, bool):
                ents.append(f"(LRef {pidx} {dat})")
            else:
                obj = created[k]._data if k < len(created) and created[k]._data == dat else dat
                a = w.U.info(obj)
                d = f"(D {H.z(a['obj'])} {H.z(a['eqc'])} {H.z(a['hash'])} {H.coq_bool(a['isstr'])} {H.coq_text(a['name'])})"
                ents.append(f"(LData {pidx} {d} None None)")
        term = f"(CLoad {H.coq_bool(typed)} {H.coq_list(ents)})"
        obs = [res, w.obs(), True]
        _res, collide, msg = self.oracle(nodes, typed=typed, loaded=(t, res))
        return H.Case(desc=desc, coq_input=term, impl_obs=obs, oracle_fail=msg, nontrivial=True,
                      key=H.digest([nodes, typed]), stats=dict(kind="load file", collides=collide, typed=typed, entries=len(nodes) // 3 * 3))


def gen_after_failed_batch():
    """two trees; add(tree) with a `before` node that is not a child of the target fails inside the batch; then every add
    of every present data object under every parent of the target tree (colliding and not)"""
    univ = ["s:a", "s:b", "s:c", "s:x", "s:y", "s:new"]
    base = [["new", False, None], ["new", False, None],
            ["add", 0, 0, 0, None, None, None], ["add", 0, 0, 1, None, None, None], ["add", 0, 2, 2, None, None, None],
            ["add", 1, 0, 3, None, None, None], ["add", 1, 0, 4, None, None, None]]
    for fail in (["addtree", 0, 2, 1, {"n": 1}, None], ["addtree", 0, 0, 1, {"n": 3}, False], ["addtree", 1, 4, 0, {"n": 5}, None]):
        alts = []
        for ti, ps in ((0, [0, 1, 2, 3]), (1, [0, 4, 5])):
            for p in ps:
                for d in range(6):
                    alts.append(["add", ti, p, d, None, None, None])
                alts.append(["short", ti, p, "prepend_child", 0, None, None])
        alts += [["addnode", 0, 0, 0, 3, None, None, None, None], ["addnode", 0, 2, 0, 3, None, None, None, True],
                 ["copyto", 0, 2, 0, 2, False, None, False], ["addtree", 0, 0, 0, None, False], ["addtree", 1, 0, 1, None, None]]
        yield dict(univ=univ, setup=base + [fail], alts=alts, label="after-failed-batch", n=5)


def gen_after_promote():
    """P holds n(c, e); a clone of c lives elsewhere; n is removed with keep_children (c, e promoted to P) or c is moved;
    then every add of every data object under every parent (the colliding ones are next to the promoted / moved nodes)"""
    univ = ["s:n", "s:c", "s:e", "s:q", "s:new"]
    base = [["new", False, None],
            ["add", 0, 0, 0, None, None, None], ["add", 0, 1, 1, None, None, None], ["add", 0, 1, 2, None, None, None],   # 1 = n(2 = c, 3 = e)
            ["add", 0, 0, 3, None, None, None], ["add", 0, 4, 1, None, None, None], ["add", 0, 4, 2, None, None, None]]   # 4 = q(5 = c', 6 = e')
    for change in (["remove", 0, 1, True, False], ["move", 0, 2, 0, 0, None], ["remove", 0, 4, True, False], ["move", 0, 5, 0, 3, None]):
        alts = []
        for p in range(0, 7):
            for d in range(5):
                alts.append(["add", 0, p, d, None, None, None])
        for src in (2, 5, 3, 6):
            for p in (0, 1, 4):
                alts.append(["addnode", 0, p, 0, src, None, None, None, None])
        yield dict(univ=univ, setup=base + [change], alts=alts, label="after-promote", n=6)
