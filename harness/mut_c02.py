"""C02: probing every tree through the public lookup API after every step, the independent pointer-walk oracle
for the answers, and a history generator that interleaves set_data on single nodes and on clone groups.

Probe keys (per tree; the Coq side is `Lookup.probe`, rendered by `Lookup.sx_probe`):
    ("count",)        tree.count (= len(tree)), tree.count_unique
    ("data", d)       universe object d:  find_all(obj), find_first(obj), obj in tree, tree[obj], tree.calc_data_id(obj)
    ("did", e)        an int/str e:       find_all(data_id=e), find_first(data_id=e), find_all(e), e in tree, tree[e],
                                          find_all(data_id=e, max_results=k) for k = 0..3
    ("nid", n)        node_id k of node n: find_first(node_id=k), tree[k]
    ("node", n)       the node n (while it is in this tree): get_clones(), get_clones(add_self=True), is_clone(), n in tree
The static keys (count, every universe object, every data_id that can occur in the history: explicit ids of the ops,
what every calc_data_id callback of the history answers for every universe object, and a few ids that never occur)
exist from the creation of the tree; ("nid", n) from the step that allocates node n (the first 12 nodes in every tree,
later ones in the tree they are created in); ("node", n) from the first step after which n is in the tree.
Answers are nested lists in the encoding of `Lookup.sx_probe`; a probe that cannot be asked is `[]`.
"""
from __future__ import annotations

import common as H
import mut
import mut_c01
from mut import CallbackFault
from nutree.common import AmbiguousMatchError

RAISES = object()
ABSENT_DIDS = ["nope", 424242, -1]
NID_EVERYWHERE = 12


def reach(t):
    out = []

    def rec(n, depth):
        for c in (n._children or []):
            out.append(c)
            if depth < 300:
                rec(c, depth + 1)

    rec(t._root, 0)
    return out


def calc_fn_of(w, ti):
    return w.calc_fn(w.calcs[ti]) if ti < len(w.calcs) else None


def calc_of(w, ti, obj):
    """the harness's own evaluation of the tree's id rule: callback if the tree has one, else hash()"""
    fn = calc_fn_of(w, ti)
    try:
        v = hash(obj) if fn is None else fn(w.trees[ti], obj)
        return v if isinstance(v, (int, str)) else RAISES      # an unhashable answer is as unusable as a raising hook
    except (CallbackFault, TypeError):
        return RAISES


def spec_fn_name(spec):
    if spec is None:
        return None
    return spec if isinstance(spec, str) else spec.get("fn")


def scan_dids(ops):
    """every explicit data_id literal that occurs in the ops"""
    out = []

    def add(x):
        if x is not None and not isinstance(x, bool) and isinstance(x, (int, str)) and not any(x == y and type(x) is type(y) for y in out):
            out.append(x)

    def items(lst):
        for d, did, ch in lst:
            add(did)
            items(ch)

    for op in ops:
        k = op[0]
        if k == "add":
            add(op[4])
        elif k == "short":
            add(op[5])
        elif k == "addnode":
            add(op[5])
        elif k == "set_data":
            add(op[4])
        elif k == "del" and "id" in op[2]:
            add(op[2]["id"])
        elif k == "from_dict":
            items(op[3])
        elif k == "tree_from_dict":
            items(op[1])
        elif k == "iter_remove":
            add(op[2])
    return out


def canon_data(w):
    return [i for i, o in enumerate(w.U.objs) if w.U.index(o) == i]


def usable_did(v):
    """rendering of an id the hook answered; an unhashable answer is as unusable as a raising hook (mut.outcome_of)"""
    if not isinstance(v, (int, str)):
        raise TypeError("unhashable data_id")
    return mut.did_sx(v)


def cb(f):
    """[0, value] or [1] when the call raises"""
    try:
        return [0, f()]
    except Exception:
        return [1]


class Prober:
    def __init__(self, ops):
        self.ops = ops
        self.keys = []          # per tree: list of keys in order of appearance
        self.obs = []           # per step: per tree: dict key -> answer
        self.nid = {}           # node -> node_id int (recorded at allocation)
        self.static_dids = None
        self.seen_alloc = 0
        self.nscribble = 0
        self.alias_msg = None   # set by observe() when re-probing gives other answers than the first pass

    # -- key management -----------------------------------------------------
    def _init_dids(self, w):
        dids = scan_dids(self.ops)
        specs = [None] + [op[2] for op in self.ops if op[0] == "new"]
        for spec in specs:
            fn = w.calc_fn(spec)
            for i in canon_data(w):
                o = w.U.objs[i]
                try:
                    v = hash(o) if fn is None else fn(None, o)
                except (CallbackFault, TypeError):
                    continue
                if not isinstance(v, (int, str)):
                    continue        # a hook answering an unhashable value: such a node can never exist, nothing to look up
                if not any(v == y and type(v) is type(y) for y in dids):
                    dids.append(v)
        for x in ABSENT_DIDS:
            if not any(x == y and type(x) is type(y) for y in dids):
                dids.append(x)
        self.static_dids = dids

    def update_keys(self, w):
        if self.static_dids is None:
            self._init_dids(w)
        # new nodes: record node ids
        for n in range(self.seen_alloc + 1, w.allocated() + 1):
            nd = w.raw(n)
            k = getattr(nd, "_node_id", None)
            if isinstance(k, int):
                self.nid[n] = k
        new_nodes = list(range(self.seen_alloc + 1, w.allocated() + 1))
        self.seen_alloc = w.allocated()
        # new trees
        while len(self.keys) < len(w.trees):
            ks = [("count",)] + [("data", i) for i in canon_data(w)] + [("did", e) for e in self.static_dids]
            ks += [("nid", n) for n in sorted(self.nid) if n <= NID_EVERYWHERE and n not in new_nodes]
            self.keys.append(ks)
        for ti, t in enumerate(w.trees):
            ks = self.keys[ti]
            have = set(k for k in ks if k[0] in ("nid", "node"))
            for n in new_nodes:
                if n in self.nid and n <= NID_EVERYWHERE and ("nid", n) not in have:
                    ks.append(("nid", n))
                    have.add(("nid", n))
            for nd in reach(t):
                n = w.rel(nd)
                if n in self.nid and ("nid", n) not in have:
                    ks.append(("nid", n))
                    have.add(("nid", n))
                if n in self.nid and ("node", n) not in have:
                    ks.append(("node", n))
                    have.add(("node", n))

    # -- asking the implementation (public API only) ---------------------------
    def ids(self, w, nodes):
        """read a list-valued answer, then behave as a hostile caller: the returned object is reversed / popped /
        cleared.  A lookup result is a snapshot - nothing the caller does to it may show in any later answer."""
        out = [w.rel(x) for x in nodes]
        if isinstance(nodes, list) and nodes:
            mode = self.nscribble % 3
            self.nscribble += 1
            if mode == 0:
                nodes.reverse()
            elif mode == 1:
                nodes.pop()
            else:
                nodes.clear()
        return out

    def getitem(self, w, t, key):
        try:
            return [0, [w.rel(t[key])]]
        except Exception as e:
            return mut.outcome_of(e)      # a raising hook and an unhashable id are one outcome (8)

    def safe_ask(self, w, ti, key):
        """ask, total: a query that raises on a corrupted index (get_clones / is_clone: KeyError ...) is an
        answer the model never gives, not a harness error"""
        try:
            return self.ask(w, ti, key)
        except Exception as e:
            return [-9, H.err_class(e)]

    def ask(self, w, ti, key):
        t = w.trees[ti]
        k = key[0]
        if k == "count":
            return [t.count, t.count_unique]
        if k == "data":
            o = w.U.objs[key[1]]
            return [cb(lambda: self.ids(w, t.find_all(o))),
                    cb(lambda: H.sx_opt((lambda r: None if r is None else w.rel(r))(t.find_first(o)))),
                    cb(lambda: bool(o in t)),
                    self.getitem(w, t, o),
                    cb(lambda: usable_did(t.calc_data_id(o)))]
        if k == "did":
            e = key[1]
            return [self.ids(w, t.find_all(data_id=e)),
                    H.sx_opt((lambda r: None if r is None else w.rel(r))(t.find_first(data_id=e))),
                    cb(lambda: self.ids(w, t.find_all(e))),
                    cb(lambda: bool(e in t)),
                    self.getitem(w, t, e),
                    [self.ids(w, t.find_all(data_id=e, max_results=k)) for k in (0, 1, 2, 3)]]
        if k == "nid":
            nk = self.nid[key[1]]
            return [H.sx_opt((lambda r: None if r is None else w.rel(r))(t.find_first(node_id=nk))),
                    self.getitem(w, t, nk)]
        if k == "node":
            nd = w.live_node(key[1], ti)
            if nd is None or not any(nd is x for x in reach(t)):
                return []
            out = [self.ids(w, nd.get_clones()), self.ids(w, nd.get_clones(add_self=True)), bool(nd.is_clone())]
            out.append(cb(lambda: bool(nd in t)) if self.node_in_probed(w, ti) else [])
            return out
        raise ValueError(key)

    def node_in_probed(self, w, ti):
        spec = w.calcs[ti] if ti < len(w.calcs) else None
        return spec_fn_name(spec) != "name"

    def observe(self, w):
        self.update_keys(w)
        first = []
        for ti in range(len(w.trees)):
            first.append({key: self.safe_ask(w, ti, key) for key in self.keys[ti]})
        # second pass, after the first one scribbled on every list it was given: same questions, same answers
        cur = []
        self.alias_msg = None
        for ti in range(len(w.trees)):
            again = {key: self.safe_ask(w, ti, key) for key in self.keys[ti]}
            cur.append(again)
            if self.alias_msg is None:
                for key in self.keys[ti]:
                    if again[key] != first[ti][key]:
                        self.alias_msg = (f"tree {ti}: probe {key!r} answered {first[ti][key]} and, after the caller reversed/popped/cleared "
                                          f"the lists it had been given, {again[key]} (a lookup result must be a snapshot)")
                        break
        self.obs.append(cur)
        return cur

    # -- results held across a step ------------------------------------------------
    def hold(self, w):
        """before a step: keep the list objects of find_all(data_id=) for every id with carriers and of
        get_clones(add_self=True) of one carrier each, together with copies"""
        held = []
        if self.static_dids is None:
            return held
        for ti, t in enumerate(w.trees):
            for e in self.static_dids:
                try:
                    r = t.find_all(data_id=e)
                except Exception:
                    continue
                if r:
                    held.append((f"tree {ti}: find_all(data_id={e!r})", r, list(r)))
                    try:
                        c = r[0].get_clones(add_self=True)
                        held.append((f"tree {ti}: node {w.rel(r[0])}.get_clones(add_self=True)", c, list(c)))
                    except Exception:
                        pass
        return held

    def check_held(self, w, held):
        for what, obj, snap in held or []:
            if len(obj) != len(snap) or any(a is not b for a, b in zip(obj, snap)):
                return (f"{what} was obtained before the step as {[w.rel(x) for x in snap]}; after the step the same list object reads "
                        f"{[w.rel(x) if x is not None else None for x in obj]} (a lookup result must be a snapshot)")
        return None

    # -- rendering -------------------------------------------------------------
    def column(self, step_obs, ti):
        """answers of one step for tree ti under the FINAL key list ([] where the key was not known yet)"""
        if ti >= len(step_obs):
            return None
        return [step_obs[ti].get(key, []) for key in self.keys[ti]]

    def deltas(self, old_obs, new_obs):
        out = []
        for ti in range(len(new_obs)):
            new = self.column(new_obs, ti)
            old = self.column(old_obs, ti) if old_obs is not None else None
            d = []
            for i, x in enumerate(new):
                if old is None or old[i] != x:
                    d.append([i, x])
            out.append(d)
        return out

    def coq_probes(self, w):
        pss = []
        for ti, ks in enumerate(self.keys):
            ents = []
            for key in ks:
                k = key[0]
                if k == "count":
                    ents.append("PCount")
                elif k == "data":
                    o = w.U.objs[key[1]]
                    as_did = H.coq_did(o) if isinstance(o, (int, str)) and not isinstance(o, bool) else None
                    ents.append(f"(PData {w.coq_dat(key[1])} {'None' if as_did is None else '(Some ' + as_did + ')'})")
                elif k == "did":
                    ents.append(f"(PDid {H.coq_did(key[1])} {self.coq_fb(w, ti, key[1])})")
                elif k == "nid":
                    ents.append(f"(PNid {key[1]} {self.coq_fb(w, ti, self.nid[key[1]])})")
                elif k == "node":
                    if self.node_in_probed(w, ti):
                        ents.append(f"(PNode {key[1]} (Some {self.coq_fb(w, ti, w.raw(key[1]))}))")
                    else:
                        ents.append(f"(PNode {key[1]} None)")
            pss.append(H.coq_list(ents))
        return H.coq_list(pss)

    def coq_fb(self, w, ti, obj):
        v = calc_of(w, ti, obj)
        if v is RAISES:
            return "None"
        return f"(Some {H.coq_did(v)})"


# ---------------------------------------------------------------------------
# the oracle: what the answers have to be, from a pointer walk
# ---------------------------------------------------------------------------
def same_id(a, b):
    return a == b


def lookup_oracle(w, ti, prober, answers):
    """answers: dict key -> observed answer for tree ti.  Returns None or the first problem."""
    t = w.trees[ti]
    R = reach(t)
    rel = w.rel

    def with_id(e):
        return sorted(rel(n) for n in R if same_id(n._data_id, e))

    def chk_list(what, got, exp):
        if len(set(got)) != len(got):
            return f"{what}: a node is listed twice: {got}"
        if sorted(got) != exp:
            stale = [x for x in got if x not in exp]
            missing = [x for x in exp if x not in got]
            return f"{what}: returned {got}, the nodes in the tree carrying that id are {exp}" + (
                f" (not in the tree / other id: {stale})" if stale else "") + (f" (missing: {missing})" if missing else "")
        return None

    def chk_first(what, got, exp):
        if (got == []) != (exp == []) or (got and got[0] not in exp):
            return f"{what}: returned {got}, the nodes in the tree carrying that id are {exp}"
        return None

    def chk_item(what, got, cands):
        if len(cands) == 0:
            want = [1, 4]
        elif len(cands) == 1:
            want = [0, [cands[0]]]
        else:
            want = [1, 2]
        if got != want:
            return f"{what}: outcome {got}, expected {want} (matching nodes {cands})"
        return None

    for key, got in answers.items():
        k = key[0]
        if k == "count":
            nuniq = []
            for n in R:
                if not any(same_id(n._data_id, x) for x in nuniq):
                    nuniq.append(n._data_id)
            if got != [len(R), len(nuniq)]:
                return f"count/count_unique = {got}, reachable nodes {len(R)}, distinct data_ids {len(nuniq)}"
            if len(t) != len(R):
                return f"len(tree) = {len(t)}, reachable nodes {len(R)}"
        elif k == "data":
            o = w.U.objs[key[1]]
            e = calc_of(w, ti, o)
            name = f"data object #{key[1]} ({w.univ_specs[key[1]] if key[1] < len(w.univ_specs) else '?'})"
            if e is RAISES:
                if got[0] != [1] or got[1] != [1] or got[2] != [1] or got[4] != [1]:
                    return f"{name}: the id callback raises, but a lookup answered {got}"
                continue
            exp = with_id(e)
            if got[4] != [0, mut.did_sx(e)]:
                return f"calc_data_id({name}) = {got[4]}, the id rule (callback, else hash) gives {e!r}"
            for what, g in (("find_all", got[0]), ("find_first", got[1]), ("in", got[2])):
                if g[0] != 0:
                    return f"{what}({name}) raised"
            m = chk_list(f"find_all({name})", got[0][1], exp) or chk_first(f"find_first({name})", got[1][1], exp)
            if m:
                return m
            if got[2][1] != bool(exp):
                return f"({name} in tree) = {got[2][1]}, nodes in the tree carrying its id: {exp}"
            cands = exp
            if isinstance(o, (int, str)) and not isinstance(o, bool) and with_id(o):
                cands = with_id(o)             # documented: an int/str key is taken as data_id first
            m = chk_item(f"tree[{name}]", got[3], cands)
            if m:
                return m
        elif k == "did":
            e = key[1]
            exp = with_id(e)
            m = chk_list(f"find_all(data_id={e!r})", got[0], exp) or chk_first(f"find_first(data_id={e!r})", got[1], exp)
            if m:
                return m
            fb = calc_of(w, ti, e)
            if fb is RAISES:
                if got[2] != [1] or got[3] != [1]:
                    return f"find_all({e!r}) / in: the id callback raises, but the lookup answered {got[2]} {got[3]}"
                cands = exp if exp else None
            else:
                expd = with_id(fb)
                if got[2][0] != 0 or got[3][0] != 0:
                    return f"find_all({e!r}) / in raised"
                m = chk_list(f"find_all({e!r})", got[2][1], expd)
                if m:
                    return m
                if got[3][1] != bool(expd):
                    return f"({e!r} in tree) = {got[3][1]}, nodes carrying the id of that object: {expd}"
                cands = exp if exp else expd
            if cands is None:
                if got[4][0] != 1:
                    return f"tree[{e!r}]: the id callback raises and no node has that id, outcome {got[4]}"
            else:
                m = chk_item(f"tree[{e!r}]", got[4], cands)
                if m:
                    return m
            for k, g in zip((0, 1, 2, 3), got[5]):
                # at most k (0 = no limit) of the carriers, none twice, as many as there are up to the limit
                want = len(exp) if k == 0 else min(k, len(exp))
                if len(set(g)) != len(g) or any(x not in exp for x in g) or len(g) != want:
                    return f"find_all(data_id={e!r}, max_results={k}) returned {g}, carriers of that id: {exp}"
        elif k == "nid":
            nk = prober.nid[key[1]]
            holder = [rel(n) for n in R if n._node_id == nk]
            if got[0] != holder[:1] or len(holder) > 1:
                return f"find_first(node_id of node {key[1]}) = {got[0]}, reachable nodes with that node_id: {holder}"
            if holder:
                if got[1] != [0, holder]:
                    return f"tree[node_id of node {key[1]}] = {got[1]}, expected that node"
            else:
                fb = calc_of(w, ti, nk)
                if fb is RAISES:
                    if got[1][0] != 1:
                        return f"tree[stale node_id of {key[1]}] answered {got[1]}"
                else:
                    m = chk_item(f"tree[stale node_id of node {key[1]}]", got[1], with_id(nk) or with_id(fb))
                    if m:
                        return m
        elif k == "node":
            if got == []:
                continue
            nd = w.raw(key[1])
            grp = with_id(nd._data_id)
            me = key[1]
            m = chk_list(f"node {me}.get_clones()", got[0], [x for x in grp if x != me]) or \
                chk_list(f"node {me}.get_clones(add_self=True)", got[1], grp)
            if m:
                return m
            if got[2] != (len(grp) > 1):
                return f"node {me}.is_clone() = {got[2]}, nodes carrying its id: {grp}"
    return None


def provenance_oracle(w, step):
    """a node created from a data object gets: the explicit data_id, else the callback's answer, else hash(data)"""
    op, res = step["op"], step["res"]
    if res[0] != 0:
        return None
    k = op[0]
    if k == "add":
        ti, d, did = op[1], op[3], op[4]
    elif k == "short":
        ti, d, did = op[1], op[4], op[5]
    else:
        return None
    nd = w.raw(res[1][0]) if res[1] else None
    if nd is None:
        return None
    exp = did if did is not None else calc_of(w, ti, w.dobj(d))
    if exp is RAISES or nd._data_id != exp or nd.data_id != exp:
        return f"provenance: new node {res[1][0]} has data_id {nd._data_id!r}, expected {exp!r} ({'explicit' if did is not None else 'callback/hash'})"
    if nd._data is not w.dobj(d):
        return f"provenance: new node {res[1][0]} does not hold the data object it was created with"
    return None


COPY_OPS = ("addnode", "copyto", "addtree", "treecopy", "nodecopy")


def snap_branch(n, deep):
    return (n._data, n._data_id, [snap_branch(c, True) for c in (n._children or [])] if deep else [])


def copy_sources(w, op):
    """what a copying op copies: list of (data object, data_id, children...) taken BEFORE the op; None = not judged"""
    k = op[0]
    try:
        if k == "addnode":
            _, ti, p, sti, src, did, kind, before, deep = op
            sn = w.live_node(src, sti)
            s = snap_branch(sn, bool(deep))
            return [(s[0], did if did is not None else s[1], s[2])]
        if k == "copyto":
            _, sti, src, ti, target, add_self, before, deep = op
            if add_self:
                return [snap_branch(w.live_node(src, sti), bool(deep))]
            root = w.trees[sti]._root if src == 0 else w.live_node(src, sti)
            return [snap_branch(c, bool(deep)) for c in (root._children or [])]
        if k == "addtree":
            _, ti, p, sti, before, deep = op
            return [snap_branch(c, deep is not False) for c in (w.trees[sti]._root._children or [])]
        if k == "treecopy":
            return [snap_branch(c, True) for c in (w.trees[op[1]]._root._children or [])]
        if k == "nodecopy":
            _, sti, src, add_self = op
            sn = w.live_node(src, sti)
            return [snap_branch(sn, True)] if add_self else [snap_branch(c, True) for c in (sn._children or [])]
    except Exception:
        return None
    return None


def copy_provenance_oracle(w, step, sources):
    """a copied node carries the data_id of the node it was copied from (at every depth of a deep copy)"""
    if sources is None or step["res"][0] != 0:
        return None
    new = [w.raw(n) for n in step.get("new_ids", [])]
    new = [n for n in new if n is not None and getattr(n, "_tree", None) is not None]
    newset = {id(n) for n in new}
    roots = [n for n in new if id(n._parent) not in newset]

    def match(nodes, snaps):
        used = [False] * len(snaps)
        for nd in nodes:
            cands = [i for i, sn in enumerate(snaps) if not used[i] and sn[0] is nd._data]
            if not cands:
                continue
            hit = [i for i in cands if snaps[i][1] == nd._data_id]
            if not hit:
                return (f"provenance: copied node {w.rel(nd)} has data_id {nd._data_id!r}; the source node(s) holding the same data object "
                        f"carry {[snaps[i][1] for i in cands]!r}")
            used[hit[0]] = True
            m = match(list(nd._children or []), snaps[hit[0]][2])
            if m:
                return m
        return None

    return match(roots, sources)


def setdata_pre(w, op):
    if op[0] not in ("set_data", "rename"):
        return None
    nd = w.live_node(op[2], op[1])
    if nd is None:
        return None
    # the clone group BEFORE the call, by an identity walk (not by the index under test)
    group = [x for x in mut.tree_nodes(w.trees[op[1]]) if x._data_id == nd._data_id and type(x._data_id) is type(nd._data_id)]
    return (nd, nd._data, nd._data_id, group)


def setdata_oracle(w, step, before):
    """after a successful set_data(d, data_id=e) / rename(d): the node holds exactly the object d (identity, however
    d compares with the old data), its data_id is e if given, else the id rule applied to d if d is another object than
    before, else unchanged; and the node is found under that id (and by find_all(d) when no explicit id was given)"""
    op, res = step["op"], step["res"]
    if before is None or res[0] != 0:
        return None
    nd, old_data, old_id, group = before
    ti = op[1]
    if op[0] == "rename":
        d, did = op[3], None
    else:
        d, did = op[3], op[4]
    t = w.trees[ti]
    me = w.rel(nd)
    if d is not None and nd._data is not w.dobj(d):
        return (f"set_data: node {me} was given data object #{d} but holds another object afterwards "
                f"(holds the old one: {nd._data is old_data})")
    exp = did
    if exp is None:
        exp = calc_of(w, ti, w.dobj(d)) if (d is not None and w.dobj(d) is not old_data) else old_id
    if exp is RAISES:
        return None
    if nd._data_id != exp or nd.data_id != exp:
        return f"set_data: node {me} has data_id {nd._data_id!r} afterwards, expected {exp!r}"
    try:
        if not any(x is nd for x in t.find_all(data_id=exp)):
            return f"set_data: node {me} is not found by find_all(data_id={exp!r}) after it was re-keyed"
        if did is None and d is not None and w.dobj(d) is not old_data and not any(x is nd for x in t.find_all(w.dobj(d))):
            return f"set_data: node {me} is not found by find_all(<data object #{d}>) after set_data with that object"
        if op[0] == "set_data" and op[5] is True and len(group) > 1:
            # with_clones=True: EVERY node that carried the old id takes the new id (and the new data object) along
            for x in group:
                if x._data_id != exp:
                    return (f"set_data(with_clones=True) on node {me}: clone {w.rel(x)} of the group of {len(group)} still has "
                            f"data_id {x._data_id!r}, expected {exp!r}")
                if d is not None and w.dobj(d) is not old_data and x._data is not w.dobj(d):
                    return f"set_data(with_clones=True) on node {me}: clone {w.rel(x)} does not hold the new data object"
                if not any(y is x for y in t.find_all(data_id=exp)):
                    return f"set_data(with_clones=True) on node {me}: clone {w.rel(x)} is not found under the new id {exp!r}"
    except Exception as e:
        return f"set_data: lookup after set_data raised {e!r}"
    return None


def hooks(ops, stats=None, probe_from=0):
    """(prober, pre, post) for mut_ex.replay.  Steps before `probe_from` are not probed (their entry in
    prober.obs is None): an alternative of an exhaustive group only needs the answers after its set-up."""
    pr = Prober(ops)

    def pre(w, si, op):
        if si < probe_from:
            return None
        return dict(held=pr.hold(w), sources=copy_sources(w, op) if op[0] in COPY_OPS else None, setdata=setdata_pre(w, op))

    def post(w, si, step, ctx):
        if si < probe_from:
            pr.obs.append(None)
            return []
        held_msg = pr.check_held(w, ctx["held"]) if ctx else None
        cur = pr.observe(w)
        out = []
        if held_msg:
            out.append(("lookup", held_msg))
        if pr.alias_msg:
            out.append(("lookup", pr.alias_msg))
        if ctx and ctx.get("setdata") is not None:
            m = setdata_oracle(w, step, ctx["setdata"])
            if m:
                out.append(("lookup", m))
        if ctx and ctx.get("sources") is not None:
            m = copy_provenance_oracle(w, step, ctx["sources"])
            if m:
                out.append(("lookup", m))
        for ti in range(len(w.trees)):
            try:
                m = lookup_oracle(w, ti, pr, cur[ti])
            except Exception as e:     # a corrupted state must not kill the oracle: it is a finding by itself
                m = f"oracle could not be evaluated: {e!r}"
            if m:
                out.append(("lookup", f"tree {ti}: {m}"))
                break
        m = provenance_oracle(w, step)
        if m:
            out.append(("lookup", m))
        return out

    return pr, pre, post


# ---------------------------------------------------------------------------
class Gen02(mut_c01.Gen01):
    """Gen01 with more re-keying: set_data on singletons (data, id, both; falsy ids/data), on clone groups
    (merge of two groups, split of one node from its group - first, middle, last member), removal of one of
    several clones, re-adding an id that was just removed."""
    special_share = 0.55

    def step(self):
        if self.rng.random() < 0.35:
            k = self.rng.choice(["rekey_group", "rekey_group", "split_group", "split_group", "single", "single", "readd", "remove_one_clone",
                                 "clone_pair", "clone_pair", "iter_remove", "iter_remove", "deep_copy_ids", "falsy_add", "falsy_add",
                                 "falsy_calc", "falsy_copy", "falsy_copy", "equal_swap", "equal_swap"])
            try:
                if getattr(self, "sp_" + k)():
                    return
            except Exception:
                pass
        return super().step()

    def do(self, op):
        if op[0] == "iter_remove":          # not an op of mut.execute: mut_ex.replay expands it; here it just happens
            self.ops.append(op)
            try:
                for nd in list(self.w.trees[op[1]].find_all(data_id=op[2])):
                    if nd._tree is not None:
                        nd.remove()
            except Exception:
                pass
            return
        return super().do(op)

    def sp_iter_remove(self):
        """for n in tree.find_all(data_id=e): n.remove()   on an id carried by several nodes"""
        w, rng = self.w, self.rng
        ti = self.pick_tree()
        t = w.trees[ti]
        ids = [e for e, g in t._nodes_by_data_id.items() if len(g) > 1 and isinstance(e, (int, str))]
        if not ids:
            return self.sp_clone_pair()
        self.do(["iter_remove", ti, rng.choice(ids)])
        return True

    def sp_deep_copy_ids(self):
        """deep copy of a branch whose DESCENDANTS carry explicit ids / callback ids (into the same or another tree, or as a new tree)"""
        w, rng = self.w, self.rng
        ti = self.pick_tree()
        t = w.trees[ti]
        n = self._pick(ti, lambda x: bool(x._children))
        if n is None:
            return False
        c = rng.choice(n._children)
        if mut_c01.explicit_did_of(t, c) is None and rng.random() < 0.8:
            # give a descendant an explicit id first
            self.do(["add", ti, w.rel(n), rng.randrange(len(self.univ)), f"D{len(self.ops)}", self._kind(ti), None])
        how = rng.choice(["copyto", "copyto", "nodecopy", "treecopy", "addnode"])
        if how == "copyto":
            tti = self.pick_tree()
            self.do(["copyto", ti, w.rel(n), tti, self.any_node(tti), rng.random() < 0.6, None, True])
        elif how == "nodecopy" and len(w.trees) < 3:
            self.do(["nodecopy", ti, w.rel(n), rng.random() < 0.5])
        elif how == "treecopy" and len(w.trees) < 3:
            self.do(["treecopy", ti])
        else:
            tti = self.pick_tree()
            self.do(["addnode", tti, self.any_node(tti), ti, w.rel(n), None, self._kind(tti), None, True])
        return True

    def sp_falsy_add(self):
        """a new node with an explicit FALSY data_id (0 or "")"""
        rng = self.rng
        ti = self.pick_tree()
        did = rng.choice([0, ""])
        if rng.random() < 0.6:
            self.do(["add", ti, self.any_node(ti), rng.randrange(len(self.univ)), did, self._kind(ti), self.before_arg(ti, 0) if False else None])
        else:
            n = self.any_node(ti)
            self.do(["short", ti, n, rng.choice(["append_child", "prepend_child"]), rng.randrange(len(self.univ)), did, self._kind(ti)])
        return True

    def _falsy_data(self, ti):
        """universe objects for which this tree's id rule answers a falsy id"""
        out = []
        for i in range(len(self.univ)):
            v = calc_of(self.w, ti, self.w.dobj(i))
            if v is not RAISES and not v:
                out.append(i)
        return out

    def sp_falsy_calc(self):
        """a node whose id comes from the id rule (callback or hash) and is falsy: "" under the name callback, 0 under hash / mod 7"""
        ti = self.pick_tree()
        fd = self._falsy_data(ti)
        if not fd:
            return False
        self.do(["add", ti, self.any_node(ti), self.rng.choice(fd), None, self._kind(ti), None])
        return True

    def sp_falsy_copy(self):
        """copy a node that carries a falsy id (shallow, deep, as a branch member, whole tree) - into another tree if there is one"""
        w, rng = self.w, self.rng
        cands = [(ti, n) for ti in range(len(w.trees)) for n in self._tree_nodes(ti) if not n._data_id]
        if not cands:
            return self.sp_falsy_calc() or self.sp_falsy_add()
        ti, n = rng.choice(cands)
        tti = rng.choice([x for x in range(len(w.trees)) if x != ti] or [ti])
        how = rng.choice(["addnode", "addnode", "copyto_parent", "treecopy", "nodecopy"])
        if how == "addnode":
            self.do(["addnode", tti, self.any_node(tti), ti, w.rel(n), None, self._kind(tti), None, rng.choice([None, True])])
        elif how == "copyto_parent" and n._parent is not w.trees[ti]._root:
            self.do(["copyto", ti, w.rel(n._parent), tti, self.any_node(tti), True, None, True])
        elif how == "treecopy" and len(w.trees) < 3:
            self.do(["treecopy", ti])
        elif len(w.trees) < 3:
            top = n
            while top._parent is not w.trees[ti]._root:
                top = top._parent
            self.do(["nodecopy", ti, w.rel(top), True])
        else:
            self.do(["addnode", tti, self.any_node(tti), ti, w.rel(n), None, self._kind(tti), None, True])
        return True

    def sp_equal_swap(self):
        """set_data with an object that compares EQUAL to the node's data but is another object"""
        w, rng = self.w, self.rng
        for _ in range(5):
            ti = self.pick_tree()
            t = w.trees[ti]
            n = self._pick(ti, lambda x: any(self.univ[j] == self.univ[w.U.index(x._data)] and w.dobj(j) is not x._data
                                             for j in range(len(self.univ))))
            if n is None:
                # plant one: a w:/e:/d: object that has a twin in the universe
                tw = [i for i, sp in enumerate(self.univ) if sp[0] in "wed" and self.univ.count(sp) > 1]
                if not tw:
                    return False
                self.do(["add", ti, self.any_node(ti), rng.choice(tw), rng.choice([None, None, "X1"]), self._kind(ti), None])
                continue
            i = w.U.index(n._data)
            twins = [j for j in range(len(self.univ)) if self.univ[j] == self.univ[i] and w.dobj(j) is not n._data]
            has_clones = len(t._nodes_by_data_id.get(n._data_id, [])) > 1
            self.do(["set_data", ti, w.rel(n), rng.choice(twins), rng.choice([None, None, "X2"]), rng.choice([False, True]) if has_clones else None])
            return True
        return False

    def sp_single(self):
        w, rng = self.w, self.rng
        ti = self.pick_tree()
        t = w.trees[ti]
        n = self._pick(ti, lambda x: len(t._nodes_by_data_id.get(x._data_id, [])) == 1)
        if n is None:
            return False
        d = rng.choice([None] + list(range(len(self.univ))))
        did = rng.choice([None, None, "X1", "X2", 5, 0, ""])
        if d is None and did is None:
            did = "X1"
        self.do(["set_data", ti, w.rel(n), d, did, rng.choice([None, None, False, True])])
        return True

    def sp_readd(self):
        """remove a node, then add its data (same id) again somewhere"""
        w, rng = self.w, self.rng
        ti = self.pick_tree()
        t = w.trees[ti]
        n = self._pick(ti)
        if n is None:
            return False
        d, did = w.U.index(n._data), mut_c01.explicit_did_of(t, n)
        self.do(["remove", ti, w.rel(n), rng.random() < 0.3, False])
        self.do(["add", ti, self.any_node(ti), d, did, self._kind(ti), None])
        return True

    def sp_remove_one_clone(self):
        w, rng = self.w, self.rng
        ti = self.pick_tree()
        t = w.trees[ti]
        groups = [g for g in t._nodes_by_data_id.values() if len(g) > 1]
        if not groups:
            return False
        g = rng.choice(groups)
        n = rng.choice([g[0], g[-1], g[len(g) // 2]])
        self.do(["remove", ti, w.rel(n), rng.random() < 0.3, False])
        return True


UNIV_C02 = mut.UNIV_DEFAULT + ["w:4", "d:3", "t:1,2"]     # equal-content twins of the DictWrapper / dataclass / tuple entries


def gen_history(rng, n_ops=30, **kw):
    kw.setdefault("univ", UNIV_C02)
    return mut_c01.gen_history(rng, n_ops, cls=Gen02, **kw)


def gen_falsy():
    """Three trees (id rule: hash mod 7 / default hash / name) holding nodes whose ids are FALSY (0, ""), by callback and
    by hash; alternatives: new nodes with explicit ids 0 and "" everywhere, copies of the falsy-id nodes into the tree
    without callback (shallow, deep, as branch members, add(tree), Tree.copy, Node.copy), set_data to falsy ids and to
    equal-but-distinct objects (frozen dataclass, value-equal objects; DictWrapper twins are in the random histories)."""
    # no identity-hashed objects here: every alternative is replayed in a world of its own, and the set-up term is shared
    univ = ["i:7", "s:a", "i:0", "s:", "s:b", "d:3", "d:3", "e:1", "e:1", "s:new"]
    setup = [["new", False, "mod7"], ["new", False, None], ["new", False, "name"],
             ["add", 0, 0, 0, None, None, None], ["add", 0, 0, 1, None, None, None], ["add", 0, 2, 2, None, None, None], ["add", 0, 1, 5, None, None, None],
             ["add", 1, 0, 1, None, None, None], ["add", 1, 0, 5, None, None, None], ["add", 1, 0, 7, None, None, None],
             ["add", 2, 0, 3, None, None, None], ["add", 2, 0, 4, None, None, None], ["add", 2, 9, 3, None, None, None]]
    parents = {0: [0, 1, 2, 3, 4], 1: [0, 5, 6, 7], 2: [0, 8, 9, 10]}
    alts = []
    for ti, ps in parents.items():
        for p in ps:
            for did in (0, ""):
                alts.append(["add", ti, p, 9, did, None, None])
            alts.append(["short", ti, p, "append_child", 9, 0, None])
            alts.append(["short", ti, p, "prepend_child", 4, "", None])
    for p in (0, 5):
        for sti, src in ((0, 1), (0, 3), (0, 2), (2, 8), (2, 10), (2, 9)):
            for deep in (None, True):
                alts.append(["addnode", 1, p, sti, src, None, None, None, deep])
        for sti, src in ((0, 2), (2, 9), (0, 0), (2, 0)):
            alts.append(["copyto", sti, src, 1, p, src != 0, None, True])
        alts.append(["addtree", 1, p, 0, None, None])
        alts.append(["addtree", 1, p, 2, None, None])
    alts += [["treecopy", 0], ["treecopy", 2], ["nodecopy", 0, 2, True], ["nodecopy", 0, 2, False], ["nodecopy", 2, 9, True], ["nodecopy", 0, 1, True]]
    alts += [["set_data", 1, 6, 6, None, None], ["set_data", 1, 7, 8, None, None], ["set_data", 0, 4, 6, None, None], ["set_data", 1, 6, 6, "X1", None],
             ["set_data", 1, 5, None, 0, None], ["set_data", 1, 5, None, "", None], ["set_data", 1, 5, 9, 0, None], ["set_data", 1, 7, 9, "", None],
             ["set_data", 0, 2, None, 0, None], ["set_data", 2, 9, None, "", None], ["rename", 2, 9, 3], ["rename", 1, 5, 3],
             ["del", 0, {"id": 0}], ["del", 2, {"id": ""}], ["del", 1, {"id": 0}]]
    yield dict(univ=univ, setup=setup, alts=alts, label="falsy", n=10)


def gen_memo():
    """id callbacks that tell EQUAL-comparing objects apart (they raise for one twin, by identity): after the other twin was
    added / looked up, every lookup by the raising twin still has to raise (nothing about ids may be remembered per ==/hash)"""
    univ = ["e:1", "e:1", "d:3", "d:3", "t:1,2", "t:1,2", "s:a", "s:new"]
    setup = [["new", False, {"fn": "name", "raise": [1]}], ["new", False, {"fn": "hash", "raise": [3]}], ["new", False, {"fn": "mod7", "raise": [5]}],
             ["add", 0, 0, 6, None, None, None], ["add", 1, 0, 6, None, None, None], ["add", 2, 0, 6, None, None, None]]
    alts = []
    for ti in (0, 1, 2):
        for d in range(6):
            alts.append(["add", ti, 0, d, None, None, None])
            alts.append(["add", ti, ti + 1, d, None, None, None])
            alts.append(["set_data", ti, ti + 1, d, None, None])
    yield dict(univ=univ, setup=setup, alts=alts, label="memo", n=3)
    # the same with the good twin already in the tree (its id was computed and looked up many times)
    setup2 = setup + [["add", 0, 1, 0, None, None, None], ["add", 1, 2, 2, None, None, None], ["add", 2, 3, 4, None, None, None]]
    alts2 = []
    for ti in (0, 1, 2):
        for d in range(6):
            alts2.append(["add", ti, 0, d, None, None, None])
            alts2.append(["set_data", ti, ti + 1, d, None, None])
            alts2.append(["del", ti, {"d": d}])
    yield dict(univ=univ, setup=setup2, alts=alts2, label="memo", n=6)
