"""Trees REACHED THROUGH A HISTORY (C10, C15): creation orders that differ from pre-order and short mutation
histories applied before the relationship queries are asked.

desc (in addition to typed / univ / nodes of build.py):
  order_seed : int | None   creation order = a random linear extension of parent-before-child (None: pre-order);
                            a node created after a later sibling is inserted with before=<node> / <index> / True
  hist       : [OP*]        applied after the tree is built; nodes are addressed by CREATION-INDEPENDENT indices:
                            0..n-1 = pre-order index in desc["nodes"], nodes created by the history get the next ones
    ["remove", i]  ["remove_keep", i]  ["remove_children", i]
    ["move", i, j, before]      j = -1: the tree; before = None | True | False | int | ["n", k]
    ["sort", j, reverse, deep]  j = -1: Tree.sort; key = str(data_id)
    ["clear"]                   Tree.clear()
    ["add", j, label, kind, data_id, before]
    ["set_data", i, label]      data object replaced, data_id kept

A SHADOW forest (dict index -> child index list) is updated by the documented effect of every op, independently of
the library; an op that is not applicable in the shadow (dead node, move into the own branch ...) is skipped on both
sides.  `build_hist` returns the tree, the universe, the node objects and the shadow; `consistency` is the oracle
part that compares the pointer structure with the shadow and checks parent/children agreement by identity both ways.
"""
from __future__ import annotations

import random

import build as B
import common as H


class Shadow:
    def __init__(self):
        self.kids = {-1: []}
        self.parent = {}
        self.did = {}

    def alive(self, i):
        return i in self.parent

    def new(self, i, p, pos, did):
        self.kids[i] = []
        self.parent[i] = p
        self.did[i] = did
        self.kids[p].insert(pos, i)

    def subtree(self, i):
        out = [i]
        for c in self.kids[i]:
            out.extend(self.subtree(c))
        return out

    def kill(self, i):
        for x in self.subtree(i):
            del self.parent[x]
            del self.kids[x]

    def pre(self, p=-1):
        out = []
        for c in self.kids[p]:
            out.append(c)
            out.extend(self.pre(c))
        return out

    def nested(self, p=-1):
        return [[c, self.nested(c)] for c in self.kids[p]]


def _kw(typed, kind, did):
    kw = {}
    if typed:
        kw["kind"] = kind if kind is not None else "child"
    if did is not None:
        kw["data_id"] = did
    return kw


def _resolve_before(before, objs):
    if isinstance(before, list):
        return objs[before[1]]
    return before


def _insert_pos(sh, target, before, moving=None):
    """index at which a node is inserted into sh.kids[target] (the moving node already taken out); None = not applicable"""
    lst = sh.kids[target]
    if before is None or before is False:
        return len(lst)
    if before is True:
        return 0
    if isinstance(before, list):
        k = before[1]
        if k == moving or not sh.alive(k) or sh.parent[k] != target:
            return None
        return lst.index(k)
    if isinstance(before, int):
        if not 0 <= before <= len(lst):
            return None
        return before
    return None


def apply_op(op, tree, U, objs, sh, typed, errors):
    """apply one op to the shadow and to the real tree; inapplicable ops are skipped"""
    kind = op[0]

    def node(i):
        return tree if i == -1 else objs[i]

    try:
        if kind in ("remove", "remove_keep", "remove_children", "set_data"):
            i = op[1]
            if not (0 <= i < len(objs)) or not sh.alive(i):
                return
            if kind == "remove":
                p = sh.parent[i]
                sh.kids[p].remove(i)
                sh.kill(i)
                objs[i].remove()
            elif kind == "remove_keep":
                p = sh.parent[i]
                at = sh.kids[p].index(i)
                ch = sh.kids[i]
                sh.kids[p][at:at + 1] = ch
                for c in ch:
                    sh.parent[c] = p
                sh.kids[i] = []
                sh.kill(i)
                objs[i].remove(keep_children=True)
            elif kind == "remove_children":
                for c in list(sh.kids[i]):
                    sh.kill(c)
                sh.kids[i] = []
                objs[i].remove_children()
            else:
                objs[i].set_data(U.objs[op[2]], data_id=sh.did[i])
        elif kind == "move":
            _, i, j, before = op
            if typed:
                return      # TypedNode.move_to raises NotImplementedError by design
            if not (0 <= i < len(objs)) or not sh.alive(i) or (j != -1 and (not (0 <= j < len(objs)) or not sh.alive(j))):
                return
            if j != -1 and j in sh.subtree(i):
                return
            if isinstance(before, list) and before[1] == i:
                if sh.parent[i] != j:
                    return
                objs[i].move_to(node(j), before=objs[i])     # documented no-op
                return
            old = sh.parent[i]
            at = sh.kids[old].index(i)
            sh.kids[old].remove(i)
            pos = _insert_pos(sh, j, before, moving=i)
            if pos is None:
                sh.kids[old].insert(at, i)
                return
            sh.kids[j].insert(pos, i)
            sh.parent[i] = j
            objs[i].move_to(node(j), before=_resolve_before(before, objs))
        elif kind == "sort":
            _, j, reverse, deep = op
            if j != -1 and (not (0 <= j < len(objs)) or not sh.alive(j)):
                return

            def srt(p):
                sh.kids[p] = sorted(sh.kids[p], key=lambda c: str(sh.did[c]), reverse=reverse)
                if deep:
                    for c in sh.kids[p]:
                        srt(c)

            srt(j)
            if j == -1:
                tree.sort(key=lambda n: str(n.data_id), reverse=reverse, deep=deep)
            else:
                objs[j].sort_children(key=lambda n: str(n.data_id), reverse=reverse, deep=deep)
        elif kind == "clear":
            for c in list(sh.kids[-1]):
                sh.kill(c)
            sh.kids[-1] = []
            tree.clear()
        elif kind == "add":
            _, j, lbl, knd, did, before = op
            if j != -1 and (not (0 <= j < len(objs)) or not sh.alive(j)):
                return
            if any(sh.did[c] == did for c in sh.kids[j]):
                return
            pos = _insert_pos(sh, j, before)
            if pos is None:
                return
            i = len(objs)
            objs.append(None)
            sh.new(i, j, pos, did)
            kw = _kw(typed, knd, did)
            if before is not None:
                kw["before"] = _resolve_before(before, objs)
            objs[i] = node(j).add(U.objs[lbl], **kw)
        else:
            raise ValueError(f"unknown history op {op!r}")
    except Exception as e:  # noqa: BLE001 - an applicable op must not raise
        errors.append(f"history op {op!r} raised {type(e).__name__}: {e}")


def build_hist(desc, probe=None):
    """probe(tree, U, objs, sh, errors, k) is called before the k-th op of the history (query - mutate - query again)"""
    U = B.make_universe(desc["univ"])
    tree = B.new_tree(desc)
    typed = bool(desc.get("typed"))
    flat = []

    def go(nodes, p):
        for pos, (lbl, kind, did, kids) in enumerate(nodes):
            i = len(flat)
            flat.append([p, pos, lbl, kind, did])
            go(kids, i)

    go(desc["nodes"], -1)
    n = len(flat)
    kids = {i: [] for i in range(-1, n)}
    for i, f in enumerate(flat):
        kids[f[0]].append(i)
    seed = desc.get("order_seed")
    if seed is None:
        order = list(range(n))
    else:
        rng = random.Random(seed)
        ready = list(kids[-1])
        order = []
        while ready:
            i = ready.pop(rng.randrange(len(ready)))
            order.append(i)
            ready.extend(kids[i])
    objs = [None] * n
    sh = Shadow()
    errors = []
    for i in order:
        p, pos, lbl, kind, did = flat[i]
        sibs = kids[p]
        earlier = sum(1 for j in sibs[:pos] if objs[j] is not None)
        later = [j for j in sibs[pos + 1:] if objs[j] is not None]
        kw = _kw(typed, kind, did)
        if later:
            style = (seed + i) % 3
            kw["before"] = objs[later[0]] if style == 0 else earlier if style == 1 else (True if earlier == 0 else objs[later[0]])
        parent = tree if p == -1 else objs[p]
        try:
            objs[i] = parent.add(U.objs[lbl], **kw)
        except Exception as e:  # noqa: BLE001
            errors.append(f"building node {i} raised {type(e).__name__}: {e}")
            raise
        sh.new(i, p, earlier, did if did is not None else ("auto", i))
    for k, op in enumerate(desc.get("hist") or []):
        if probe is not None:
            probe(tree, U, objs, sh, errors, k)
        apply_op(op, tree, U, objs, sh, typed, errors)
    return tree, U, objs, sh, errors


def consistency(tree, objs, sh, errors):
    """oracle part for trees reached through a history (pointer walks and public parent/children only)"""
    if errors:
        return errors[0]
    root = tree._root
    index = {id(o): i for i, o in enumerate(objs) if o is not None}

    def walk(n, seen):
        out = []
        for c in (n._children or []):
            if id(c) in seen:
                return [["cycle"]]
            seen.add(id(c))
            out.append([index.get(id(c), -9), walk(c, seen)])
        return out

    got = walk(root, set())
    exp = sh.nested()
    if got != exp:
        return f"structure after the history: forest read by pointers {got} differs from the expected forest {exp} (node = index in the description)"

    # every child's _parent is the node (downwards) ...
    def down(n):
        for c in (n._children or []):
            if c._parent is not n:
                return f"structure: child {index.get(id(c))} of {index.get(id(n), 'root')} has another _parent"
            r = down(c)
            if r:
                return r
        return None

    r = down(root)
    if r:
        return r
    # ... and every live node occurs exactly once, by identity, among the children of its parent (upwards, public API)
    for i in sh.pre():
        x = objs[i]
        try:
            p = x.parent
            sibs = tree.children if p is None else p.children
        except Exception as e:  # noqa: BLE001
            return f"parent/children of live node {i} raised {type(e).__name__}"
        k = sum(1 for c in sibs if c is x)
        if k != 1:
            return (f"parent/children disagree: node {i} has parent {index.get(id(p), 'None') if p is not None else 'None'} "
                    f"but occurs {k} times in that parent's children")
        ep = sh.parent[i]
        if (p is None) != (ep == -1) or (p is not None and p is not objs[ep]):
            return f"parent: node {i} got {index.get(id(p)) if p is not None else None} expected {ep}"
    try:
        if len(tree) != len(sh.pre()):
            return f"len(tree): got {len(tree)} expected {len(sh.pre())} live nodes"
    except Exception as e:  # noqa: BLE001
        return f"len(tree) raised {type(e).__name__}"
    return None


# ---------------------------------------------------------------------------
# generators
# ---------------------------------------------------------------------------
def aimed(shape_nodes, n):
    """for a small forest: every single op on every node; moves onto the OWN parent with every `before`"""
    flat = []

    def go(nodes, p):
        for pos, (lbl, kind, did, kids) in enumerate(nodes):
            i = len(flat)
            flat.append((p, pos, len(kids)))
            go(kids, i)

    go(shape_nodes, -1)
    nsibs = {}
    for p, pos, _ in flat:
        nsibs[p] = nsibs.get(p, 0) + 1
    for i, (p, pos, nk) in enumerate(flat):
        yield [["remove", i]]
        yield [["remove_keep", i]]
        if nk:
            yield [["remove_children", i]]
        for before in (None, True, 0, nsibs[p] - 1, ["n", i]):
            yield [["move", i, p, before]]
        # moves to every OTHER parent (the tree included): depths, heights, counts, paths of both branches change
        sub = set()

        def collect(k):
            sub.add(k)
            for j, (q, _, _) in enumerate(flat):
                if q == k:
                    collect(j)

        collect(i)
        for j in [-1] + [j for j in range(len(flat)) if j not in sub]:
            if j != p:
                yield [["move", i, j, None]]
                yield [["move", i, j, True]]
        # lose the siblings first, then move the only child onto its own parent
        if nsibs[p] > 1:
            others = [j for j, (q, _, _) in enumerate(flat) if q == p and j != i]
            yield [["remove", j] for j in others] + [["move", i, p, True]]
            yield [["remove", j] for j in others] + [["move", i, p, None]]
        # an only child that is a leaf, removed with keep_children: the parent is a leaf again
        if nsibs[p] > 1 and nk == 0:
            others = [j for j, (q, _, _) in enumerate(flat) if q == p and j != i]
            yield [["remove", j] for j in others] + [["remove_keep", i]]


def random_hist(rng, n, nuniv, typed, steps):
    """random ops; applicability is decided when the history is replayed (inapplicable ops are skipped)"""
    hist = []
    total = n
    for s in range(steps):
        r = rng.random()
        i = rng.randrange(total)
        j = rng.choice([-1] + list(range(total)))
        if r < 0.15:
            hist.append(["remove", i])
        elif r < 0.30:
            hist.append(["remove_keep", i])
        elif r < 0.38:
            hist.append(["remove_children", i])
        elif r < 0.68:
            before = rng.choice([None, True, False, 0, 1, 2, ["n", rng.randrange(total)], ["n", i]])
            hist.append(["move", i, j, before])
        elif r < 0.78:
            hist.append(["sort", j, rng.random() < 0.5, rng.random() < 0.5])
        elif r < 0.92:
            before = rng.choice([None, None, True, 0, 1, ["n", rng.randrange(total)]])
            hist.append(["add", j, rng.randrange(nuniv), rng.choice("abc") if typed else None, f"h{s}_{total}", before])
            total += 1
        elif r < 0.97:
            hist.append(["set_data", i, rng.randrange(nuniv)])
        else:
            hist.append(["clear"])
            for q in range(rng.randint(1, 3)):
                hist.append(["add", rng.choice([-1, total - 1]) if q else -1, rng.randrange(nuniv),
                             rng.choice("abc") if typed else None, f"c{s}_{total}", None])
                total += 1
    return hist


def shrink_hist(desc):
    h = desc.get("hist") or []
    for k in range(len(h)):
        yield dict(desc, hist=h[:k] + h[k + 1:])
    if desc.get("order_seed") is not None:
        yield dict(desc, order_seed=None)


# ---------------------------------------------------------------------------
# results handed out by queries are CALLER-OWNED (round 4): mutate them, then ask again
# ---------------------------------------------------------------------------
#: queries whose result IS the internal child list in the clean code (live view; documented for `children`)
ALIAS_OK = {"children", "get_children()", "get_children(ANY_KIND)", "get_siblings(add_self=True)",
            "get_siblings(add_self=True,any_kind=True)", "tree.children", "tree.get_toplevel_nodes"}


def poison_results(tree, typed, kinds=("a", "zz")):
    """Every list a relationship query hands back is either the documented live child list (ALIAS_OK) or owned by
    the caller.  Caller-owned results are MUTATED here (a foreign node is inserted at both ends, an element deleted);
    afterwards the tree must be unchanged, and the caller re-runs the whole query battery on this and on another tree.
    Returns an oracle failure or None."""
    root = tree._root
    nodes = B.all_nodes(root)
    ftree = type(tree)("foreign")
    foreign = ftree.add("F", kind="f") if typed else ftree.add("F")

    def snapshot():
        return [(id(n), None if n._children is None else [id(c) for c in n._children], id(n._parent)) for n in [root] + nodes]

    def internal(r):
        return any(r is n._children for n in [root] + nodes)

    before = snapshot()

    def handle(name, thunk, who):
        try:
            r = thunk()
        except Exception:  # noqa: BLE001 - errors are the business of the query battery
            return None
        if snapshot() != before:
            return f"{name} of {who} changed the tree (a read-only query)"
        if not isinstance(r, list):
            return None
        if internal(r):
            if name not in ALIAS_OK:
                return f"{name} of {who} returned an internal child list (the caller owns the result of this query)"
            return None
        alien = [x for x in r if getattr(x, "_tree", None) is not tree]
        if alien:
            # a list that an earlier caller mutated came back: one shared object is handed out to everybody.  The
            # foreign entries are taken out again so that the shared object cannot grow without bound during a run.
            r[:] = [x for x in r if getattr(x, "_tree", None) is tree]
            return (f"{name} of {who} returned a list that contains {len(alien)} node(s) that are NOT nodes of this tree (of another "
                    f"tree, or removed): the list object is shared with an earlier caller who modified the result it had received, "
                    f"or it was computed for an older state")
        r.append(foreign)
        r.insert(0, foreign)
        if len(r) > 2:
            del r[1]
        if snapshot() != before:
            return f"mutating the list returned by {name} of {who} changed the tree"
        return None

    AK = H.ANY_KIND
    for i, n in enumerate(nodes):
        who = f"node {i + 1} (pre-order)"
        qs = [("children", lambda: n.children),
              ("get_parent_list()", lambda: n.get_parent_list()),
              ("get_parent_list(add_self=True,bottom_up=True)", lambda: n.get_parent_list(add_self=True, bottom_up=True))]
        if typed:
            qs += [("get_children(ANY_KIND)", lambda: n.get_children(AK))]
            for k in sorted({c._kind for c in (n._children or [])} | set(kinds)):
                qs += [(f"get_children({k!r})", lambda k=k: n.get_children(k))]
            qs += [("get_siblings(add_self=False)", lambda: n.get_siblings()),
                   ("get_siblings(add_self=True)", lambda: n.get_siblings(add_self=True)),
                   ("get_siblings(add_self=False,any_kind=True)", lambda: n.get_siblings(any_kind=True)),
                   ("get_siblings(add_self=True,any_kind=True)", lambda: n.get_siblings(add_self=True, any_kind=True))]
        else:
            qs += [("get_children()", lambda: n.get_children()),
                   ("get_siblings(add_self=False)", lambda: n.get_siblings()),
                   ("get_siblings(add_self=True)", lambda: n.get_siblings(add_self=True))]
        qs += [("get_clones(add_self=True)", lambda: n.get_clones(add_self=True))]
        for name, thunk in qs:
            f = handle(name, thunk, who)
            if f:
                return f
    for name, thunk in [("tree.children", lambda: tree.children), ("tree.get_toplevel_nodes", lambda: tree.get_toplevel_nodes()),
                        ("tree.find_all(match)", lambda: tree.find_all(match=lambda n: True))]:
        f = handle(name, thunk, "the tree")
        if f:
            return f
    return None


def replace_same_length(shape_nodes, typed):
    """aimed histories that change a child list WITHOUT changing its length (used with probe=[0]: one query before the
    first op, none in between): remove a child + add a new one, move one out + another in, sort"""
    flat = []

    def go(nodes, p):
        for pos, (lbl, kind, did, kids) in enumerate(nodes):
            i = len(flat)
            flat.append((p, pos, kind))
            go(kids, i)

    go(shape_nodes, -1)
    for i, (p, pos, kind) in enumerate(flat):
        for before in (None, True):
            yield [["remove", i], ["add", p, 0, kind, f"r{i}", before]]
        if not typed:
            for j, (q, _, _) in enumerate(flat):
                if q != p and q != i and j != p:
                    yield [["move", i, q, None], ["move", j, p, True]]
    for p in sorted({q for q, _, _ in flat}):
        yield [["sort", p, False, False]]
        yield [["sort", p, True, False]]
        yield [["sort", p, False, True], ["sort", p, True, False]]


def typed_consistency(tree):
    """kind-aware answers of a typed tree against the plain structure (pointer walk, identity): get_index(),
    get_children(kind), has_children(kind) - asked by C10 as well, because they must agree with the sibling queries"""
    for i, n in enumerate(B.all_nodes(tree._root)):
        sibs = n._parent._children or []
        same = [s for s in sibs if s._kind == n._kind]
        pos = [j for j, s in enumerate(same) if s is n]
        try:
            gi = n.get_index()
        except Exception as e:  # noqa: BLE001
            gi = f"{type(e).__name__}"
        if pos != [gi]:
            return f"get_index() of typed node {i + 1} (pre-order): got {gi}, its position among the siblings of its kind is {pos}"
        ch = n._children or []
        for k in sorted({c._kind for c in ch} | {"zz"}):
            exp = [c for c in ch if c._kind == k]
            try:
                got = n.get_children(k)
                hc = n.has_children(k)
            except Exception as e:  # noqa: BLE001
                return f"get_children({k!r}) of typed node {i + 1} raised {type(e).__name__}"
            if len(got) != len(exp) or any(a is not b for a, b in zip(got, exp)):
                return (f"get_children({k!r}) of typed node {i + 1} (pre-order): got the children at positions "
                        f"{[next((j for j, c in enumerate(ch) if c is g), -7) for g in got]} expected {[j for j, c in enumerate(ch) if c._kind == k]}")
            if hc != bool(exp):
                return f"has_children({k!r}) of typed node {i + 1}: got {hc} expected {bool(exp)}"
    return None


def guarded_call(tree, call, limit=14):
    """wrap `call` so that the raw structure (every `_children` list in order, every `_parent`) is compared with
    its state at the start after EVERY single query: a query that mutates is named by the source line of its thunk.
    Trees larger than `limit` nodes are checked once per 25 queries."""
    allp = [tree._root] + B.all_nodes(tree._root)

    def snap():
        return [(None if x._children is None else tuple(map(id, x._children)), id(x._parent)) for x in allp]

    base = snap()
    state = dict(count=0, fail=None)
    every = 1 if len(allp) <= limit + 1 else 25

    def gcall(fn):
        r = call(fn)
        state["count"] += 1
        if state["fail"] is None and state["count"] % every == 0 and snap() != base:
            code = fn.__code__
            state["fail"] = (f"query no. {state['count']} of the battery ({code.co_filename.rsplit('/', 1)[-1]}:{code.co_firstlineno}) "
                             f"changed the tree: a read-only query altered a `_children` list or a `_parent`")
        return r

    def final():
        if state["fail"] is None and snap() != base:
            state["fail"] = "the query battery changed the tree (a read-only query altered a `_children` list or a `_parent`)"
        return state["fail"]

    return gcall, final
