"""Shared harness code: ties the Coq model to the nutree implementation in /repo.

Everything here runs with /venv/bin/python against the *current working tree* of
/repo (sys.path[0] = /repo).  Instrumentation is done by monkeypatching inside
this process only; no hook in /repo is needed.
"""
from __future__ import annotations

import hashlib
import itertools
import json
import os
import random
import re
import subprocess
import sys
import time
from dataclasses import dataclass, field
from pathlib import Path

VERIF = Path(__file__).resolve().parent.parent
REPO = Path(os.environ.get("NUTREE_REPO", "/repo"))
COQ = VERIF / "coq"
WORK = VERIF / ".work"
WORK.mkdir(exist_ok=True)

os.environ.setdefault("PYTHONHASHSEED", "0")
os.environ["PYTHONDONTWRITEBYTECODE"] = "1"
sys.dont_write_bytecode = True
if str(REPO) not in sys.path[:1]:
    sys.path.insert(0, str(REPO))
# make sure a stale import of an installed copy can never win
for _m in [m for m in sys.modules if m == "nutree" or m.startswith("nutree.")]:
    del sys.modules[_m]

import nutree  # noqa: E402
from nutree import Node, Tree, TypedTree  # noqa: E402
from nutree.typed_tree import ANY_KIND, TypedNode  # noqa: E402

assert Path(nutree.__file__).resolve().parent == (REPO / "nutree").resolve(), nutree.__file__

# ---------------------------------------------------------------------------
# Node identity = allocation index.  Every node ever created is kept alive so
# that id() values are never reused within a harness process.
# ---------------------------------------------------------------------------
_ALLOC: dict[int, int] = {}
_KEEP: list = []
_orig_init = Node.__init__


def _tracking_init(self, *a, **kw):
    # allocate the index first: __init__ may raise after registering (that is
    # exactly the kind of thing the checks look for)
    _ALLOC[id(self)] = len(_KEEP) + 1
    _KEEP.append(self)
    return _orig_init(self, *a, **kw)


Node.__init__ = _tracking_init


def nid(node) -> int:
    """Allocation index of a node (0 for a system root)."""
    if node is None:
        return -1
    try:
        return _ALLOC[id(node)]
    except KeyError:
        if node._parent is None and getattr(node, "_tree", None) is not None:
            return 0
        raise


def alloc_count() -> int:
    return len(_KEEP)


# ---------------------------------------------------------------------------
# sx terms (observations) and Coq literals
# ---------------------------------------------------------------------------
def z(n: int) -> str:
    return str(n) if n >= 0 else f"({n})"


def sx(v) -> str:
    """Render nested python ints / lists / tuples / bools / None / str as an sx."""
    if isinstance(v, bool):
        return "A 1" if v else "A 0"
    if isinstance(v, int):
        return f"A {z(v)}"
    if v is None:
        return "L []"
    if isinstance(v, str):
        return "L [" + "; ".join(f"A {ord(c)}" for c in v) + "]"
    if isinstance(v, (list, tuple)):
        return "L [" + "; ".join(sx(x) for x in v) + "]"
    raise TypeError(f"cannot render {v!r} as sx")


def sx_opt(v):
    return [] if v is None else [v]


def coq_text(s: str) -> str:
    return "[" + "; ".join(str(ord(c)) for c in s) + "]"


def coq_list(items) -> str:
    return "[" + "; ".join(items) + "]"


def coq_bool(b) -> str:
    return "true" if b else "false"


def coq_opt(v, f=str) -> str:
    return "None" if v is None else f"(Some {f(v)})"


def coq_did(d) -> str:
    if isinstance(d, bool):
        d = int(d)
    if isinstance(d, int):
        return f"(DInt {z(d)})"
    if isinstance(d, str):
        return f"(DStr {coq_text(d)})"
    raise TypeError(f"unsupported data_id {d!r}")


def sx_did(d):
    if isinstance(d, bool):
        d = int(d)
    if isinstance(d, int):
        return [0, d]
    if isinstance(d, str):
        return [1, d]
    raise TypeError(f"unsupported data_id {d!r}")


def sx_kind(k):
    return [] if k is None else [k]


# ---------------------------------------------------------------------------
# Data universe: real Python objects + their abstraction (info fields)
# ---------------------------------------------------------------------------
class EqObj:
    """Object with value equality/hash: equal-but-distinct instances exist."""

    def __init__(self, v):
        self.v = v

    def __eq__(self, other):
        return isinstance(other, EqObj) and self.v == other.v

    def __hash__(self):
        return hash(("EqObj", self.v))

    def __repr__(self):
        return f"E{self.v}"


class PlainObj:
    """Identity-hashed object (default object hash/eq)."""

    def __init__(self, v):
        self.v = v

    def __repr__(self):
        return f"P{self.v}"


class Universe:
    """A list of data objects; abstraction is computed from the real objects."""

    def __init__(self, objs):
        self.objs = list(objs)
        self.eqc = []
        for i, o in enumerate(self.objs):
            c = i
            for j in range(i):
                try:
                    if self.objs[j] == o and type(self.objs[j]) is type(o):
                        c = self.eqc[j]
                        break
                except Exception:
                    pass
            self.eqc.append(c)

    def index(self, obj) -> int:
        for i, o in enumerate(self.objs):
            if o is obj:
                return i
        # data created by the library (e.g. loaded from a file)
        self.objs.append(obj)
        c = len(self.objs) - 1
        for j in range(c):
            try:
                if self.objs[j] == obj and type(self.objs[j]) is type(obj):
                    c = self.eqc[j]
                    break
            except Exception:
                pass
        self.eqc.append(c)
        return len(self.objs) - 1

    def info(self, obj):
        i = self.index(obj)
        return dict(obj=i, eqc=self.eqc[i], hash=hash(obj), isstr=isinstance(obj, str), name=f"{obj}")


def coq_meta(meta) -> str:
    if not meta:
        return "[]"
    return coq_list(f"({coq_text(str(k))}, {sx(meta_val(v))})" for k, v in meta.items())


def meta_val(v):
    # metadata values as sx: enums by value, tuples as lists
    import enum

    if isinstance(v, enum.Enum):
        return [9, v.value]
    if isinstance(v, (tuple, list)):
        return [meta_val(x) for x in v]
    if isinstance(v, (bool, int, str)) or v is None:
        return v
    return str(v)


def coq_info(node, U: Universe) -> str:
    a = U.info(node._data)
    kind = getattr(node, "kind", None)
    return (
        f"(I {z(a['obj'])} {z(a['eqc'])} {z(a['hash'])} {coq_bool(a['isstr'])} "
        f"{coq_text(a['name'])} {coq_did(node._data_id)} {coq_opt(kind, coq_text)} {coq_meta(node._meta)})"
    )


def coq_rt(node, U: Universe) -> str:
    ch = node._children or []
    return f"(Tz {nid(node)} {coq_info(node, U)} {coq_list(coq_rt(c, U) for c in ch)})"


def coq_forest(root, U: Universe) -> str:
    """Model input for a tree: the forest observed below its system root."""
    return coq_list(coq_rt(c, U) for c in (root._children or []))


def sx_info(node, U: Universe):
    a = U.info(node._data)
    kind = getattr(node, "kind", None)
    meta = node._meta or {}
    return [a["obj"], sx_did(node._data_id), sx_kind(kind), [[str(k), meta_val(v)] for k, v in meta.items()]]


def sx_rt(node, U: Universe):
    return [nid(node), sx_info(node, U), [sx_rt(c, U) for c in (node._children or [])]]


def sx_forest(root, U: Universe):
    return [sx_rt(c, U) for c in (root._children or [])]


# ---------------------------------------------------------------------------
# Shapes: all ordered forests with n nodes, as nested tuples of child tuples
# ---------------------------------------------------------------------------
_FOREST_CACHE: dict[int, list] = {}


def forests(n: int):
    """All ordered forests with exactly n nodes; a forest is a tuple of trees,
    a tree is the tuple of its child trees."""
    if n in _FOREST_CACHE:
        return _FOREST_CACHE[n]
    if n == 0:
        res = [()]
    else:
        res = []
        # first tree has k nodes (1..n): its children form a forest of k-1 nodes
        for k in range(1, n + 1):
            for kids in forests(k - 1):
                for rest in forests(n - k):
                    res.append((kids,) + rest)
    _FOREST_CACHE[n] = res
    return res


def forests_upto(n: int):
    for k in range(0, n + 1):
        yield from forests(k)


def shape_size(f) -> int:
    return sum(1 + shape_size(t) for t in f)


def shape_depth(f) -> int:
    return 0 if not f else 1 + max(shape_depth(t) for t in f)


def random_shape(rng: random.Random, n: int, *, deep=0.5):
    """Random ordered forest with n nodes, as a parent vector in pre-order
    converted to nested tuples.  `deep` biases towards attaching to the last
    added node (deep trees) versus the root (wide trees)."""
    parents = []
    for i in range(n):
        if i == 0 or rng.random() < 0.15:
            parents.append(-1)
        elif rng.random() < deep:
            parents.append(i - 1)
        else:
            # attach to some ancestor-or-self of previous node's chain (keeps pre-order)
            chain = []
            p = i - 1
            while p != -1:
                chain.append(p)
                p = parents[p]
            parents.append(rng.choice(chain + [-1]))
    kids: dict[int, list] = {i: [] for i in range(-1, n)}
    for i, p in enumerate(parents):
        kids[p].append(i)

    def build(i):
        return tuple(build(c) for c in kids[i])

    return tuple(build(c) for c in kids[-1])


def shape_preorder_count(f):
    return shape_size(f)


# ---------------------------------------------------------------------------
# coqc runner for case files
# ---------------------------------------------------------------------------
COQ_ARGS = ["-Q", str(COQ / "theories"), "NT", "-Q", str(COQ / "gen"), "NTGen", "-Q", str(COQ / "Properties"), "NTProp",
            "-w", "-notation-overridden,-deprecated-hint-without-locality,-deprecated-instance-without-locality"]


def run_coqc(vfile: Path, timeout=1800):
    try:
        p = subprocess.run(["coqc", *COQ_ARGS, str(vfile)], capture_output=True, text=True, timeout=timeout,
                           cwd=str(vfile.parent))
    except subprocess.TimeoutExpired:
        return 124, "", f"coqc timed out after {timeout} s on {vfile.name} (case file too large for this machine load?)"
    return p.returncode, p.stdout, p.stderr


_RES_RE = re.compile(r"=\s*\[(.*?)\]\s*:\s*list nat", re.S)


def check_cases_in_coq(prop_id: str, case_module: str, run_fn: str, pairs, *, shard=400, jobs=8, tag=""):
    """pairs: list of (coq_input_term, expected_sx_string).  Returns
    (failing_indices, error_text).  The model's [run_fn] is evaluated by the
    kernel's vm on every input and compared with the implementation's
    observation by [sx_eqb]."""
    from concurrent.futures import ThreadPoolExecutor

    d = WORK / f"cases_{prop_id}{tag}_{os.getpid()}"
    d.mkdir(parents=True, exist_ok=True)
    files = []
    for s, start in enumerate(range(0, len(pairs), shard)):
        chunk = pairs[start:start + shard]
        name = f"cs_{prop_id}_{s}"
        vf = d / f"{name}.v"
        with open(vf, "w") as fp:
            fp.write("From Coq Require Import List ZArith Bool.\n")
            fp.write(f"From NT Require Import Sx Rose {case_module}.\n")
            fp.write("Import ListNotations.\nOpen Scope Z_scope.\n")
            fp.write("Definition cases := [\n")
            fp.write(";\n".join(f"({c}, {e})" for c, e in chunk))
            fp.write("\n].\n")
            fp.write(f"Eval vm_compute in (failing {run_fn} cases).\n")
        files.append((start, vf))

    failing = []
    errors = []

    def one(item):
        start, vf = item
        rc, out, err = run_coqc(vf)
        return start, vf, rc, out, err

    with ThreadPoolExecutor(max_workers=jobs) as ex:
        for start, vf, rc, out, err in ex.map(one, files):
            if rc != 0:
                errors.append(f"{vf.name}: coqc failed\n{err[-2000:]}")
                continue
            m = _RES_RE.search(out)
            if not m:
                errors.append(f"{vf.name}: cannot parse output\n{out[-500:]}")
                continue
            body = m.group(1).strip()
            if body:
                failing.extend(start + int(x) for x in re.findall(r"\d+", body.replace("%nat", "")))
    if not errors:
        import shutil

        shutil.rmtree(d, ignore_errors=True)
    return sorted(failing), "\n".join(errors)


def eval_in_coq(case_module: str, term: str, tag="dbg") -> str:
    """Evaluate one term with vm_compute and return Coq's raw answer (diagnosis only)."""
    d = WORK / f"eval_{tag}_{os.getpid()}"
    d.mkdir(parents=True, exist_ok=True)
    vf = d / "ev.v"
    vf.write_text(
        f"From Coq Require Import List ZArith Bool.\nFrom NT Require Import Sx Rose {case_module}.\nImport ListNotations.\nOpen Scope Z_scope.\n"
        f"Eval vm_compute in ({term}).\n")
    rc, out, err = run_coqc(vf)
    import shutil

    shutil.rmtree(d, ignore_errors=True)
    return out if rc == 0 else f"coqc failed: {err[-1500:]}"


# ---------------------------------------------------------------------------
# Case container
# ---------------------------------------------------------------------------
@dataclass
class Case:
    desc: dict                 # JSON-able, sufficient to rebuild the case (the replay)
    coq_input: str = ""        # Coq term of the property's case type
    impl_obs: object = None    # what the implementation did, as nested python (-> sx)
    oracle_fail: str | None = None   # failure of the model-independent oracle, if any
    finding: str | None = None       # id of the known finding the failure belongs to
    nontrivial: bool = True
    key: str = ""              # distinctness key
    stats: dict = field(default_factory=dict)
    # optional: a case evaluated by another case module / entry point than the property's own (see harness/parts.py)
    case_module: str = ""
    run_fn: str = ""
    case_vo: str = ""


def digest(obj) -> str:
    return hashlib.sha1(json.dumps(obj, sort_keys=True, default=str).encode()).hexdigest()[:16]


class ImplError(Exception):
    pass


def err_class(e: BaseException) -> int:
    """Map implementation exceptions to a small enum (never compare messages)."""
    from nutree.common import AmbiguousMatchError, UniqueConstraintError

    if isinstance(e, UniqueConstraintError):
        return 1
    if isinstance(e, AmbiguousMatchError):
        return 2
    if isinstance(e, KeyError):
        return 4
    if isinstance(e, NotImplementedError):
        return 5
    if isinstance(e, ValueError):
        return 3
    if isinstance(e, AssertionError):
        return 6
    if isinstance(e, TypeError):
        return 7
    return 8


ERR_NAMES = {1: "EUnique", 2: "EAmbiguous", 3: "EValue", 4: "EKey", 5: "ENotImpl", 6: "EAssert", 7: "EType", 8: "ECrash"}
