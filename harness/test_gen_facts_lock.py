"""Self-tests of the lock-skeleton extractor (gen_facts.lock_skeleton) - the trusted, lexical part of C18.

Every BAD shape lets a live (possibly lazy) view of the tree survive the `with self:` block and consumes it after
the release - the `list(self.to_list_iter())` bug class (audit finding C18/1: /tmp/audit/C18/t_extractor.py).  For
each of them the extractor must either REFUSE (Unsupported: the LOCK section is not lifted, C18's obligations
break) or produce a skeleton with a Read outside the bracket - never a bracketed one.  Every GOOD shape materialises
the view inside the block and must lift to the bracketed skeleton [A, R, L].

Run directly (`/venv/bin/python harness/test_gen_facts_lock.py`, exit code 0/1) and, as cases of kind `extractor`,
by every `bin/check C18`.
"""
from __future__ import annotations

import ast
import sys
from pathlib import Path

sys.path.insert(0, str(Path(__file__).resolve().parent))
import gen_facts as G  # noqa: E402

BAD = {
    # --- the audit's counter-examples
    "subscript_store": '''
def save(self, target):
    res = {}
    with self:
        res["nodes"] = self.to_list_iter()
    json.dump(res, target)
''',
    "name_store": '''
def save(self, target):
    with self:
        it = self.to_list_iter()
    json.dump(list(it), target)
''',
    "attribute_store": '''
def save(self, target):
    box = Box()
    with self:
        box.it = self.to_list_iter()
    json.dump(list(box.it), target)
''',
    "return_genexp_in_bracket": '''
def to_dict_list(self):
    with self:
        return (n.to_dict() for n in self._root.children)
''',
    # --- the same class through the other kinds of store / escape
    "return_lazy_call_in_bracket": '''
def to_dict_list(self):
    with self:
        return self.to_list_iter()
''',
    "return_wrapped_lazy_in_bracket": '''
def to_dict_list(self, f):
    with self:
        return map(f, self.iterator())
''',
    "return_container_with_lazy": '''
def save(self, header):
    with self:
        return {"meta": header, "nodes": self.to_list_iter()}
''',
    "return_child_list_in_bracket": '''
def to_dict_list(self):
    with self:
        return self._root.children
''',
    "container_literal_store": '''
def save(self, target, header):
    with self:
        res = {"meta": header, "nodes": self.to_list_iter()}
    json.dump(res, target)
''',
    "nested_subscript_store": '''
def save(self, target):
    res = {"a": {}}
    with self:
        res["a"]["nodes"] = self.to_list_iter()
    json.dump(res, target)
''',
    "augmented_store": '''
def save(self, target):
    acc = []
    with self:
        acc += self.to_list_iter()
        it = self.iterator()
    target.write(str(acc) + str(list(it)))
''',
    "augmented_subscript_store": '''
def save(self, target):
    res = {"n": ()}
    with self:
        res["n"] += (self.to_list_iter(),)
    json.dump(res, target)
''',
    "append_retains": '''
def save(self, target):
    parts = []
    with self:
        parts.append(self.to_list_iter())
    for p in parts:
        json.dump(list(p), target)
''',
    "update_retains": '''
def save(self, target):
    res = {}
    with self:
        res.update(nodes=self.to_list_iter())
    json.dump(res, target)
''',
    "setdefault_retains": '''
def save(self, target):
    res = {}
    with self:
        res.setdefault("nodes", self.to_list_iter())
    json.dump(res, target)
''',
    "wrapped_by_call": '''
def to_dotfile(self, target):
    with self:
        lines = map(str, self.to_dot())
    for line in lines:
        target.write(line)
''',
    "wrapped_by_chain": '''
def to_dotfile(self, target):
    with self:
        lines = itertools.chain(["x"], self.to_dot())
    target.writelines(lines)
''',
    "wrapped_by_class": '''
def save(self, target):
    with self:
        w = Wrapper(self.to_list_iter())
    json.dump(w.items(), target)
''',
    "tuple_unpack_store": '''
def save(self, target):
    with self:
        n, it = 1, self.to_list_iter()
    json.dump(list(it), target)
''',
    "tuple_pack_store": '''
def save(self, target):
    with self:
        pair = (1, self.to_list_iter())
    json.dump(list(pair[1]), target)
''',
    "starred_unpack_store": '''
def save(self, target):
    with self:
        first, *rest = self.iterator(), self.to_list_iter()
    json.dump([list(r) for r in rest], target)
''',
    "walrus_store": '''
def save(self, target):
    with self:
        if (it := self.to_list_iter()) is None:
            return
    json.dump(list(it), target)
''',
    "genexp_store": '''
def to_dict_list(self):
    with self:
        res = (n.to_dict() for n in self._root.children)
    return list(res)
''',
    "genexp_over_copied_names": '''
def to_dict_list(self):
    with self:
        nodes = self._root.children
    return [n.to_dict() for n in nodes]
''',
    "conditional_store": '''
def save(self, target, flag):
    with self:
        it = self.to_list_iter() if flag else []
    json.dump(list(it), target)
''',
    "with_as_store": '''
def save(self, target):
    with self:
        with closing(self.to_list_iter()) as it:
            pass
    json.dump(list(it), target)
''',
    "loop_variable_escapes": '''
def to_dict_list(self):
    last = None
    with self:
        for n in self._root.children:
            last = n
    return last.children
''',
    "store_through_self": '''
def save(self, target):
    with self:
        self.name = self.to_list_iter()
    json.dump(list(self.name), target)
''',
    "closure_over_view": '''
def save(self, target):
    with self:
        it = self.to_list_iter()
    json.dump(sorted([1], key=lambda x: list(it)), target)
''',
    "yield_inside": '''
def to_dict_list(self):
    with self:
        for n in self._root.children:
            yield n.to_dict()
''',
    "yield_from_inside": '''
def to_dict_list(self):
    with self:
        yield from self.to_list_iter()
''',
    "global_store": '''
def save(self, target):
    global CACHE
    with self:
        CACHE = self.to_list_iter()
''',
    "lock_inside_loop": '''
def save(self, target):
    it = None
    for k in range(2):
        if it is not None:
            json.dump(list(it), target)
        with self:
            it = self.to_list_iter()
''',
}

GOOD = {
    "list_inside": '''
def save(self, target):
    with self:
        res = {"nodes": list(self.to_list_iter())}
    json.dump(res, target)
''',
    "tuple_inside": '''
def save(self, target):
    with self:
        res = tuple(self.to_list_iter())
    json.dump(res, target)
''',
    "dict_inside": '''
def save(self, target):
    with self:
        res = dict(self.to_list_iter())
    json.dump(res, target)
''',
    "join_inside": '''
def to_dotfile(self, target):
    with self:
        text = "\\n".join(self.to_dot())
    target.write(text)
''',
    "comprehension_inside": '''
def to_dict_list(self):
    with self:
        res = [n.to_dict() for n in self._root.children]
    return res
''',
    "return_materialised_in_bracket": '''
def to_dict_list(self):
    with self:
        return [n.to_dict() for n in self._root.children]
''',
    "return_list_in_bracket": '''
def save(self):
    with self:
        return list(self.to_list_iter())
''',
    "append_detached": '''
def to_dict_list(self, mapper=None):
    res = []
    with self:
        for n in self._root._children:
            res.append(n.to_dict(mapper=mapper))
    return res
''',
    "write_inside": '''
def to_dotfile(self, target):
    with self:
        for line in self.to_dot():
            target.write(line + "\\n")
    return
''',
}


def lift(src: str):
    fn = ast.parse(src).body[0]
    try:
        return G.lock_skeleton(fn, "self"), None
    except G.Unsupported as e:
        return None, str(e)


def bracketed(path) -> bool:
    depth = 0
    for e in path:
        if e == "A":
            depth += 1
        elif e == "L":
            if depth == 0:
                return False
            depth -= 1
        elif e == "R" and depth == 0:
            return False
    return depth == 0


def check(name: str):
    """(ok, outcome, paths) - ok iff the extractor treats the shape as it must."""
    if name in BAD:
        paths, why = lift(BAD[name])
        if paths is None:
            return True, "refused: " + why, None
        ok = any(not bracketed(p) for p in paths)
        return ok, ("read outside the bracket" if ok else "LIFTED AS BRACKETED"), paths
    paths, why = lift(GOOD[name])
    if paths is None:
        return False, "refused: " + why, None
    ok = all(bracketed(p) for p in paths) and any("R" in p for p in paths)
    return ok, ("bracketed" if ok else "not bracketed"), paths


def run_all():
    return {name: check(name) for name in list(BAD) + list(GOOD)}


if __name__ == "__main__":
    res = run_all()
    for name, (ok, outcome, paths) in res.items():
        print(f"{'ok  ' if ok else 'FAIL'} {'bad ' if name in BAD else 'good'} {name:34s} {outcome[:110]}  {paths or ''}")
    sys.exit(0 if all(ok for ok, _, _ in res.values()) else 1)
