"""Extensions of the history engine harness/mut.py for the C01 / C02 / C03 checks.

`replay(hist, oracles, pre=..., post=...)` is `mut.replay` with two hooks around every executed step
(the loop is the same: `mut.execute`, `World.obs`, the same outcome encoding, the same named oracles):

    ctx  = pre(w, si, op)               before the op runs (pointers of the state BEFORE the step are reachable)
    msgs = post(w, si, step, ctx)       after the observation; list of (oracle name, message) failures;
                                        may add entries to `step` (e.g. step["lookups"])

Ops whose references are not live are not executed (as mut.replay / CaseMut.step_chk); `pre` is not called for
them, `post` is called with ctx=None (the state did not change, but lookups are still probed).

Also here: pointer-level helpers shared by the three property modules (identity walks only, no use of the
library's own navigation), and the C01 "removed set" oracle.
"""
from __future__ import annotations

import sys

import common as H
import mut
from mut import World, Run, NotLive, CallbackFault, EMODEL, OP_RECURSION_LIMIT, execute, first  # noqa: F401


import contextlib
import signal


class OpTimeout(Exception):
    """an operation / query did not come back: the node graph has a cycle the library walks for ever"""


@contextlib.contextmanager
def time_limit(seconds=3.0):
    """SIGALRM watchdog (main thread only; a no-op elsewhere): a corrupted graph must not hang the check"""
    def handler(signum, frame):
        raise OpTimeout()
    try:
        old = signal.signal(signal.SIGALRM, handler)
    except ValueError:
        yield
        return
    signal.setitimer(signal.ITIMER_REAL, seconds)
    try:
        yield
    finally:
        signal.setitimer(signal.ITIMER_REAL, 0)
        signal.signal(signal.SIGALRM, old)


def sprinkle_queries(w, limit=24):
    try:
        with time_limit(5.0):
            _sprinkle_queries(w, limit)
    except OpTimeout:
        pass


def _sprinkle_queries(w, limit=24):
    """Read-only queries on every tree BETWEEN the mutations of a history (answers are not judged here): whatever
    the library caches or memoises is filled by queries, so a mutator that forgets to reset it only shows when the
    same tree object was queried before.  depth / calc_depth / calc_height / is_descendant_of / is_ancestor_of /
    get_index / siblings / count_descendants / get_path / find / format / iteration / len / to_dict_list."""
    for t in w.trees:
        try:
            nodes = reach(t)[:limit]
            for i, n in enumerate(nodes):
                for name in ("depth", "calc_depth", "calc_height", "get_index", "count_descendants", "is_clone", "is_top", "is_leaf",
                             "first_sibling", "last_sibling", "prev_sibling", "next_sibling", "get_parent_list", "get_path",
                             "get_top", "has_children", "is_first_sibling", "is_last_sibling"):
                    try:
                        getattr(n, name)()
                    except Exception:
                        pass
                for m in (nodes[0], nodes[-1], nodes[(i * 7 + 3) % len(nodes)], n._parent):
                    try:
                        n.is_descendant_of(m)
                        m.is_ancestor_of(n)
                    except Exception:
                        pass
                try:
                    t.find(n._data)
                    t.find(data_id=n._data_id)
                except Exception:
                    pass
            for f in (lambda: t.format(), lambda: t.calc_height(), lambda: len(t), lambda: list(t), lambda: t.to_dict_list(),
                      lambda: t.count_unique, lambda: t.first_child(), lambda: t.last_child()):
                try:
                    f()
                except Exception:
                    pass
        except Exception:
            pass


def replay(hist, oracles=("wf",), pre=None, post=None, keep_world=False, queries=True) -> Run:
    """see the module docstring.  One extra history entry is understood here (not by mut.execute):

        ["iter_remove", ti, DID]     for n in tree.find_all(data_id=DID): n.remove()

    the hostile-caller pattern "iterate over a lookup result while removing what it yields".  It is expanded
    while it runs: every node the iteration yields becomes one ordinary ["remove", ti, n, False, False] step
    (own observation, own Coq op).  A lookup result is a snapshot, so the iteration has to yield exactly the
    nodes that carried the id when find_all was called; anything else is reported under the oracle name "lookup"."""
    w = World(hist["univ"])
    run = Run()
    state = {"before": w.obs()}

    def _judge(si, step, ctx):
        for name in oracles:
            msg = None
            if name == "wf":
                msg = first(mut.wf_oracle(t, w) for t in w.trees)
            elif name == "index":
                msg = first(mut.index_oracle(t, w) for t in w.trees)
            elif name == "sibling":
                msg = first(mut.sibling_oracle(t, w) for t in w.trees)
            elif name == "refusal":
                msg = mut.refusal_oracle(step)
            elif name == "effect":
                msg = mut.effect_oracle(step, w)
            if msg:
                run.fails.append((si, name, msg))
        if post is not None:
            for name, msg in post(w, si, step, ctx) or []:
                run.fails.append((si, name, msg))

    def do_step(op):
        si = len(run.steps)
        before = state["before"]
        alloc0 = w.allocated()
        ntrees0 = len(w.trees)
        try:
            thunk, coq, _ = execute(w, op)
        except NotLive:
            run.coq_ops.append("(OClear 999)")
            res = [1, EMODEL]
            after = before
            step = dict(op=op, res=res, before=before, after=after, new_ids=[], coq=run.coq_ops[-1], skipped=True)
            run.obs.append([res, after])
            run.steps.append(step)
            if post is not None:
                for name, msg in post(w, si, step, None) or []:
                    run.fails.append((si, name, msg))
            return
        run.coq_ops.append(coq)
        ctx = pre(w, si, op) if pre is not None else None
        _old = sys.getrecursionlimit()
        sys.setrecursionlimit(OP_RECURSION_LIMIT)
        try:
            with time_limit(5.0):
                res = [0, thunk()]
        except (RecursionError, OpTimeout):
            res = [1, 8]
        except Exception as e:  # every op's own failure is an observation
            res = mut.outcome_of(e)
        finally:
            sys.setrecursionlimit(_old)
        after = w.obs()
        step = dict(op=op, res=res, before=before, after=after, new_ids=list(range(alloc0 + 1, w.allocated() + 1)),
                    new_trees=list(range(ntrees0, len(w.trees))), coq=coq)
        run.obs.append([res, after])
        run.steps.append(step)
        kind = op[0] + (":" + H.ERR_NAMES.get(res[1], str(res[1])) if res[0] else "")
        run.stats[kind] = run.stats.get(kind, 0) + 1
        try:
            with time_limit(20.0):
                _judge(si, step, ctx)
        except OpTimeout:
            run.fails.append((si, "wf", "wf: an oracle / observation did not terminate (cycle in the node graph)"))
        if queries:
            sprinkle_queries(w)
            try:
                with time_limit(5.0):
                    mut.hostile_queries(w)      # the caller destroys every list / dict the queries hand back
            except OpTimeout:
                pass
        state["before"] = after

    for op in hist["ops"]:
        if op[0] == "iter_remove":
            _, ti, e = op
            t = w.tree(ti)
            if t is None:
                do_step(["clear", 999])
                continue
            try:
                result = t.find_all(data_id=e)
            except Exception:
                continue
            snap = list(result)
            visited = []
            for nd in result:                 # the caller iterates the object it was given, and removes as it goes
                visited.append(nd)
                if len(visited) > len(snap) + 5:
                    break
                do_step(["remove", ti, w.rel(nd), False, False])
            if len(visited) != len(snap) or any(a is not b for a, b in zip(visited, snap)):
                run.fails.append((max(0, len(run.steps) - 1), "lookup",
                                  f"iterating over find_all(data_id={e!r}) while removing the yielded nodes visited "
                                  f"{[w.rel(x) for x in visited]}, the lookup had returned {[w.rel(x) for x in snap]} (a result must be a snapshot)"))
            continue
        do_step(op)
    if keep_world:
        run.world = w
    return run


def run_group(group, oracles=("wf",), hooks=None):
    """`mut.run_group` with hooks: `hooks()` returns a fresh (pre, post) pair per replay.
    Returns (setup Run, list of Run) - the alternatives each replay setup + one op."""
    def mk():
        return hooks() if hooks is not None else (None, None)
    pre, post = mk()
    setup = replay({"univ": group["univ"], "ops": group["setup"]}, oracles=oracles, pre=pre, post=post)
    runs = []
    for alt in group["alts"]:
        pre, post = mk()
        runs.append(replay({"univ": group["univ"], "ops": group["setup"] + [alt]}, oracles=oracles, pre=pre, post=post))
    return setup, runs


# ---------------------------------------------------------------------------
# pointer-level helpers (identity only)
# ---------------------------------------------------------------------------
def reach(t):
    """Nodes reachable from the tree's top-level child list, pre-order, by an identity walk of `_children`
    (cycle-safe: a node is visited once)."""
    seen = set()
    order = []
    stack = [iter(t._root._children or [])]
    while stack:
        try:
            c = next(stack[-1])
        except StopIteration:
            stack.pop()
            continue
        if id(c) in seen:
            continue
        seen.add(id(c))
        order.append(c)
        if len(stack) < 400:
            stack.append(iter(c._children or []))
    return order


def reach_ids(w: World):
    return {id(n) for t in w.trees for n in reach(t)}


def all_allocated(w: World):
    return [H._KEEP[w.base + k] for k in range(w.allocated())]


class RemovedOracle:
    """C01, second sentence: a node object that is not reachable from any tree (it was removed directly, as a
    descendant, by clear, by filter, by del, or its creation was refused / rolled back) is not counted, not
    registered under any node_id and not listed in any clone group; a node that WAS in a tree and was removed
    does not point back into the world (`node.tree` / `node.parent` / `node.children` of a removed node must
    not name a tree or a live node).  The pointer test is limited to nodes that were reachable after some
    earlier step: an object whose constructor raised was never handed out to anybody.
    One instance per replay; call after every step."""

    def __init__(self):
        self.ever = set()

    def __call__(self, w: World):
        reachable = reach_ids(w)
        gone = [n for n in all_allocated(w) if id(n) not in reachable]
        msg = self._check(w, reachable, gone) if gone else None
        self.ever |= reachable
        return msg

    def _check(self, w, reachable, gone):
        gone_ids = {id(n) for n in gone}
        for ti, t in enumerate(w.trees):
            for k, v in t._node_by_id.items():
                if id(v) in gone_ids:
                    return f"removed: node {w.rel(v)} is not reachable but still registered in tree {ti} (count={t.count})"
            for d, grp in t._nodes_by_data_id.items():
                for v in grp:
                    if id(v) in gone_ids:
                        return f"removed: node {w.rel(v)} is not reachable but still listed in the clone group {d!r} of tree {ti}"
        for n in gone:
            if id(n) not in self.ever:
                continue
            tr = getattr(n, "_tree", None)
            if tr is not None and any(tr is t for t in w.trees):
                return f"removed: node {w.rel(n)} was removed but still reports a tree as owner"
            p = getattr(n, "_parent", None)
            if p is not None and (id(p) in reachable or any(p is t._root for t in w.trees)):
                return f"removed: node {w.rel(n)} was removed but still names a live node as parent"
            for c in (getattr(n, "_children", None) or []):
                if id(c) in reachable:
                    return f"removed: node {w.rel(n)} was removed but still holds the live node {w.rel(c)} as child"
        return None


def safe_obs(obs):
    """The observation if it can be rendered as an sx term, else a marker the model can never produce
    (a runaway deep copy - D06 - nests deeper than the renderer's recursion limit)."""
    try:
        H.sx(obs)
        return obs
    except RecursionError:
        return [-3]


def safe_shrink_candidates(hist, seconds=30.0):
    """mut.shrink_candidates, materialised under the watchdog (it replays the history with mut.replay, which has none:
    on a corrupted implementation an op on a node inside a cycle may never return)"""
    try:
        with time_limit(seconds):
            cands = list(mut.shrink_candidates(hist))
    except (OpTimeout, Exception):
        cands = []
    return cands
