"""Sensitivity mutations for C07: each one breaks the implementation in the scratch repo worktree
(NUTREE_REPO, a git worktree of nutree: either the pinned commit, then fixes/SERIES.txt is applied, or a commit that already contains the fixes), runs the pinned suite and
`bin/check C07 --tier quick`, prints the VIOLATION line, and restores the worktree.

    NUTREE_REPO=<scratch worktree> python harness/sens_c07.py [mutation names...]

Results of the last session (all with the pinned suite at 72 passed unless noted; every one gives exit 1 + VIOLATION + replay):
  M1 shared meta dict (add_child(node))                      caught   M2b shared children list (explicit str id)     caught
  M3b last grandchild dropped (first has id 5)                caught   M4 nested explicit data_id lost                caught
  M5 copy_to(before=...) reverses the source's sibling list   caught   M6 typed kind lost at depth >= 2               caught
  M7 data object replaced by an equal copy                    caught   M8 children order permuted for 3 children      caught (after adding a 3-grandchildren shape to the quick tier; missed before)
  M9 nested copies share the meta dict                        caught   M10 typed prepend_sibling(node) drops kind     caught
  M11 append_sibling(tree) ignores deep                       caught   (M2, M3: also caught, but they break the pinned suite)
"""
import subprocess, sys, re, os
HERE = os.path.dirname(os.path.dirname(os.path.abspath(__file__)))
REPO = os.environ["NUTREE_REPO"]
def sub(fn, old, new, count=1):
    p=f'{REPO}/{fn}'; s=open(p).read()
    assert s.count(old)>=1, (fn, old)
    s=s.replace(old,new,count); open(p,'w').write(s)
MUTS={}
def M(name):
    def deco(f): MUTS[name]=f; return f
    return deco
ADD_FROM_OLD='''            new_child = self.add_child(child.data, data_id=child._data_id)
'''
@M('M1_shared_meta')
def m1():
    # a copy made by add_child(node) takes over the source's meta dict by reference
    for fn in ('nutree/node.py','nutree/typed_tree.py'):
        sub(fn, '''        if deep and source_node:
            node._add_from(source_node)
''','''        if source_node is not None:
            node._meta = source_node._meta
        if deep and source_node:
            node._add_from(source_node)
''')
@M('M2_shared_children_list')
def m2():
    # deep copy of a node whose children are all leaves re-uses the source's children list object
    sub('nutree/node.py','''        assert not self._children
        for child in other.children:
            new_child = self.add_child(child.data, data_id=child._data_id)
''','''        assert not self._children
        if other._parent is not None and other._children and not any(c._children for c in other._children) and len(other._children) > 1:
            self._children = other._children
            return
        for child in other.children:
            new_child = self.add_child(child.data, data_id=child._data_id)
''')
@M('M3_drop_last_grandchild')
def m3():
    for fn,old in (('nutree/node.py','''        for child in other.children:
            new_child = self.add_child(child.data, data_id=child._data_id)
'''),):
        sub(fn, old, '''        kids = other.children
        if self._parent is not None and self._parent._parent is not None and len(kids) > 1:
            kids = kids[:-1]
        for child in kids:
            new_child = self.add_child(child.data, data_id=child._data_id)
''')
@M('M4_nested_explicit_id_lost')
def m4():
    sub('nutree/node.py', ADD_FROM_OLD, '''            new_child = self.add_child(
                child.data,
                data_id=child._data_id if (child.children or self._parent is None or self._parent._parent is None) else None,
            )
''')
@M('M5_copy_to_before_reorders_source')
def m5():
    sub('nutree/node.py','''        if add_self:
            return target.add_child(self, before=before, deep=deep)
''','''        if add_self:
            if before is not None and self._parent is not None:
                self._parent._children.reverse()
            return target.add_child(self, before=before, deep=deep)
''')
@M('M6_typed_kind_lost_depth2')
def m6():
    sub('nutree/typed_tree.py','''                child.data, kind=getattr(child, "kind", None), data_id=child._data_id
''','''                child.data,
                kind=getattr(child, "kind", None) if (self._parent is None or self._parent._parent is None) else None,
                data_id=child._data_id,
''')
@M('M7_data_equal_not_identical')
def m7():
    # copies of non-str/int data reference an equal COPY of the data object instead of the object itself
    sub('nutree/node.py','''            node = child_class(
                source_node.data, parent=self, data_id=data_id, node_id=node_id
            )
''','''            import copy as _copy
            _d = source_node.data
            if not isinstance(_d, (str, int, tuple)) and type(_d).__eq__ is not object.__eq__:
                _d = _copy.copy(_d)
            node = child_class(_d, parent=self, data_id=data_id, node_id=node_id)
''')
@M('M8_tree_copy_reversed_below_top')
def m8():
    # Tree.copy: order of children reversed for nodes with exactly 3 children
    sub('nutree/node.py','''        for child in other.children:
            new_child = self.add_child(child.data, data_id=child._data_id)
''','''        kids = other.children
        if len(kids) == 3 and other._parent is not None:
            kids = [kids[0], kids[2], kids[1]]
        for child in kids:
            new_child = self.add_child(child.data, data_id=child._data_id)
''')
@M('M2b_shared_children_list_explicit_str_id')
def m2b():
    # deep copy of a node with an explicit str data_id whose children are all leaves re-uses the source's children list object
    sub('nutree/node.py',"""        assert not self._children
        for child in other.children:
            new_child = self.add_child(child.data, data_id=child._data_id)
""","""        assert not self._children
        if isinstance(other._data_id, str) and other._children and not any(c._children for c in other._children):
            self._children = other._children
            return
        for child in other.children:
            new_child = self.add_child(child.data, data_id=child._data_id)
""")
@M('M3b_drop_last_grandchild_explicit_int_id')
def m3b():
    sub('nutree/node.py',"""        for child in other.children:
            new_child = self.add_child(child.data, data_id=child._data_id)
""","""        kids = other.children
        if self._parent is not None and self._parent._parent is not None and len(kids) > 1 and kids[0]._data_id == 5:
            kids = kids[:-1]
        for child in kids:
            new_child = self.add_child(child.data, data_id=child._data_id)
""")
@M('M9_meta_copied_by_reference_in_add_from')
def m9():
    # nested copies take over the metadata dict of their source by reference
    sub('nutree/node.py',"""            new_child = self.add_child(child.data, data_id=child._data_id)
""","""            new_child = self.add_child(child.data, data_id=child._data_id)
            new_child._meta = child._meta
""")
@M('M10_typed_prepend_sibling_node_kind_dropped')
def m10():
    sub('nutree/typed_tree.py',"""        return self._parent.add_child(
            child,
            kind=self.kind,
            before=self,
""","""        return self._parent.add_child(
            child,
            kind=None if isinstance(child, Node) else self.kind,
            before=self,
""")
@M('M11_append_sibling_tree_ignores_deep')
def m11():
    sub('nutree/node.py',"""        next_node = self.next_sibling()
        return self._parent.add_child(
            child, before=next_node, deep=deep, data_id=data_id, node_id=node_id
        )""","""        next_node = self.next_sibling()
        return self._parent.add_child(
            child, before=next_node, deep=None if not isinstance(child, Node) else deep, data_id=data_id, node_id=node_id
        )""")
def reset():
    """worktree = HEAD (+ the fix series when HEAD is the pinned commit, i.e. when the first fix still applies)"""
    first = open(f"{HERE}/fixes/SERIES.txt").read().split()[0]
    cmd = (f"cd {REPO} && git checkout -q -- . && if git apply --check {HERE}/fixes/{first}.diff 2>/dev/null; then "
           f"for d in $(cat {HERE}/fixes/SERIES.txt); do git apply {HERE}/fixes/$d.diff || echo FAIL $d; done; fi")
    subprocess.run(cmd, shell=True, check=True, capture_output=True)
def suite():
    r=subprocess.run('cd %s && env -u MAR10_NUTREE_VERIF /venv/bin/python -m pytest -p no:cacheprovider --no-cov 2>&1 | grep -iE "[0-9]+ passed" | tail -1'%REPO,shell=True,capture_output=True,text=True)
    return r.stdout.strip()
names=sys.argv[1:] or list(MUTS)
for n in names:
    reset(); MUTS[n]()
    st=suite()
    env=dict(os.environ, NUTREE_REPO=REPO)
    r=subprocess.run(f'cd {HERE} && bin/check C07 --tier quick 2>&1 | grep -v "^WARNING" | grep -E "VIOLATION|^C07 \\[" | head -3', shell=True, capture_output=True, text=True, env=env)
    r2=subprocess.run(f'cd {HERE} && ls -t replays/ 2>/dev/null | head -1', shell=True, capture_output=True, text=True)
    print(f'== {n}: suite[{st}]\n{r.stdout.strip()}\n   latest replay: {r2.stdout.strip()}', flush=True)
reset()
print('reset done', suite())
