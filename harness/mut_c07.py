"""C07 engine: copies are faithful to the source and independent of it.

Built on the Layer-B history engine harness/mut.py (same history format, same `World`, `execute`,
same observation = `CaseMut.run_mut`).  This module adds

* `Snap`  - a pointer-level snapshot of every tree of a world: per node object its data object, data_id,
  kind, the `_meta` dict OBJECT and its content, the `_children` list OBJECT and its elements, `_parent`, `_tree`;
* `copy_oracle`  - for every successful copy operation (add(node) shallow/deep, add(tree), copy_to with and
  without add_self, Tree.copy, Node.copy) written from the property statement, walking pointers only:
    - the new top nodes correspond one to one, IN SOURCE ORDER, to the source nodes, as one contiguous block
      below the target;
    - every copied node is a NEW object (`is not` any node that existed before), of the class of its source,
      references the SAME data object (`is`), has the same data_id, the same kind (typed trees; the top node
      of a copy made through add_child gets the kind= argument or the default kind - pinned behaviour D47);
      deep: same number of children, recursively, in the same order; shallow: no children;
    - nothing mutable is shared: `_children` list and `_meta` dict of a copy are not the objects of its source;
    - count: the nodes allocated by the operation are exactly the copied ones;
    - the SOURCE IS UNCHANGED: every node object that existed before (in every tree) has the same data object,
      data_id, kind, meta (same dict object, same content), parent, tree and the same children list (same
      list object, same elements in the same order) - except that the target parent gained the new nodes;
* `independence_oracle`  - for EVERY later step: all trees other than the one the operation works on are
  pointer-identical to what they were (objects, payloads, metadata dicts and contents, child lists); and for
  same-tree copies: an operation inside the copy's branch leaves every node of the source branch untouched
  and vice versa (for the operations whose effect is local to a branch);
* generators: `gen_groups` (exhaustive: every copy operation x every argument on every small source forest
  under several labelings, typed and plain, into a second tree and into the same tree) and `gen_history`
  (a source, one copy operation, then a random mutation history on source or copy).
"""
from __future__ import annotations

import sys

import build as B
import common as H
import mut
from common import Tree, TypedTree, Node

COPY_OPS = ("addnode", "addtree", "copyto", "treecopy", "nodecopy", "shortnode", "shorttree")
SHORTCUTS = ("append_child", "prepend_child", "prepend_sibling", "append_sibling")
DEFAULT_KIND = mut.DEFAULT_KIND
RUNAWAY_NODES = 60          # no generated copy is that large


def kind_of(n):
    return getattr(n, "_kind", None) if isinstance(n, H.TypedNode) else None


# ---------------------------------------------------------------------------
# pointer snapshot
# ---------------------------------------------------------------------------
class Rec:
    __slots__ = ("node", "data", "did", "kind", "meta_obj", "meta", "ch_obj", "ch", "parent", "tree")

    def __init__(self, n):
        self.node = n
        self.data = n._data
        self.did = n._data_id
        self.kind = kind_of(n)
        self.meta_obj = n._meta
        self.meta = None if n._meta is None else dict(n._meta)
        self.ch_obj = n._children
        self.ch = tuple(n._children or ())
        self.parent = n._parent
        self.tree = n._tree


class Snap:
    def __init__(self, w: mut.World):
        self.rec = {}          # id(node) -> Rec   (root nodes included)
        self.roots = []
        for t in w.trees:
            self.roots.append(t._root)
            stack = [(t._root, 0)]
            while stack:
                n, d = stack.pop()
                if id(n) in self.rec or d > 300:
                    continue
                self.rec[id(n)] = Rec(n)
                for c in reversed(n._children or ()):
                    stack.append((c, d + 1))

    def get(self, n):
        return self.rec.get(id(n))

    def subtree(self, n):
        """node objects of the branch of n (inclusive), by the recorded child lists"""
        out, stack, seen = [], [n], set()
        while stack:
            x = stack.pop()
            if id(x) in seen:
                continue
            seen.add(id(x))
            out.append(x)
            r = self.rec.get(id(x))
            if r is not None:
                stack.extend(reversed(r.ch))
        return out

    def tree_nodes(self, ti):
        return self.subtree(self.roots[ti])


def same_did(a, b):
    return type(a) is type(b) and a == b


def rec_diff(r0: Rec, r1: Rec, *, allow_new_children=None):
    """differences of one node object between two snapshots ([] = untouched).  `allow_new_children`: a set of
    id()s of node objects that may have been inserted into the child list."""
    out = []
    if r1 is None:
        return ["is no longer in its tree"]
    if r0.data is not r1.data:
        out.append("data object changed")
    if not same_did(r0.did, r1.did):
        out.append(f"data_id {r0.did!r} -> {r1.did!r}")
    if r0.kind != r1.kind:
        out.append(f"kind {r0.kind!r} -> {r1.kind!r}")
    if r0.meta_obj is not r1.meta_obj and not (r0.meta_obj is None and not r1.meta):
        out.append("meta dict replaced")
    if (r0.meta or {}) != (r1.meta or {}):
        out.append(f"meta {r0.meta!r} -> {r1.meta!r}")
    if r0.parent is not r1.parent:
        out.append("parent changed")
    if r0.tree is not r1.tree:
        out.append("tree changed")
    ch1 = r1.ch
    if allow_new_children is not None:
        ch1 = tuple(c for c in r1.ch if id(c) not in allow_new_children)
        if r0.ch_obj is not None and r0.ch_obj is not r1.ch_obj:
            out.append("children list object replaced")
    elif r0.ch_obj is not r1.ch_obj and not (not r0.ch and not r1.ch):
        out.append("children list object replaced")
    if len(ch1) != len(r0.ch) or any(a is not b for a, b in zip(r0.ch, ch1)):
        out.append("children changed/reordered")
    return out


def name_of(w, n):
    try:
        return f"node {w.rel(n)}"
    except Exception:
        return "node ?"


# ---------------------------------------------------------------------------
# the copy oracle
# ---------------------------------------------------------------------------
def expected_copy(w: mut.World, op, s0: Snap, plan=None):
    """What the property statement says a successful copy operation does:
    (target tree index or None for a new tree, target parent object or None, [(source node, deep, topkind)],
     `before` argument) where topkind = ("fixed", kind) | ("keep",)."""
    k = op[0]
    typed = lambda ti: isinstance(w.trees[ti], TypedTree)  # noqa: E731
    if k == "addnode":
        _, ti, p, sti, src, did, kind, before, deep = op
        tk = ("fixed", (kind or DEFAULT_KIND) if typed(ti) else None)
        return ti, w.parent_ref(ti, p), [(w.raw(src), bool(deep), tk)], before
    if k == "copyto":
        _, sti, src, ti, target, add_self, before, deep = op
        tk = ("fixed", DEFAULT_KIND if typed(ti) else None)
        if add_self:
            return ti, w.parent_ref(ti, target), [(w.raw(src), bool(deep), tk)], before
        sn = w.trees[sti]._root if src == 0 else w.raw(src)
        return ti, w.parent_ref(ti, target), [(c, bool(deep), tk) for c in s0.get(sn).ch], None
    if k == "addtree":
        _, ti, p, sti, before, deep = op
        tk = ("fixed", DEFAULT_KIND if typed(ti) else None)
        dp = True if deep is None else bool(deep)
        return ti, w.parent_ref(ti, p), [(c, dp, tk) for c in s0.get(w.trees[sti]._root).ch], before
    if k in ("shortnode", "shorttree"):
        nn, p, before, kind = plan
        ti = op[1]
        par = w.trees[ti]._root if p == 0 else w.raw(p)
        if k == "shortnode":
            tk = ("fixed", (kind or DEFAULT_KIND) if typed(ti) else None)
            return ti, par, [(w.raw(op[5]), bool(op[6]), tk)], before
        tk = ("fixed", DEFAULT_KIND if typed(ti) else None)
        dp = True if op[5] is None else bool(op[5])
        return ti, par, [(c, dp, tk) for c in s0.get(w.trees[op[4]]._root).ch], before
    if k == "treecopy":
        return None, None, [(c, True, ("keep",)) for c in s0.get(w.trees[op[1]]._root).ch], None
    if k == "nodecopy":
        _, sti, src, add_self = op
        sn = w.raw(src)
        if add_self:
            return None, None, [(sn, True, ("fixed", DEFAULT_KIND if typed(sti) else None))], None
        return None, None, [(c, True, ("keep",)) for c in s0.get(sn).ch], None
    return None


def d71_region(w: mut.World, op):
    """Finding D71 (unrepaired in /repo): add_child(<tree>) recognises a tree argument by `isinstance(child, type(target tree))`;
    a source tree that is NOT an instance of the target tree's class (target = a subclass of the source's class, or a sibling
    class) is treated as a plain data object: TypeError (unhashable) or ONE node holding the Tree object."""
    k = op[0]
    if k not in ("addtree", "shorttree"):
        return False
    ti, sti = op[1], (op[3] if k == "addtree" else op[4])
    try:
        return not isinstance(w.trees[sti], type(w.trees[ti]))
    except Exception:
        return False


def refusal_reasons(w: mut.World, op, s0: Snap, plan=None):
    """The documented reasons for refusing the copy operation `op` in the state s0 (by pointers; [] = the copy is legal):
    a child of the target with the data_id of a source (this includes copying a node below its own parent), a deep copy
    into the own branch, data_id= together with deep or different from the source's, `before=<node>` that is not a child
    of the target, copy_to(add_self=False) of a node without children, a typed/plain mismatch."""
    k = op[0]
    why = []
    if k in ("treecopy", "nodecopy"):
        return why
    ti, parent, sources, before = expected_copy(w, op, s0, plan)
    if parent is None or s0.get(parent) is None:
        return ["target"]
    sti = {"addnode": 3, "addtree": 3, "copyto": 1, "shortnode": 4, "shorttree": 4}[k]
    if isinstance(w.trees[ti], TypedTree) != isinstance(w.trees[op[sti]], TypedTree):
        why.append("typed/plain")
    if k == "copyto" and not op[5] and not sources:
        why.append("no children")
    if k == "copyto" and not op[5] and op[6] is not None:
        why.append("before with add_self=False")
    if k == "addnode" and op[5] is not None:
        r = s0.get(sources[0][0])
        if sources[0][1] or r is None or not same_did(op[5], r.did):
            why.append("data_id=")
    pch = s0.get(parent).ch
    for S, deep, _ in sources:
        r = s0.get(S)
        if r is None:
            why.append("source")
            continue
        if any(same_did(s0.get(c).did, r.did) for c in pch):
            why.append("sibling with the same data_id")
        if deep and any(x is parent for x in s0.subtree(S)):
            why.append("deep copy into the own branch")
    if isinstance(before, dict) and sources:
        bn = w.raw(before["n"])
        if not any(c is bn for c in pch):
            why.append("before is not a child of the target")
    return why


def copy_oracle(w: mut.World, step, s0: Snap, s1: Snap):
    """-> (message or None, info dict)."""
    op, res = step.get("nop") or step["op"], step["res"]
    info = {}
    if op[0] not in COPY_OPS or (res[0] == 1 and res[1] == mut.EMODEL):
        return None, info
    if res[0] != 0:
        # a copy that is refused or fails must leave everything that existed as it was (the source in particular)
        for nid_, r0 in s0.rec.items():
            d = rec_diff(r0, s1.rec.get(nid_))
            if d:
                return f"copy: the failed {op[0]} changed {name_of(w, r0.node)}: {d[0]}", info
        # ... and a refusal needs a documented reason: a legal copy must be made
        if res[1] in mut.LIB_ERRORS or res[1] in (6, 7):
            why = refusal_reasons(w, op, s0, step.get("plan"))
            if not why:
                return (f"copy: a documented-valid {step['op'][0]} was refused ({H.ERR_NAMES.get(res[1], res[1])}): no sibling with "
                        f"that data_id, not a deep copy into the own branch, `before` is a child of the target"), info
        return None, info
    exp = expected_copy(w, op, s0, step.get("plan"))
    ti, parent, sources, before = exp
    new_objs = [w.raw(i) for i in step["new_ids"]]
    new_set = {id(n) for n in new_objs}
    if ti is None:
        if len(step["new_trees"]) != 1:
            return f"copy: {op[0]} did not return exactly one new tree", info
        ti = step["new_trees"][0]
        tree = w.trees[ti]
        parent = tree._root
        src_tree = w.trees[op[1]]
        if tree is src_tree or any(tree is t for t in w.trees[:ti]):
            return "copy: the returned tree is not a new object", info
        if type(tree) is not type(src_tree):
            return f"copy: source tree is a {type(src_tree).__name__}, the copy a {type(tree).__name__}", info
    else:
        tree = w.trees[ti]
    if any(id(n) in s0.rec for n in new_objs):
        return "copy: a node counted as new existed before", info
    # -- the new top nodes: children of the target parent that did not exist before, in list order
    pch = list(parent._children or ())
    tops = [c for c in pch if id(c) in new_set]
    if len(tops) != len(sources):
        return f"copy: {len(sources)} source node(s) but {len(tops)} new node(s) below the target", info
    if tops:
        pos = [i for i, c in enumerate(pch) if id(c) in new_set]
        if pos != list(range(pos[0], pos[0] + len(pos))):
            return "copy: the new nodes are not one contiguous block below the target", info
        if before is None or before is False:
            if pos[-1] != len(pch) - 1:
                return "copy: before=None/False must append", info
        elif isinstance(before, dict):
            bn = w.raw(before["n"])
            if pos[-1] + 1 >= len(pch) or pch[pos[-1] + 1] is not bn:
                return "copy: before=<node>: the new nodes must be directly in front of that node", info
        elif before is True or before == 0:
            if pos[0] != 0:
                return "copy: before=True/0 must prepend", info
        elif isinstance(before, int):
            # an index is resolved against the child list as it was, the way list.insert() does (negative: from the end; clamped)
            n0 = len(pch) - len(tops)
            want = max(0, n0 + before) if before < 0 else min(before, n0)
            if pos[0] != want:
                return f"copy: before={before}: the new nodes start at index {pos[0]}, list.insert() puts them at {want}", info
    pairs = []
    errs = []
    d47 = []
    explicit_kind = (op[0] == "addnode" and op[6] is not None) or (op[0] == "shortnode" and step["plan"][3] is not None)

    def pair(S, N, top, topkind, deep, par):
        r = s0.get(S)
        if r is None:
            errs.append("source node was not in a tree")
            return
        where = f"copy {name_of(w, N)} of {name_of(w, S)}"
        pairs.append((S, N))
        if N is S:
            errs.append(f"{where}: the copy IS the source object")
        if type(N) is not type(S):
            errs.append(f"{where}: class {type(N).__name__} != {type(S).__name__}")
        if N._data is not r.data:
            errs.append(f"{where}: references another data object")
        if not same_did(N._data_id, r.did):
            errs.append(f"{where}: data_id {N._data_id!r}, source has {r.did!r}")
        if isinstance(tree, TypedTree):
            want = topkind[1] if (top and topkind[0] == "fixed") else r.kind
            if kind_of(N) != want:
                errs.append(f"{where}: kind {kind_of(N)!r}, expected {want!r}")
            elif top and topkind[0] == "fixed" and want != r.kind and not explicit_kind:
                # known finding D47 (pinned by the suite): without kind= the top node of a typed copy gets the
                # default kind, not the source's.  Exactly this deviation is expected here, nothing else.
                d47.append(f"{where}: kind {kind_of(N)!r}, the source has {r.kind!r}")
        if N._tree is not tree:
            errs.append(f"{where}: belongs to another tree")
        if N._parent is not par:
            errs.append(f"{where}: wrong parent")
        if N._children is not None and (N._children is r.ch_obj or N._children is S._children):
            errs.append(f"{where}: shares the children list object with its source")
        if N._meta is not None and (N._meta is r.meta_obj or N._meta is S._meta):
            errs.append(f"{where}: shares the meta dict with its source")
        nch = list(N._children or ())
        if not deep:
            if nch:
                errs.append(f"{where}: shallow copy has children")
            return
        if len(nch) != len(r.ch):
            errs.append(f"{where}: {len(nch)} children, source has {len(r.ch)}")
            return
        for cs, cn in zip(r.ch, nch):
            pair(cs, cn, False, topkind, True, N)

    for (S, deep, tk), N in zip(sources, tops):
        pair(S, N, True, tk, deep, parent)
    if errs:
        return "copy: " + errs[0], info
    paired = {id(n) for _, n in pairs}
    if paired != new_set:
        return f"copy: {len(new_set)} nodes were allocated, {len(paired)} belong to the copy", info
    if len(paired) != len(pairs):
        return "copy: a new node is the copy of two source nodes", info
    # -- the source (everything that existed) is unchanged
    for nid_, r0 in s0.rec.items():
        r1 = s1.rec.get(nid_)
        d = rec_diff(r0, r1, allow_new_children=new_set if r0.node is parent else None)
        if d:
            return f"copy: source side changed by the copy: {name_of(w, r0.node)} {d[0]}", info
    info["pairs"] = pairs
    info["d47"] = d47
    info["tree"] = ti
    info["same_tree"] = ((op[0] in ("addnode", "addtree", "copyto") and (op[3] if op[0] != "copyto" else op[1]) == ti)
                         or (op[0] in ("shortnode", "shorttree") and op[4] == ti))
    info["tops"] = [(S, N) for (S, _, _), N in zip(sources, tops)]
    return None, info


# ---------------------------------------------------------------------------
# independence
# ---------------------------------------------------------------------------
def op_tree(op):
    """index of the existing tree an operation works on (None: it only creates a tree)"""
    k = op[0]
    if k in ("newsub", "new", "treecopy", "nodecopy", "tree_from_dict"):
        return None
    if k == "copyto":
        return op[3]
    return op[1]


LOCAL_OPS = {"meta": 2, "sort": 2, "set_data": 2, "rename": 2, "add": 2, "remove_children": 2, "remove": 2, "from_dict": 2}


def local_node(op):
    """the node an operation with a branch-local effect names (relative id), else None"""
    k = op[0]
    if k == "short" and op[3] in ("append_child", "prepend_child"):
        return op[2] or None
    if k not in LOCAL_OPS:
        return None
    if k == "set_data" and op[5] is True:
        return None
    if k == "remove" and op[4]:
        return None
    return op[LOCAL_OPS[k]] or None


def independence_oracle(w: mut.World, step, s0: Snap, s1: Snap, links):
    """`links`: [(source top object, copy top object)] of earlier same-tree copies."""
    op = step.get("nop") or step["op"]
    ti = op_tree(op)
    # (i) every tree the operation does not work on is untouched, pointer by pointer
    for tj, root in enumerate(s0.roots):
        if tj == ti:
            continue
        for n in s0.tree_nodes(tj):
            d = rec_diff(s0.get(n), s1.get(n))
            if d:
                return (f"independence: {op[0]} on tree {ti} changed {name_of(w, n) if n is not root else 'the root'} "
                        f"of tree {tj}: {d[0]}")
    # (ii) same-tree copies: an operation local to one branch leaves the other branch untouched
    x = local_node(op)
    if x is None:
        return None
    xn = w.raw(x)
    if xn is None or s0.get(xn) is None:
        return None
    for S, N in links:
        if s0.get(S) is None or s0.get(N) is None:
            continue
        sub_s, sub_n = s0.subtree(S), s0.subtree(N)
        ids_s, ids_n = {id(a) for a in sub_s}, {id(a) for a in sub_n}
        if ids_s & ids_n:
            continue
        for mine, other, what in ((ids_n, sub_s, "source"), (ids_s, sub_n, "copy")):
            if id(xn) in mine:
                for n in other:
                    d = rec_diff(s0.get(n), s1.get(n))
                    if d:
                        return (f"independence: {op[0]} on {name_of(w, xn)} changed {name_of(w, n)} in the {what} branch: {d[0]}")
    return None


# ---------------------------------------------------------------------------
# the four shortcuts with a NODE or a TREE argument (copies made through append_child / prepend_child /
# prepend_sibling / append_sibling).  Not ops of mut.py; executed here, and rendered for the model as the
# add_child call they are documented to be:  OAddNode / OAddTree with the parent and `before` read off the live tree
#     ["shortnode", ti, n, HOW, sti, src, DEEP]        node n of tree ti . HOW (node src of tree sti, deep=DEEP)
#     ["shorttree", ti, n, HOW, sti, DEEP]             node n of tree ti . HOW (tree sti, deep=DEEP)
# ---------------------------------------------------------------------------
def shortcut_plan(w: mut.World, op):
    """-> (node object, parent ref p, BEFORE value in history form, explicit kind or None)"""
    ti, n, how = op[1], op[2], op[3]
    nn = w.live_node(n, ti)
    if nn is None:
        raise mut.NotLive()
    typed = isinstance(w.trees[ti], TypedTree)
    if how in ("append_child", "prepend_child"):
        ch = list(nn._children or ())
        before = {"n": w.rel(ch[0])} if (how == "prepend_child" and ch) else None
        return nn, n, before, None
    par = nn._parent
    p = 0 if par is w.trees[ti]._root else w.rel(par)
    sibs = list(par._children or ())
    i = next(k for k, c in enumerate(sibs) if c is nn)
    if how == "prepend_sibling":
        before = {"n": n}
    else:
        before = {"n": w.rel(sibs[i + 1])} if i + 1 < len(sibs) else None
    return nn, p, before, (kind_of(nn) if typed else None)


# copy calls with arguments OMITTED (the defaults of the API: Node.copy_to(target, *, add_self=True, before=None, deep=False),
# Tree.copy_to(target, *, deep=True), Node.copy(*, add_self=True)); rendered for the model with the documented defaults
#     ["copyto_d", sti, src, ti, target, ADD_SELF|null, BEFORE|"omit", DEEP|null]     null / "omit" = not passed
#     ["nodecopy_d", sti, src]
def norm_op(op):
    """the equivalent op with every argument spelled out (None for ops that need no normalisation)"""
    if op[0] == "copyto_d":
        _, sti, src, ti, target, add_self, before, deep = op
        if src == 0:
            return ["copyto", sti, 0, ti, target, False, None, True if deep is None else deep]
        return ["copyto", sti, src, ti, target, True if add_self is None else add_self, None if before == "omit" else before,
                False if deep is None else deep]
    if op[0] == "nodecopy_d":
        return ["nodecopy", op[1], op[2], True]
    return None


def execute_defaults(w: mut.World, op):
    nop = norm_op(op)
    if op[0] == "nodecopy_d":
        sn = w.live_node(op[2], op[1])
        if sn is None:
            raise mut.NotLive()

        def thunk():
            r = sn.copy()
            w.trees.append(r)
            w.calcs.append(None)
            return [len(w.trees) - 1]

        return thunk, f"(ONodeCopy {op[1]} {op[2]} true)", False
    _, sti, src, ti, target, add_self, before, deep = op
    st, tn = w.tree(sti), w.parent_ref(ti, target)
    if st is None or tn is None:
        raise mut.NotLive()
    tgt = w.trees[ti] if target == 0 else tn
    kw = {}
    if deep is not None:
        kw["deep"] = deep
    if src == 0:
        if add_self is not None or before != "omit":
            raise mut.NotLive()
        obj = st
    else:
        obj = w.live_node(src, sti)
        if obj is None:
            raise mut.NotLive()
        if add_self is not None:
            kw["add_self"] = add_self
        if before != "omit":
            bv, ok = mut._bef(w, before)
            if not ok:
                raise mut.NotLive()
            kw["before"] = bv
    coq = (f"(OCopyTo {nop[1]} {nop[2]} {nop[3]} {nop[4]} {H.coq_bool(nop[5])} {mut.coq_before(nop[6])} {H.coq_bool(nop[7])})")

    def thunk():
        r = obj.copy_to(tgt, **kw)
        return [] if r is None else [w.rel(r)]

    return thunk, coq, False


# trees of SUBCLASSES of Tree / TypedTree (the documented way to customise calc_data_id, DEFAULT_* ...).  For the model a
# subclass that changes no behaviour IS a Tree; one that overrides calc_data_id is a tree with that id callback.
#     ["newsub", typed, "sub" | "named"]        "sub": trivial subclass; "named": calc_data_id(self, data) = f"{data}"
class SubTree(Tree):
    DEFAULT_CONNECTOR_STYLE = "ascii32"


class SubTypedTree(TypedTree):
    DEFAULT_CONNECTOR_STYLE = "ascii32"


class NamedTree(Tree):
    def calc_data_id(self, data):
        return f"{data}"


class NamedTypedTree(TypedTree):
    def calc_data_id(self, data):
        return f"{data}"


SUBCLASSES = {(False, "sub"): SubTree, (True, "sub"): SubTypedTree, (False, "named"): NamedTree, (True, "named"): NamedTypedTree}


def execute7(w: mut.World, op):
    """like mut.execute for the ops of this module; falls back to mut.execute"""
    if op[0] == "newsub":
        _, typed, variant = op
        calc = "name" if variant == "named" else None
        coq = f"(ONewTree {H.coq_bool(typed)} {w.coq_calc(calc)})"
        t = SUBCLASSES[(bool(typed), variant)](f"T{len(w.trees)}")
        w.trees.append(t)
        w.calcs.append(calc)
        return (lambda: [len(w.trees) - 1]), coq, True
    if op[0] in ("copyto_d", "nodecopy_d"):
        return execute_defaults(w, op)
    if op[0] not in ("shortnode", "shorttree"):
        return mut.execute(w, op)
    how = op[3]
    if how not in SHORTCUTS:
        raise mut.NotLive()
    nn, p, before, kind = shortcut_plan(w, op)
    ti = op[1]
    if op[0] == "shortnode":
        _, _, _, _, sti, src, deep = op
        sn = w.live_node(src, sti)
        if sn is None:
            raise mut.NotLive()
        arg = sn
        coq = (f"(OAddNode {ti} {p} {sti} {src} None {mut.coq_kind(kind)} {mut.coq_before(before)} {mut.coq_obool(deep)})")
    else:
        _, _, _, _, sti, deep = op
        st = w.tree(sti)
        if st is None:
            raise mut.NotLive()
        arg = st
        coq = f"(OAddTree {ti} {p} {sti} {mut.coq_before(before)} {mut.coq_obool(deep)})"
    kw = {} if deep is None else {"deep": deep}

    def thunk():
        r = getattr(nn, how)(arg, **kw)
        return [] if r is None else [w.rel(r)]

    return thunk, coq, False


# ---------------------------------------------------------------------------
# replay with the C07 oracles
# ---------------------------------------------------------------------------
def replay7(hist, *, check_from=0) -> mut.Run:
    """mut.replay with the C07 oracles (steps < check_from are setup: executed and observed, not judged)."""
    w = mut.World(hist["univ"])
    run = mut.Run()
    before = w.obs()
    links = []
    ncopies = 0
    npairs = 0
    poisoned = False
    for si, op in enumerate(hist["ops"]):
        if poisoned:
            # after a runaway copy the trees hold hundreds of nested nodes: nothing further is executed or rendered
            run.coq_ops.append("(OClear 999)")
            res = [1, mut.EMODEL]
            run.obs.append([res, [[-3]]])
            run.steps.append(dict(op=op, res=res, before=[[-3]], after=[[-3]], new_ids=[], new_trees=[], coq=run.coq_ops[-1]))
            continue
        alloc0 = w.allocated()
        ntrees0 = len(w.trees)
        try:
            plan = shortcut_plan(w, op) if op[0] in ("shortnode", "shorttree") and op[3] in SHORTCUTS else None
            thunk, coq, _ = execute7(w, op)
        except mut.NotLive:
            run.coq_ops.append("(OClear 999)")
            res = [1, mut.EMODEL]
            run.obs.append([res, before])
            run.steps.append(dict(op=op, res=res, before=before, after=before, new_ids=[], new_trees=[], coq=run.coq_ops[-1]))
            continue
        run.coq_ops.append(coq)
        judged = si >= check_from
        s0 = Snap(w) if judged else None
        _old = sys.getrecursionlimit()
        sys.setrecursionlimit(mut.OP_RECURSION_LIMIT)
        try:
            res = [0, thunk()]
        except RecursionError:
            res = [1, 8]
        except Exception as e:
            res = [1, H.err_class(e)]
            if isinstance(e, mut.CallbackFault):
                res = [1, 8]
        finally:
            sys.setrecursionlimit(_old)
        runaway = w.allocated() - alloc0 > RUNAWAY_NODES
        # a runaway copy (D06 on the unrepaired code: hundreds of nodes until RecursionError) is rendered as a marker the
        # model can never produce, instead of a forest of hundreds of nodes per alternative (minutes of vm_compute)
        unrenderable = None
        if runaway:
            after = [[-3]]
        else:
            try:
                after = w.obs()
            except Exception as e:      # e.g. a node whose data is not a data object of the case (a Tree object ...)
                after, unrenderable = [[-4]], f"{type(e).__name__}: {e}"
        step = dict(op=op, res=res, before=before, after=after, new_ids=list(range(alloc0 + 1, w.allocated() + 1)),
                    new_trees=list(range(ntrees0, len(w.trees))), coq=coq, plan=plan, nop=norm_op(op))
        run.obs.append([res, after])
        run.steps.append(step)
        kind = op[0] + (":" + H.ERR_NAMES.get(res[1], str(res[1])) if res[0] else "")
        run.stats[kind] = run.stats.get(kind, 0) + 1
        if runaway or unrenderable:
            poisoned = True
        if unrenderable:
            run.fails.append((si, "D71" if d71_region(w, norm_op(op) or op) else "copy", f"copy: after {op[0]} the trees cannot be observed - a node holds something that is not a data "
                                          f"object of the case ({unrenderable[:80]})"))
        elif judged and runaway:
            run.fails.append((si, "copy", f"copy: the {op[0]} allocated {len(step['new_ids'])} nodes before failing (runaway copy into the own branch)"))
        elif judged:
            s1 = Snap(w)
            msg, info = copy_oracle(w, step, s0, s1)
            if msg and d71_region(w, step.get("nop") or op) and ("was refused (EType)" in msg or "new node(s) below the target" in msg):
                # exactly the known deviation D71, nothing else
                run.fails.append((si, "D71", msg))
            elif msg:
                run.fails.append((si, "copy", msg))
            elif info:
                if info.get("d47"):
                    run.fails.append((si, "D47", info["d47"][0]))
                ncopies += 1
                npairs += len(info["pairs"])
                if info["same_tree"]:
                    links.extend(info["tops"])
            msg = independence_oracle(w, step, s0, s1, links if not info else [])
            if msg:
                run.fails.append((si, "independence", msg))
        before = after
    run.stats["_copies"] = ncopies
    run.stats["_pairs"] = npairs
    return run


def shrink7(hist):
    """smaller histories, also for the ops only this module knows: cut the tail, drop single ops that allocate nothing"""
    ops = hist["ops"]
    n = len(ops)
    for cut in (n // 2, n - 1):
        if 0 < cut < n:
            yield dict(univ=hist["univ"], ops=ops[:cut])
    special = any(o[0] in ("shortnode", "shorttree", "copyto_d", "nodecopy_d", "newsub") for o in ops)
    if not special:
        yield from mut.shrink_candidates(dict(univ=hist["univ"], ops=ops))
        return
    r = replay7(hist)
    for i in range(n - 1, -1, -1):
        st = r.steps[i]
        if ops[i][0] in ("new", "newsub") or st["new_ids"] or st.get("new_trees"):
            continue
        yield dict(univ=hist["univ"], ops=ops[:i] + ops[i + 1:])


def run_group7(group):
    nset = len(group["setup"])
    setup = replay7({"univ": group["univ"], "ops": group["setup"]}, check_from=len(group["setup"]))
    runs = [replay7({"univ": group["univ"], "ops": group["setup"] + [alt]}, check_from=nset) for alt in group["alts"]]
    obs = [setup.obs, [r.obs[-1] for r in runs]]
    return mut.coq_alts(setup, runs), obs, runs


# ---------------------------------------------------------------------------
# generators
# ---------------------------------------------------------------------------
# source labelings: label(pre-order index, depth, sibling index) -> (universe index, explicit data_id)
SRC_UNIV = ["s:a", "e:5", "e:5", "d:3", "s:x", "s:y", "s:z", "s:new", "i:7"]      # 1 and 2: equal but distinct objects (no identity-hashed object: a group replays its setup once per alternative)
_MIX = {0: (0, None), 1: (1, "X1"), 2: (2, 5), 3: (3, None)}
SRC_LABELINGS = {
    # clones in different parents, explicit str/int data_ids on equal-comparing distinct objects, a frozen dataclass
    "mixed": lambda i, d, s: _MIX[(d + s) % 4],
    # every node another object of one equality class, told apart only by explicit ids
    "equal": lambda i, d, s: (1 if i % 2 else 2, f"k{i}"),
}
TX, TY, TZ = 4, 5, 6          # universe indexes of the target tree's data


def _tops_and_last(nodes):
    """pre-order ids of the top-level nodes"""
    tops, k = [], 0
    for nd in nodes:
        tops.append(k + 1)
        k += B.nodes_size([nd])
    return tops


def reorder_history(nodes, n, typed, variant):
    """A history applied to the finished source so that its CURRENT order differs from its creation order
    (a copy must follow the current order).  Node ids: source 1..n, target n+1..n+3, nodes added here from n+4.
      A: a node inserted in front at the top level and one in front below node 1
      B: sort(reverse=True, deep=True) of the whole tree
      C: (plain) the last top-level node moved to the front (same parent), then node 1 moved below it - a parent
         created later than the node; one top-level node only: the last node moved to the top-level front;
         (typed: move_to is not implemented) = A followed by B"""
    kd = (lambda i: ("k1", "k2")[i % 2] if typed else None)
    a = [["add", 0, 0, 7, None, kd(0), True], ["add", 0, 1, 8, None, kd(1), True]]
    b = [["sort", 0, 0, None, True, True]]
    if variant == "A":
        return a
    if variant == "B":
        return b
    if typed:
        return a + b
    tops = _tops_and_last(nodes)
    if len(tops) >= 2:
        return [["move", 0, tops[-1], 0, 0, True], ["move", 0, 1, 0, tops[-1], None]]
    if n >= 2:
        return [["move", 0, n, 0, 0, True]]
    return a


def target_ops(n, typed):
    """tree 1 = the target  x[z], y ; typed: siblings of MIXED kinds (x: k1, y: k2; z: k2), so that a kind-relative
    index differs from the position in the child list"""
    kx, kz, ky = ("k1", "k2", "k2") if typed else (None, None, None)
    return [["add", 1, 0, TX, None, kx, None], ["add", 1, n + 1, TZ, None, kz, None], ["add", 1, 0, TY, None, ky, None]]


def source_setup(shape, labeling, typed, calc=None, reorder=None, nodes=None):
    """ops building tree 0 = the source (forest `shape`, or the explicit `nodes`), tree 1 = the target  x[z], y ;
    then (reorder) a history that re-orders the source; returns (ops, n)"""
    if nodes is None:
        lab = SRC_LABELINGS[labeling]
        nodes = B.shape_to_nodes(shape, lambda i, d, s: (lab(i, d, s)[0], ("k1", "k2")[i % 2] if typed else None, lab(i, d, s)[1]))
    n = B.nodes_size(nodes)
    ops = [["new", typed, calc], ["new", typed, None]] + mut.setup_ops(nodes, 0, typed)
    ops += target_ops(n, typed)
    # metadata on the first and the last source node
    if n:
        ops.append(["meta", 0, 1, ["set", "m", 1]])
        if n > 1:
            ops.append(["meta", 0, n, ["update", {"m": 2, "q": "v"}, False]])
    if reorder:
        ops += reorder_history(nodes, n, typed, reorder)
    return ops, n


def constructible(univ, ops):
    r = mut.replay({"univ": univ, "ops": ops}, oracles=())
    return not any(s["res"][0] for s in r.steps)


def copy_alternatives(n, typed, full=True):
    """every copy operation x every argument; source nodes 1..n in tree 0, target tree 1 = x(n+1)[z(n+2)], y(n+3)"""
    x, z, y = n + 1, n + 2, n + 3
    srcs = list(range(1, n + 1))
    alts = []
    befores_top = [None, True, False, 0, 1, -1, 5, -5, {"n": x}, {"n": y}]
    befores_few = [None, True, {"n": z}, -1]
    kinds = [None, "k2"] if typed else [None]
    # add(node) into the other tree
    for src in srcs:
        for deep in (None, True, False):
            for b in befores_top:
                alts.append(["addnode", 1, 0, 0, src, None, None, b, deep])
            for b in befores_few:
                alts.append(["addnode", 1, x, 0, src, None, None, b, deep])
            alts.append(["addnode", 1, z, 0, src, None, None, None, deep])
        for kd in kinds[1:]:
            alts.append(["addnode", 1, 0, 0, src, None, kd, None, True])
            alts.append(["addnode", 1, x, 0, src, None, kd, True, False])
    # explicit data_id= : the source's own id is accepted (shallow only), another one refused
    if srcs:
        alts.append(["addnode", 1, 0, 0, 1, "nope", None, None, None])
        alts.append(["addnode", 1, 0, 0, 1, "X1", None, None, True])
    # add(node) inside the source tree (clone creation; own branch, same parent: refused)
    for src in srcs:
        for p in [0] + srcs:
            for deep in (None, True):
                alts.append(["addnode", 0, p, 0, src, None, None, None if (p + src) % 2 else True, deep])
    # copy_to
    for src in [0] + srcs:
        for tgt in (0, x, z):
            for deep in (False, True):
                alts.append(["copyto", 0, src, 1, tgt, False, None, deep])
                if src:
                    for b in (befores_top if tgt == 0 else befores_few if tgt == x else [None]):
                        if full or b in (None, True) or isinstance(b, dict):
                            alts.append(["copyto", 0, src, 1, tgt, True, b, deep])
        for p in [0] + srcs:                      # same tree
            alts.append(["copyto", 0, src, 0, p, False, None, p % 2 == 0])
            if src:
                alts.append(["copyto", 0, src, 0, p, True, None, p % 2 == 1])
    # add(tree)
    for deep in (None, False):
        for b in befores_top:
            alts.append(["addtree", 1, 0, 0, b, deep])
        for b in befores_few:
            alts.append(["addtree", 1, x, 0, b, deep])
        alts.append(["addtree", 1, z, 0, None, deep])
        for p in srcs:                            # a tree added below one of its own nodes
            alts.append(["addtree", 0, p, 0, None, deep])
    alts.append(["addtree", 0, 0, 1, {"n": 1} if n else None, None])     # the target tree into the source
    # the four shortcuts with a node / a tree argument, on the nodes of the target tree and inside the source tree
    for how in SHORTCUTS:
        for tn in (x, z, y):
            for src in srcs:
                for deep in (None, True):
                    alts.append(["shortnode", 1, tn, how, 0, src, deep])
            for deep in (None, False):
                alts.append(["shorttree", 1, tn, how, 0, deep])
        for src in srcs:
            for tn in srcs:
                alts.append(["shortnode", 0, tn, how, 0, src, (src + tn) % 2 == 0])
    # Tree.copy / Node.copy
    alts.append(["treecopy", 0])
    alts.append(["treecopy", 1])
    for src in srcs:
        alts.append(["nodecopy", 0, src, True])
        alts.append(["nodecopy", 0, src, False])
    return alts


EXTRA_SHAPES = [((((), ()),), ()), (((((),),),),), (((), ((), ())), ((),)), ((((), (), ()),), ()), ((((),), ((),)),)]


def whole_copy_alternatives(n, typed):
    """the alternatives that copy whole branches / the whole tree (order and shape of the source matter): ~40 per source"""
    x, y = n + 1, n + 3
    out = []
    for a in copy_alternatives(n, typed, True):
        k = a[0]
        if k in ("treecopy", "nodecopy"):
            out.append(a)
        elif k == "addtree" and a[1] == 1 and a[2] in (0, x) and (a[5] is None or a[4] in (None, True)):
            out.append(a)
        elif k == "copyto" and a[3] == 1 and a[4] == 0 and a[6] is None and a[7]:
            out.append(a)
        elif k == "addnode" and a[1] == 1 and a[2] == 0 and a[8] is True and a[6] is None and (a[7] is None or a[7] == {"n": y}):
            out.append(a)
        elif k == "shorttree" and a[3] == "prepend_child" and a[2] in (x, y) and a[5] is None:
            out.append(a)
    return out


def gen_groups(nmax, *, typed=(False, True), labelings=("mixed", "equal"), shapes=None, full=True, nmin=1, reorders=(None,)):
    shp = list(shapes) if shapes is not None else [s for n in range(nmin, nmax + 1) for s in H.forests(n)]
    for shape in shp:
        for lname in labelings:
            for ty in typed:
                for ro in reorders:
                    setup, n = source_setup(shape, lname, ty, reorder=ro)
                    if not constructible(SRC_UNIV, setup):
                        continue
                    alts = copy_alternatives(n, ty, full) if ro is None else whole_copy_alternatives(n, ty)
                    yield dict(univ=SRC_UNIV, setup=setup, alts=alts, n=n,
                               label=f"{lname}/{'typed' if ty else 'plain'}" + (f"/reordered-{ro}" if ro else ""))


def default_arg_alternatives(n, typed):
    """copy calls with arguments OMITTED, into the other tree and - the legal shallow ones included - to every place of
    the source tree itself (below a copied child, below a descendant of one)"""
    x, z, y = n + 1, n + 2, n + 3
    srcs = list(range(1, n + 1))
    out = []
    for src in srcs:
        out.append(["nodecopy_d", 0, src])
        for p in [0] + srcs:                                   # same tree
            out.append(["copyto_d", 0, src, 0, p, False, "omit", None])     # children of src, shallow by default
            out.append(["copyto_d", 0, src, 0, p, None, "omit", None])      # node.copy_to(target)
        for tgt in (0, x, z):
            out.append(["copyto_d", 0, src, 1, tgt, None, "omit", None])
            out.append(["copyto_d", 0, src, 1, tgt, False, "omit", None])
            out.append(["copyto_d", 0, src, 1, tgt, None, "omit", True])
        out.append(["copyto_d", 0, src, 1, 0, None, {"n": y}, None])
        out.append(["copyto_d", 0, src, 1, 0, None, True, None])
    for tgt in (0, x, z):
        out.append(["copyto_d", 0, 0, 1, tgt, None, "omit", None])           # tree.copy_to(target)
    for p in srcs:
        out.append(["copyto_d", 0, 0, 0, p, None, "omit", None])
        out.append(["copyto_d", 0, 0, 0, p, None, "omit", False])
        out.append(["addnode", 0, p, 0, 1, None, None, None, None])            # add_child(node): deep omitted
        out.append(["addtree", 1, x, 0, None, None])
    return out


def gen_default_groups(nmax=3, typed=(False, True)):
    for n in range(2, nmax + 1):
        for shape in H.forests(n):
            for ty in typed:
                setup, n_ = source_setup(shape, "mixed", ty)
                if constructible(SRC_UNIV, setup):
                    yield dict(univ=SRC_UNIV, setup=setup, alts=default_arg_alternatives(n_, ty), n=n_,
                               label=f"defaults/{'typed' if ty else 'plain'}")


def gen_versioned_groups(nmax=3, typed=(False, True)):
    """The target holds ANOTHER object under the data_ids of the source: tree 2 = Tree.copy() of the source, then every node of
    the copy gets a new (equal-comparing, distinct) data object under its old data_id (set_data(new, data_id=same,
    with_clones=True)); then nodes / branches / the whole source tree are copied from tree 0 INTO tree 2.
    A copy must reference the data object of its SOURCE."""
    for n in range(1, nmax + 1):
        for shape in H.forests(n):
            for ty in typed:
                setup, n_ = source_setup(shape, "equal", ty)
                cp = list(range(n_ + 4, 2 * n_ + 4))                     # the nodes of the copy, pre-order
                setup = setup + [["treecopy", 0]]
                for i, c in enumerate(cp):
                    old = 1 if i % 2 else 2
                    setup.append(["set_data", 2, c, 2 if old == 1 else 1, f"k{i}", True])
                if not constructible(SRC_UNIV, setup):
                    continue
                alts = []
                srcs = list(range(1, n_ + 1))
                for src in srcs:
                    for p in cp:
                        alts.append(["addnode", 2, p, 0, src, None, None, None, None])
                        alts.append(["addnode", 2, p, 0, src, None, None, True, True])
                        alts.append(["copyto", 0, src, 2, p, True, None, True])
                        alts.append(["copyto", 0, src, 2, p, False, None, False])
                        alts.append(["copyto_d", 0, src, 2, p, None, "omit", None])
                for p in cp:
                    alts.append(["addtree", 2, p, 0, None, None])
                    alts.append(["addtree", 2, p, 0, True, False])
                    alts.append(["copyto_d", 0, 0, 2, p, None, "omit", None])
                yield dict(univ=SRC_UNIV, setup=setup, alts=alts, n=n_, label=f"versioned-target/{'typed' if ty else 'plain'}")


def class_alternatives(n, typed):
    """one call of every copy route between tree 0 (nodes 1..n) and tree 1 (x[z], y), in both directions"""
    x, z, y = n + 1, n + 2, n + 3
    a = [["copyto", 0, 0, 1, 0, False, None, True], ["copyto", 0, 0, 1, x, False, None, False],
         ["copyto_d", 0, 0, 1, 0, None, "omit", None], ["copyto_d", 0, 0, 1, z, None, "omit", None],
         ["addtree", 1, 0, 0, None, None], ["addtree", 1, 0, 0, {"n": y}, None], ["addtree", 1, x, 0, True, False],
         ["addnode", 1, 0, 0, 1, None, None, None, True], ["addnode", 1, x, 0, min(2, n), None, None, None, None],
         ["copyto", 0, 1, 1, 0, True, None, True], ["copyto", 0, 1, 1, y, False, None, True], ["copyto_d", 0, 1, 1, 0, None, "omit", None],
         ["treecopy", 0], ["treecopy", 1], ["nodecopy", 0, 1, True], ["nodecopy", 0, 1, False], ["nodecopy_d", 0, 1],
         ["shorttree", 1, x, "prepend_child", 0, None], ["shortnode", 1, y, "append_sibling", 0, 1, True],
         ["copyto", 1, 0, 0, 1, False, None, True], ["copyto_d", 1, 0, 0, n, None, "omit", None], ["addtree", 0, 1, 1, None, None]]
    return a


CLASS_VARIANTS = ("base", "sub", "named")


def gen_class_groups(shapes, typed=(False, True), include_d71=True):
    """copies between trees of DIFFERENT classes: source / target in {Tree | TypedTree, a trivial subclass, a subclass that
    overrides calc_data_id} - every copy route must treat a tree of a sub- or superclass as a tree"""
    def new_op(ty, v):
        return ["new", ty, None] if v == "base" else ["newsub", ty, v]
    for shape in shapes:
        for ty in typed:
            for sv in CLASS_VARIANTS:
                for tv in CLASS_VARIANTS:
                    if sv == tv == "base":
                        continue
                    setup, n = source_setup(shape, "mixed", ty)
                    setup = [new_op(ty, sv), new_op(ty, tv)] + setup[2:]
                    r = replay7({"univ": SRC_UNIV, "ops": setup})
                    if any(st["res"][0] for st in r.steps):
                        continue
                    alts = class_alternatives(n, ty)
                    lab = f"classes-{sv}-to-{tv}/{'typed' if ty else 'plain'}"
                    # add_child(<tree>) into a tree whose class the source is not an instance of: known finding D71, own cases
                    bad = lambda a, src_v, tgt_v: a[0] in ("addtree", "shorttree") and not (tgt_v == "base" or src_v == tgt_v)  # noqa: E731
                    reg = [a for a in alts if bad(a, sv, tv) and a[1] == 1] + [a for a in alts if bad(a, tv, sv) and a[1] == 0]
                    yield dict(univ=SRC_UNIV, setup=setup, alts=[a for a in alts if a not in reg], n=n, label=lab)
                    # (the runner wants the MODEL to reproduce a known finding inside its region; the class of a tree is not part of
                    # the model, so the D71 alternatives are generated only once the fix is in /repo: include_d71=True)
                    if reg and include_d71:
                        yield dict(univ=SRC_UNIV, setup=setup, alts=reg, n=n, label=lab + "/D71-region")


def _kinds(nodes, typed, c=None):
    c = c if c is not None else [0]
    out = []
    for lbl, _, did, kids in nodes:
        k = ("k1", "k2")[c[0] % 2] if typed else None
        c[0] += 1
        out.append([lbl, k, did, _kinds(kids, typed, c)])
    return out


# sources in which a node's clone sits INSIDE that node's own branch and the outer node has later children
# (universe indexes of SRC_UNIV; [data, kind, data_id, children])
NESTED_SOURCES = {
    # dir[ sub[ dir[inner] ], readme ], other[ dir[x] ]          (the nested clone at depth 3)
    "nested-d3": [[0, None, None, [[1, None, "X1", [[0, None, None, [[3, None, None, []]]]]], [7, None, None, []]]],
                  [8, None, None, [[0, None, None, [[2, None, 5, []]]]]]],
    # dir[ dir[inner], readme ]                                    (directly below itself)
    "nested-d2": [[0, None, None, [[0, None, None, [[3, None, None, []]]], [7, None, None, []]]]],
    # X[ a[ c[ X[e] ], b ], readme ]                               (depth 4, two outer nodes with later children)
    "nested-d4": [[1, None, "X1", [[0, None, None, [[3, None, None, [[1, None, "X1", [[2, None, 5, []]]]]], [8, None, None, []]]],
                                   [7, None, None, []]]]],
}


def gen_nested_groups(typed=(False, True), reorders=(None,)):
    for name, nodes in NESTED_SOURCES.items():
        for ty in typed:
            for ro in reorders:
                setup, n = source_setup(None, None, ty, nodes=_kinds(nodes, ty), reorder=ro)
                if not constructible(SRC_UNIV, setup):
                    continue
                yield dict(univ=SRC_UNIV, setup=setup, alts=whole_copy_alternatives(n, ty), n=n,
                           label=f"{name}/{'typed' if ty else 'plain'}" + (f"/reordered-{ro}" if ro else ""))


META_EDITS = [["set", "m", 7], ["set", "m", None], ["set", "j", "v"], ["clear", None], ["clear", "m"],
              ["update", {"z": 1, "m": 2}, False], ["update", {"z": 3}, True]]


class Gen7(mut.Gen):
    """source -> one copy -> random mutation history on source or copy (stateful: looks at the live trees)."""

    def do(self, op):
        self.ops.append(op)
        _old = sys.getrecursionlimit()
        sys.setrecursionlimit(mut.OP_RECURSION_LIMIT)
        try:
            thunk, _, _ = execute7(self.w, op)
            thunk()
        except Exception:
            pass
        finally:
            sys.setrecursionlimit(_old)

    def branch_ids(self, tops):
        """relative ids of the live nodes below (and including) `tops`; safe on a corrupted (cyclic) structure"""
        out, seen = [], set()
        for t in tops:
            nd = self.w.raw(t)
            if nd is None or nd._tree is None or not any(nd._tree is x for x in self.w.trees):
                continue
            stack = [nd]
            while stack and len(out) < 500:
                a = stack.pop()
                if id(a) in seen:
                    continue
                seen.add(id(a))
                out.append(self.w.rel(a))
                stack.extend(a._children or ())
        return out

    def reorder_op(self, ti):
        """one operation that changes the ORDER of tree ti without changing what it contains much:
        sort(reverse), an insert with before=, a move (plain trees)"""
        rng, w = self.rng, self.w
        ids = mut.live_ids(w, ti)
        typed = isinstance(w.trees[ti], TypedTree)
        kind = rng.choice(mut.KINDS) if typed else None
        k = rng.choice(["sort", "insert", "move", "move"] if not typed else ["sort", "insert", "insert"])
        if k == "sort" or not ids:
            return self.do(["sort", ti, rng.choice([0, 0] + ids), None, True, rng.random() < 0.6])
        if k == "insert":
            p = rng.choice([0] + ids)
            return self.do(["add", ti, p, rng.choice([7, 8]), rng.choice([None, "R1", "R2"]), kind,
                            rng.choice([True, 0, 1, -1] + [self.before_arg(ti, p)])])
        n = rng.choice(ids)
        tgt = rng.choice([0] + ids)
        if tgt:
            nn, tn = w.live_node(n, ti), w.live_node(tgt, ti)
            if tn is None or tn is nn or tn.is_descendant_of(nn):
                tgt = 0
        return self.do(["move", ti, n, ti, tgt, rng.choice([True, 0, None, 1, -1, self.before_arg(ti, tgt)])])

    def tail_op(self, side_tops, ti):
        rng, w = self.rng, self.w
        ids = [i for i in self.branch_ids(side_tops) if w.live_node(i, ti) is not None]
        typed = isinstance(w.trees[ti], TypedTree)
        kind = rng.choice(mut.KINDS + [None]) if typed else None
        nd = len(self.univ)
        if not ids:
            return self.do(["add", ti, 0, rng.randrange(nd), None, kind, None])
        n = rng.choice(ids)
        k = rng.choice(["meta", "meta", "meta", "set_data", "set_data", "rename", "sort", "sort", "remove", "remove", "remove_children",
                        "add", "add", "short", "move", "addnode", "from_dict", "filter", "del"])
        if k == "meta":
            return self.do(["meta", ti, n, rng.choice(META_EDITS)])
        if k == "set_data":
            return self.do(["set_data", ti, n, rng.choice([None] + list(range(nd))), rng.choice([None, None, "X2", 5, "Q"]),
                            rng.choice([None, False, False, True])])
        if k == "rename":
            return self.do(["rename", ti, n, rng.choice([i for i, s in enumerate(self.univ) if s.startswith("s:")])])
        if k == "sort":
            keyfn = None
            if rng.random() < 0.5:
                keyfn = {"tbl": {str(i): rng.choice(["a", "b", "b", "c"]) for i in mut.live_ids(w, ti)}}
            return self.do(["sort", ti, rng.choice([n, n, 0]), keyfn, rng.random() < 0.5, rng.random() < 0.5])
        if k == "remove":
            return self.do(["remove", ti, n, rng.random() < 0.4, rng.random() < 0.25])
        if k == "remove_children":
            return self.do(["remove_children", ti, n])
        if k == "add":
            return self.do(["add", ti, n, rng.randrange(nd), rng.choice(mut.DIDS), kind, self.before_arg(ti, n)])
        if k == "short":
            return self.do(["short", ti, n, rng.choice(["append_child", "prepend_child", "prepend_sibling", "append_sibling"]),
                            rng.randrange(nd), None, kind])
        if k == "move":
            tgt = rng.choice(ids + [0])
            if tgt:
                # a move into the own branch is refused by the repaired code and corrupts the unrepaired one (D01): not generated
                nn, tn = w.live_node(n, ti), w.live_node(tgt, ti)
                if tn is None or tn is nn or tn.is_descendant_of(nn):
                    return None
            return self.do(["move", ti, n, ti, tgt, self.before_arg(ti, tgt)])
        if k == "addnode":
            return self.do(["addnode", ti, rng.choice(ids + [0]), ti, n, None, kind, None, rng.choice([None, True, False])])
        if k == "from_dict":
            if w.live_node(n, ti)._children:
                return None
            return self.do(["from_dict", ti, n, [[rng.randrange(nd), None, []], [rng.randrange(nd), "F1", []]]])
        if k == "filter":
            verd = {str(i): rng.choice(["T", "T", "F", "skip", "skip_keep", "select"]) for i in mut.live_ids(w, ti)}
            return self.do(["filter", ti, n, verd])
        if k == "del":
            return self.do(["del", ti, {"nid": n}])


def gen_history(rng, setup, copy_op, n_tail, univ=None, reorder=0):
    """setup ops + the copy + a mutation history on either side; returns the history and the index of the copy."""
    g = Gen7(rng, univ=univ or SRC_UNIV)
    for op in setup:
        g.do(op)
    for _ in range(reorder):
        try:
            g.reorder_op(0)
        except Exception:
            pass
    src_tops = [g.w.rel(c) for c in (g.w.trees[0]._root._children or ())]
    a0, t0 = g.w.allocated(), len(g.w.trees)
    g.do(copy_op)
    new = list(range(a0 + 1, g.w.allocated() + 1))
    new_tops = [i for i in new if g.w.raw(i)._parent is None or g.w.rel(g.w.raw(i)._parent) not in new]
    cti = t0 if len(g.w.trees) > t0 else mut_target(copy_op)
    icopy = len(g.ops) - 1
    # a metadata edit on a copied node and on its source, always
    if new_tops:
        g.do(["meta", cti, new_tops[0], ["set", "m", 99]])
    if src_tops:
        g.do(["meta", 0, src_tops[0], ["set", "c", 5]])
    tries = 0
    while len(g.ops) < icopy + 1 + n_tail and tries < 10 * n_tail:
        tries += 1
        try:
            if new_tops and rng.random() < 0.5:
                g.tail_op(new_tops, cti)
            else:
                g.tail_op(src_tops, 0)
        except Exception:
            pass
    # the operation again, after the mutations: a copy must reflect the source as it is NOW
    again = [["treecopy", 0]]
    live_tops = [t for t in src_tops if g.w.live_node(t, 0) is not None]
    if live_tops:
        again.append(["nodecopy_d", 0, rng.choice(live_tops)])
    if cti != 0 and cti < len(g.w.trees) and live_tops:
        again.append(["copyto_d", 0, rng.choice(live_tops), cti, 0, None, "omit", rng.choice([None, True])])
    for op in again[: (2 if len(g.w.trees) < 4 else 1)] if rng.random() < 0.8 else []:
        g.do(op)
    return {"univ": g.univ, "ops": g.ops}, icopy


def mut_target(op):
    t = op_tree(op)
    return 0 if t is None else t


def random_copy_op(rng, n, typed, ntarget=3):
    """a random copy operation, source tree 0 (nodes 1..n), target tree 1 (nodes n+1..n+3)"""
    alts = copy_alternatives(n, typed, True)
    return rng.choice(alts)


def random_source(rng, nmin=4, nmax=12):
    """a larger random source: returns (setup ops, n, typed)"""
    for _ in range(50):
        n = rng.randint(nmin, nmax)
        shape = H.random_shape(rng, n, deep=rng.choice([0.3, 0.5, 0.7]))
        typed = rng.random() < 0.5
        lname = rng.choice(list(SRC_LABELINGS))
        calc = rng.choice([None, None, "name", "mod7"])
        setup, n = source_setup(shape, lname, typed, calc)
        if constructible(SRC_UNIV, setup):
            return setup, n, typed
    raise RuntimeError("no constructible source")


# ---------------------------------------------------------------------------
# witnesses of the defects of the unchanged code that belong to C07 (each fails replay7 there)
# ---------------------------------------------------------------------------
def _w(id_, ops, univ=("s:a", "s:b", "s:c", "s:x", "s:y"), note=""):
    return dict(id=id_, univ=list(univ), ops=ops, note=note)


CORPUS7 = [
    _w("D20", [["new", False, None], ["new", False, None], ["add", 0, 0, 0, "X1", None, None], ["addnode", 1, 0, 0, 1, None, None, None, None]],
       note="copy of a node with an explicit data_id: the top node of the copy gets hash(data)"),
    _w("D21", [["new", True, None], ["new", True, None], ["add", 0, 0, 0, None, "k1", None], ["add", 0, 1, 1, None, "k2", None],
               ["addnode", 1, 0, 0, 1, None, None, None, True]],
       note="deep typed copy: descendants lose their kind"),
    _w("D22", [["new", True, None], ["add", 0, 0, 0, None, "k1", None], ["treecopy", 0]],
       note="Tree.copy of a typed tree returns a plain Tree"),
    _w("D23", [["new", False, None], ["new", False, None], ["add", 0, 0, 0, None, None, None], ["add", 0, 0, 1, None, None, None],
               ["addtree", 1, 0, 0, True, None]],
       note="add(tree, before=True) reverses the SOURCE tree's top-level list"),
    _w("D06", [["new", False, None], ["add", 0, 0, 0, None, None, None], ["add", 0, 1, 1, None, None, None],
               ["copyto", 0, 1, 0, 2, True, None, True]],
       note="deep copy of a branch into itself"),
    _w("D70", [["new", False, None], ["new", False, None], ["add", 0, 0, 0, None, None, None], ["add", 0, 0, 1, None, None, None],
               ["add", 1, 0, 3, None, None, None], ["add", 1, 0, 4, None, None, None], ["addtree", 1, 0, 0, {"n": 4}, None]],
       note="add(tree, before=<node>) inserts the copies in reverse source order"),
    _w("D70b", [["new", False, None], ["new", False, None], ["add", 0, 0, 0, None, None, None], ["add", 0, 0, 1, None, None, None],
                ["add", 1, 0, 3, None, None, None], ["add", 1, 0, 4, None, None, None], ["addtree", 1, 0, 0, -1, None]],
       note="add(tree, before=-1) inserts the copies in reverse source order"),
]
