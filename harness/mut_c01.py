"""History generator for C01 (and reused by C02): `mut.Gen` plus a stream of steps aimed at the places where the
node graph can break - forced clone pairs, clones nested inside the branch of another clone, equal-comparing
but distinct data objects under different explicit ids next to each other, moves whose target lies inside /
next to / above the moved branch, removal with keep_children / with_clones of nodes that do have children /
clones, remove_children and clear of populated branches, re-keying of clone groups.
Every step is chosen by looking at the real current state; the history is a plain op list."""
from __future__ import annotations

import mut
from common import TypedTree


def explicit_did_of(t, n):
    """The explicit data_id to pass when re-adding n's data so that the new node is a clone of n
    (None when the tree's calc_data_id gives the same id anyway)."""
    try:
        if t.calc_data_id(n._data) == n._data_id:
            return None
    except Exception:
        pass
    return n._data_id if isinstance(n._data_id, (int, str)) else None


class Gen01(mut.Gen):
    special_share = 0.45

    def step(self):
        if self.rng.random() < self.special_share:
            k = self.rng.choice(["clone_pair", "clone_pair", "nested_clone", "nested_clone", "equal_distinct", "move_own",
                                 "move_near", "move_near", "remove_clones", "remove_keep", "remove_keep_clones", "remove_children",
                                 "rekey_group", "rekey_group", "split_group", "del_clone", "copy_branch"])
            try:
                if getattr(self, "sp_" + k)():
                    return
            except Exception:
                pass
        return super().step()

    # -- helpers ---------------------------------------------------------
    def _tree_nodes(self, ti):
        return mut.tree_nodes(self.w.trees[ti])

    def _kind(self, ti):
        return self.rng.choice(mut.KINDS) if isinstance(self.w.trees[ti], TypedTree) else None

    def _pick(self, ti, pred=lambda n: True):
        c = [n for n in self._tree_nodes(ti) if pred(n)]
        return self.rng.choice(c) if c else None

    def _subtree(self, n):
        out = []
        for c in (n._children or []):
            out.append(c)
            out += self._subtree(c)
        return out

    # -- special steps -----------------------------------------------------
    def sp_clone_pair(self):
        w, rng = self.w, self.rng
        ti = self.pick_tree()
        t = w.trees[ti]
        n = self._pick(ti)
        if n is None:
            return False
        parents = [t._root] + self._tree_nodes(ti)
        ok = [p for p in parents if p is not n._parent and not any(c._data_id == n._data_id for c in (p._children or []))]
        if not ok or rng.random() < 0.1:
            ok = parents                      # sometimes the colliding parent as well
        p = rng.choice(ok)
        self.do(["add", ti, w.rel(p) if p is not t._root else 0, w.U.index(n._data), explicit_did_of(t, n), self._kind(ti),
                 self.before_arg(ti, w.rel(p) if p is not t._root else 0)])
        return True

    def sp_nested_clone(self):
        """a clone of n somewhere below n (or below another clone of n)"""
        w, rng = self.w, self.rng
        ti = self.pick_tree()
        t = w.trees[ti]
        n = self._pick(ti, lambda x: bool(x._children))
        if n is None:
            return False
        below = [d for d in self._subtree(n) if d._parent is not n]
        if not below:
            below = self._subtree(n)
        p = rng.choice(below)
        self.do(["add", ti, w.rel(p), w.U.index(n._data), explicit_did_of(t, n), self._kind(ti), None])
        return True

    def sp_equal_distinct(self):
        w, rng = self.w, self.rng
        ti = self.pick_tree()
        eq = [i for i, s in enumerate(self.univ) if s.startswith("e:")]
        if len(eq) < 2:
            return False
        p = self.any_node(ti)
        a, b = rng.sample(eq, 2)
        self.do(["add", ti, p, a, "X1", self._kind(ti), None])
        self.do(["add", ti, p, b, "X2", self._kind(ti), rng.choice([None, True, 0])])
        return True

    def sp_move_own(self):
        """target = the node itself or one of its descendants (must be refused)"""
        w, rng = self.w, self.rng
        ti = self.pick_tree()
        n = self._pick(ti)
        if n is None:
            return False
        tgt = rng.choice([n] + self._subtree(n))
        self.do(["move", ti, w.rel(n), ti, w.rel(tgt), self.before_arg(ti, w.rel(tgt))])
        return True

    def sp_move_near(self):
        """target = parent (same-parent move), grandparent, a sibling, a sibling's child, the tree"""
        w, rng = self.w, self.rng
        ti = self.pick_tree()
        t = w.trees[ti]
        n = self._pick(ti)
        if n is None:
            return False
        p = n._parent
        cands = [p]
        if p is not t._root:
            cands.append(p._parent)
        sibs = [s for s in (p._children or []) if s is not n]
        cands += sibs
        for s in sibs:
            cands += (s._children or [])[:1]
        cands.append(t._root)
        tgt = rng.choice(cands)
        tr = 0 if tgt is t._root else w.rel(tgt)
        self.do(["move", ti, w.rel(n), ti, tr, self.before_arg(ti, tr)])
        return True

    def _cloned(self, ti):
        t = self.w.trees[ti]
        return self._pick(ti, lambda x: len(t._nodes_by_data_id.get(x._data_id, [])) > 1)

    def sp_remove_clones(self):
        ti = self.pick_tree()
        n = self._cloned(ti)
        if n is None:
            return False
        self.do(["remove", ti, self.w.rel(n), False, True])
        return True

    def sp_remove_keep(self):
        ti = self.pick_tree()
        n = self._pick(ti, lambda x: len(x._children or []) >= 3) or self._pick(ti, lambda x: bool(x._children))
        if n is None:
            return False
        self.do(["remove", ti, self.w.rel(n), True, False])
        return True

    def sp_remove_keep_clones(self):
        ti = self.pick_tree()
        n = self._cloned(ti)
        if n is None:
            return False
        self.do(["remove", ti, self.w.rel(n), True, True])
        return True

    def sp_remove_children(self):
        ti = self.pick_tree()
        n = self._pick(ti, lambda x: any(c._children for c in (x._children or [])))
        if n is None:
            return False
        self.do(["remove_children", ti, self.w.rel(n)])
        return True

    def sp_rekey_group(self):
        """set_data(with_clones=True) on a clone group: new data and/or an id that another group already has (merge)"""
        w, rng = self.w, self.rng
        ti = self.pick_tree()
        t = w.trees[ti]
        n = self._cloned(ti) or self._pick(ti)
        if n is None:
            return False
        others = [x for x in self._tree_nodes(ti) if x._data_id != n._data_id]
        if others and rng.random() < 0.6:
            o = rng.choice(others)
            d = rng.choice([w.U.index(o._data), None])
            did = explicit_did_of(t, o) if d is not None else (o._data_id if isinstance(o._data_id, (int, str)) else None)
            if d is None and did is None:
                d = w.U.index(o._data)
        else:
            d, did = rng.randrange(len(self.univ)), rng.choice([None, None, "X1", "X2", 5])
        self.do(["set_data", ti, w.rel(n), d, did, rng.choice([True, True, True, False, None])])
        return True

    def sp_split_group(self):
        """set_data(with_clones=False) on ONE member of a clone group (first, middle or last of the index list)"""
        w, rng = self.w, self.rng
        ti = self.pick_tree()
        t = w.trees[ti]
        groups = [g for g in t._nodes_by_data_id.values() if len(g) > 1]
        if not groups:
            return False
        g = rng.choice(groups)
        n = rng.choice([g[0], g[-1], rng.choice(g)])
        d = rng.choice([None, rng.randrange(len(self.univ))])
        did = rng.choice(["X1", "X2", 5, "Y"]) if d is None else rng.choice([None, "X1", "Y"])
        self.do(["set_data", ti, w.rel(n), d, did, False])
        return True

    def sp_del_clone(self):
        w = self.w
        ti = self.pick_tree()
        n = self._cloned(ti)
        if n is None:
            return False
        self.do(["del", ti, {"nid": w.rel(n)}])
        return True

    def sp_copy_branch(self):
        """deep copy of a branch next to / below itself, or into another tree"""
        w, rng = self.w, self.rng
        sti = self.pick_tree()
        n = self._pick(sti, lambda x: bool(x._children))
        if n is None:
            return False
        ti = self.pick_tree()
        tgt = self.any_node(ti)
        self.do(["copyto", sti, w.rel(n), ti, tgt, rng.random() < 0.6, None, True])
        return True


def gen_history(rng, n_ops=30, *, malformed=False, univ=None, ntrees=None, cls=Gen01, init=(3, 8)):
    """As mut.gen_random, with the special steps of `cls` mixed in."""
    g = cls(rng, univ=univ, malformed=malformed)
    ntrees = ntrees or rng.choice([1, 1, 2, 3])
    for i in range(ntrees):
        typed = rng.random() < 0.3
        calc = rng.choice([None, None, None, "name", "mod7"])
        if malformed and rng.random() < 0.3:
            calc = {"fn": rng.choice(["hash", "name"]), "raise": [rng.randrange(len(g.univ))]}
        g.do(["new", typed, calc])
    for _ in range(rng.randint(*init)):
        ti = g.pick_tree()
        typed = isinstance(g.w.trees[ti], TypedTree)
        g.do(["add", ti, g.any_node(ti), rng.randrange(len(g.univ)), rng.choice(mut.DIDS), rng.choice(mut.KINDS) if typed else None, None])
    tries = 0
    while len(g.ops) < n_ops + ntrees and tries < 10 * n_ops:
        tries += 1
        try:
            g.step()
        except Exception:
            pass
    return {"univ": g.univ, "ops": g.ops[:n_ops + ntrees + 1]}
