"""History generator for C01 (and reused by C02): `mut.Gen` plus a stream of steps aimed at the places where the
node graph can break - forced clone pairs, clones nested inside the branch of another clone, equal-comparing
but distinct data objects under different explicit ids next to each other, moves whose target lies inside /
next to / above the moved branch, removal with keep_children / with_clones of nodes that do have children /
clones, remove_children and clear of populated branches, re-keying of clone groups.
Every step is chosen by looking at the real current state; the history is a plain op list."""
from __future__ import annotations

import mut
from common import TypedTree


def explicit_did_of(t, n):
    """The explicit data_id to pass when re-adding n's data so that the new node is a clone of n
    (None when the tree's calc_data_id gives the same id anyway)."""
    try:
        if t.calc_data_id(n._data) == n._data_id:
            return None
    except Exception:
        pass
    return n._data_id if isinstance(n._data_id, (int, str)) else None


class Gen01(mut.Gen):
    special_share = 0.45

    def do(self, op):
        # a corrupted implementation (cycle in the node graph) must not hang the generator
        import mut_ex
        try:
            with mut_ex.time_limit(5.0):
                return super().do(op)
        except mut_ex.OpTimeout:
            return None

    def step(self):
        if self.rng.random() < self.special_share:
            k = self.rng.choice(["clone_pair", "clone_pair", "nested_clone", "nested_clone", "equal_distinct", "move_own",
                                 "move_near", "move_near", "remove_clones", "remove_keep", "remove_keep_clones", "remove_children",
                                 "rekey_group", "rekey_group", "split_group", "del_clone", "copy_branch", "twins", "twins", "twin_route",
                                 "twin_route", "twin_route", "move_cross", "move_cross", "deepen_then_own", "deepen_then_own",
                                 "deepen_then_own", "promote_then_own"])
            try:
                if getattr(self, "sp_" + k)():
                    return
            except Exception:
                pass
        return super().step()

    # -- helpers ---------------------------------------------------------
    def _tree_nodes(self, ti):
        return mut.tree_nodes(self.w.trees[ti])

    def _kind(self, ti):
        return self.rng.choice(mut.KINDS) if isinstance(self.w.trees[ti], TypedTree) else None

    def _pick(self, ti, pred=lambda n: True):
        c = [n for n in self._tree_nodes(ti) if pred(n)]
        return self.rng.choice(c) if c else None

    def _subtree(self, n):
        out = []
        for c in (n._children or []):
            out.append(c)
            out += self._subtree(c)
        return out

    # -- special steps -----------------------------------------------------
    def sp_clone_pair(self):
        w, rng = self.w, self.rng
        ti = self.pick_tree()
        t = w.trees[ti]
        n = self._pick(ti)
        if n is None:
            return False
        parents = [t._root] + self._tree_nodes(ti)
        ok = [p for p in parents if p is not n._parent and not any(c._data_id == n._data_id for c in (p._children or []))]
        if not ok or rng.random() < 0.1:
            ok = parents                      # sometimes the colliding parent as well
        p = rng.choice(ok)
        self.do(["add", ti, w.rel(p) if p is not t._root else 0, w.U.index(n._data), explicit_did_of(t, n), self._kind(ti),
                 self.before_arg(ti, w.rel(p) if p is not t._root else 0)])
        return True

    def sp_nested_clone(self):
        """a clone of n somewhere below n (or below another clone of n)"""
        w, rng = self.w, self.rng
        ti = self.pick_tree()
        t = w.trees[ti]
        n = self._pick(ti, lambda x: bool(x._children))
        if n is None:
            return False
        below = [d for d in self._subtree(n) if d._parent is not n]
        if not below:
            below = self._subtree(n)
        p = rng.choice(below)
        self.do(["add", ti, w.rel(p), w.U.index(n._data), explicit_did_of(t, n), self._kind(ti), None])
        return True

    def sp_equal_distinct(self):
        w, rng = self.w, self.rng
        ti = self.pick_tree()
        eq = [i for i, s in enumerate(self.univ) if s.startswith("e:")]
        if len(eq) < 2:
            return False
        p = self.any_node(ti)
        a, b = rng.sample(eq, 2)
        self.do(["add", ti, p, a, "X1", self._kind(ti), None])
        self.do(["add", ti, p, b, "X2", self._kind(ti), rng.choice([None, True, 0])])
        return True

    def _twin_sets(self, ti):
        """per parent: groups of >= 2 children whose data compare equal (distinct nodes, necessarily distinct ids)"""
        t = self.w.trees[ti]
        out = []
        for p in [t._root] + self._tree_nodes(ti):
            ch = list(p._children or [])
            for i, a in enumerate(ch):
                grp = [a] + [b for b in ch[i + 1:] if b._data == a._data]
                if len(grp) > 1 and not any(a is m for g in out for m in g[1]):
                    out.append((p, grp))
        return out

    def sp_twins(self):
        """make twins: an equal-comparing object under another explicit id next to an existing node, with a child"""
        w, rng = self.w, self.rng
        ti = self.pick_tree()
        t = w.trees[ti]
        eq = [i for i, s in enumerate(self.univ) if s.startswith("e:")]
        n = self._pick(ti, lambda x: w.U.index(x._data) in eq)
        if n is None:
            return self.sp_equal_distinct()
        same = [i for i in eq if self.univ[i] == self.univ[w.U.index(n._data)]]
        p = n._parent
        pr = 0 if p is t._root else w.rel(p)
        self.do(["add", ti, pr, rng.choice(same), f"tw{len(self.ops)}", self._kind(ti), rng.choice([None, True, 0, {"n": w.rel(n)}])])
        sets = self._twin_sets(ti)
        if sets:
            _, grp = rng.choice(sets)
            self.do(["add", ti, w.rel(rng.choice(grp)), rng.randrange(len(self.univ)), None, self._kind(ti), None])
        return True

    def sp_twin_route(self):
        """a removal route that treats equal-comparing siblings differently"""
        w, rng = self.w, self.rng
        ti = self.pick_tree()
        t = w.trees[ti]
        sets = self._twin_sets(ti)
        if not sets:
            return self.sp_twins()
        p, grp = rng.choice(sets)
        pr = 0 if p is t._root else w.rel(p)
        victim = rng.choice(grp[1:] + grp[-1:])          # mostly NOT the first of the twins
        route = rng.choice(["filter", "filter", "filter", "remove", "remove_keep", "del", "move", "remove_children", "sort"])
        if route == "filter":
            verd = {str(w.rel(g)): "T" for g in grp}
            verd[str(w.rel(victim))] = rng.choice(["F", "skip", "stop", "skip!", "F"])
            if rng.random() < 0.3:
                for d in self._subtree(victim):
                    verd[str(w.rel(d))] = "F"
            self.do(["filter", ti, rng.choice([0, pr]), verd])
        elif route == "remove":
            self.do(["remove", ti, w.rel(victim), False, rng.random() < 0.2])
        elif route == "remove_keep":
            self.do(["remove", ti, w.rel(victim), True, False])
        elif route == "del":
            self.do(["del", ti, {"nid": w.rel(victim)}])
        elif route == "move":
            tgt = self.any_node(ti)
            self.do(["move", ti, w.rel(victim), ti, tgt, self.before_arg(ti, tgt)])
        elif route == "remove_children":
            self.do(["remove_children", ti, w.rel(victim)])
        else:
            tbl = {str(w.rel(g)): rng.choice("abc") for g in grp}
            self.do(["sort", ti, pr, {"tbl": tbl}, rng.random() < 0.5, rng.random() < 0.5])
        return True

    def sp_move_cross(self):
        """move_to a NODE (mostly) or the Tree object of ANOTHER tree: must be refused, both trees untouched"""
        w, rng = self.w, self.rng
        if len(w.trees) < 2:
            if len(w.trees) >= 3:
                return False
            self.do(["new", isinstance(w.trees[0], TypedTree), None])
            self.do(["add", len(w.trees) - 1, 0, rng.randrange(len(self.univ)), None, self._kind(len(w.trees) - 1), None])
        ti = self.pick_tree()
        n = self._pick(ti)
        if n is None:
            return False
        tti = rng.choice([x for x in range(len(w.trees)) if x != ti])
        ids = mut.live_ids(w, tti)
        tgt = rng.choice(ids) if ids and rng.random() < 0.85 else 0
        self.do(["move", ti, w.rel(n), tti, tgt, self.before_arg(tti, tgt)])
        return True

    def _deepen(self, ti, a):
        """move a (with its branch) one or more levels deeper: below a node outside its branch; True if a move was made"""
        w, rng = self.w, self.rng
        t = w.trees[ti]
        if isinstance(t, TypedTree):
            return False
        branch = [a] + self._subtree(a)
        depth = lambda x: 0 if x is t._root else 1 + depth(x._parent)  # noqa: E731
        outside = [x for x in self._tree_nodes(ti) if not any(x is b for b in branch) and x is not a._parent
                   and depth(x) >= depth(a) - 1 + 1 and a._data_id not in [c._data_id for c in (x._children or [])]]
        if not outside:
            return False
        s = rng.choice(outside)
        self.do(["move", ti, w.rel(a), ti, w.rel(s), rng.choice([None, None, True, 0])])
        return True

    def sp_deepen_then_own(self):
        """an ancestor is moved deeper (once or twice, its descendants ride along), then it is moved into its OWN branch
        (child, grandchild, deepest descendant): has to be refused however the depths were remembered"""
        w, rng = self.w, self.rng
        ti = self.pick_tree()
        a = self._pick(ti, lambda x: bool(x._children))
        if a is None:
            return False
        made = self._deepen(ti, a)
        if made and rng.random() < 0.4:
            self._deepen(ti, a)
        if rng.random() < 0.3:                      # a descendant moves first as well (its own entry is fresh, the others are not)
            sub = self._subtree(a)
            if len(sub) > 1:
                x, y = rng.sample(sub, 2)
                self.do(["move", ti, w.rel(x), ti, w.rel(y), None])
        sub = self._subtree(a)
        if not sub:
            return made
        for tgt in rng.sample(sub, min(len(sub), 2)):
            self.do(["move", ti, w.rel(a), ti, w.rel(tgt), self.before_arg(ti, w.rel(tgt))])
        return True

    def sp_promote_then_own(self):
        """remove(keep_children=True) promotes a whole level; afterwards a promoted node is moved below its own descendants,
        and a node that stayed is moved into the promoted branch and back"""
        w, rng = self.w, self.rng
        ti = self.pick_tree()
        t = w.trees[ti]
        if isinstance(t, TypedTree):
            return False
        n = self._pick(ti, lambda x: any(c._children for c in (x._children or [])))
        if n is None:
            return False
        kids = [c for c in n._children if c._children]
        self.do(["remove", ti, w.rel(n), True, False])
        c = rng.choice(kids)
        if c._tree is None:
            return True
        sub = self._subtree(c)
        if sub:
            self.do(["move", ti, w.rel(c), ti, w.rel(rng.choice(sub)), None])
        return True

    def sp_move_own(self):
        """target = the node itself or one of its descendants (must be refused)"""
        w, rng = self.w, self.rng
        ti = self.pick_tree()
        n = self._pick(ti)
        if n is None:
            return False
        tgt = rng.choice([n] + self._subtree(n))
        self.do(["move", ti, w.rel(n), ti, w.rel(tgt), self.before_arg(ti, w.rel(tgt))])
        return True

    def sp_move_near(self):
        """target = parent (same-parent move), grandparent, a sibling, a sibling's child, the tree"""
        w, rng = self.w, self.rng
        ti = self.pick_tree()
        t = w.trees[ti]
        n = self._pick(ti)
        if n is None:
            return False
        p = n._parent
        cands = [p]
        if p is not t._root:
            cands.append(p._parent)
        sibs = [s for s in (p._children or []) if s is not n]
        cands += sibs
        for s in sibs:
            cands += (s._children or [])[:1]
        cands.append(t._root)
        tgt = rng.choice(cands)
        tr = 0 if tgt is t._root else w.rel(tgt)
        self.do(["move", ti, w.rel(n), ti, tr, self.before_arg(ti, tr)])
        return True

    def _cloned(self, ti):
        t = self.w.trees[ti]
        return self._pick(ti, lambda x: len(t._nodes_by_data_id.get(x._data_id, [])) > 1)

    def sp_remove_clones(self):
        ti = self.pick_tree()
        n = self._cloned(ti)
        if n is None:
            return False
        self.do(["remove", ti, self.w.rel(n), False, True])
        return True

    def sp_remove_keep(self):
        ti = self.pick_tree()
        n = self._pick(ti, lambda x: len(x._children or []) >= 3) or self._pick(ti, lambda x: bool(x._children))
        if n is None:
            return False
        self.do(["remove", ti, self.w.rel(n), True, False])
        return True

    def sp_remove_keep_clones(self):
        ti = self.pick_tree()
        n = self._cloned(ti)
        if n is None:
            return False
        self.do(["remove", ti, self.w.rel(n), True, True])
        return True

    def sp_remove_children(self):
        ti = self.pick_tree()
        n = self._pick(ti, lambda x: any(c._children for c in (x._children or [])))
        if n is None:
            return False
        self.do(["remove_children", ti, self.w.rel(n)])
        return True

    def sp_rekey_group(self):
        """set_data(with_clones=True) on a clone group: new data and/or an id that another group already has (merge)"""
        w, rng = self.w, self.rng
        ti = self.pick_tree()
        t = w.trees[ti]
        n = self._cloned(ti) or self._pick(ti)
        if n is None:
            return False
        others = [x for x in self._tree_nodes(ti) if x._data_id != n._data_id]
        if others and rng.random() < 0.6:
            o = rng.choice(others)
            d = rng.choice([w.U.index(o._data), None])
            did = explicit_did_of(t, o) if d is not None else (o._data_id if isinstance(o._data_id, (int, str)) else None)
            if d is None and did is None:
                d = w.U.index(o._data)
        else:
            d, did = rng.randrange(len(self.univ)), rng.choice([None, None, "X1", "X2", 5])
        self.do(["set_data", ti, w.rel(n), d, did, rng.choice([True, True, True, False, None])])
        return True

    def sp_split_group(self):
        """set_data(with_clones=False) on ONE member of a clone group (first, middle or last of the index list)"""
        w, rng = self.w, self.rng
        ti = self.pick_tree()
        t = w.trees[ti]
        groups = [g for g in t._nodes_by_data_id.values() if len(g) > 1]
        if not groups:
            return False
        g = rng.choice(groups)
        n = rng.choice([g[0], g[-1], rng.choice(g)])
        d = rng.choice([None, rng.randrange(len(self.univ))])
        did = rng.choice(["X1", "X2", 5, "Y"]) if d is None else rng.choice([None, "X1", "Y"])
        self.do(["set_data", ti, w.rel(n), d, did, False])
        return True

    def sp_del_clone(self):
        w = self.w
        ti = self.pick_tree()
        n = self._cloned(ti)
        if n is None:
            return False
        self.do(["del", ti, {"nid": w.rel(n)}])
        return True

    def sp_copy_branch(self):
        """deep copy of a branch next to / below itself, or into another tree"""
        w, rng = self.w, self.rng
        sti = self.pick_tree()
        n = self._pick(sti, lambda x: bool(x._children))
        if n is None:
            return False
        ti = self.pick_tree()
        tgt = self.any_node(ti)
        self.do(["copyto", sti, w.rel(n), ti, tgt, rng.random() < 0.6, None, True])
        return True


def gen_history(rng, n_ops=30, *, malformed=False, univ=None, ntrees=None, cls=Gen01, init=(3, 8)):
    """As mut.gen_random, with the special steps of `cls` mixed in."""
    g = cls(rng, univ=univ, malformed=malformed)
    ntrees = ntrees or rng.choice([1, 1, 2, 3])
    for i in range(ntrees):
        typed = rng.random() < 0.3
        calc = rng.choice([None, None, None, "name", "mod7"])
        if malformed and rng.random() < 0.3:
            calc = {"fn": rng.choice(["hash", "name"]), "raise": [rng.randrange(len(g.univ))]}
        g.do(["new", typed, calc])
    for _ in range(rng.randint(*init)):
        ti = g.pick_tree()
        typed = isinstance(g.w.trees[ti], TypedTree)
        g.do(["add", ti, g.any_node(ti), rng.randrange(len(g.univ)), rng.choice(mut.DIDS), rng.choice(mut.KINDS) if typed else None, None])
    tries = 0
    while len(g.ops) < n_ops + ntrees and tries < 10 * n_ops:
        tries += 1
        try:
            g.step()
        except Exception:
            pass
    return {"univ": g.univ, "ops": g.ops[:n_ops + ntrees + 1]}


# ---------------------------------------------------------------------------
# "twins": siblings whose data objects compare equal (== and hash) but are distinct objects under distinct
# explicit data_ids, each with its own subtree.  Every removal route is run with arguments that treat the
# twins DIFFERENTLY (an equality search in a child list then hits the wrong twin).
# ---------------------------------------------------------------------------
TWIN_UNIV = ["e:1", "e:1", "e:1", "s:x", "s:y", "s:p", "s:q", "s:c", "s:new", "e:9"]


def twin_forests():
    # NODE = [label, kind, data_id, children]
    a = [0, None, "k1", [[3, None, None, []]]]
    b = [1, None, "k2", [[4, None, None, [[7, None, None, []]]]]]
    c = [2, None, "k3", []]
    yield "twins/top", [a, b, c]
    yield "twins/below", [[5, None, None, [a, b, [7, None, "c1", []]]], [6, None, None, []]]


def _twin_ids(nodes):
    """relative ids (pre-order) of the nodes labelled 0..2 and of all nodes, parent of the twins"""
    ids, twins, parent = [], [], [0]

    def go(p, lst):
        for lbl, kind, did, ch in lst:
            ids.append(len(ids) + 1)
            me = ids[-1]
            if lbl in (0, 1, 2):
                twins.append(me)
                parent[0] = p
            go(me, ch)

    go(0, nodes)
    return ids, twins, parent[0]


def gen_twins(quick=True):
    import itertools
    for label, nodes in twin_forests():
        setup = [["new", False, None]] + mut.setup_ops(nodes, 0, False)
        ids, twins, par = _twin_ids(nodes)
        alts = []
        vset = ["T", "F", "skip", "stop"] if quick else ["T", "F", "N", "skip", "skip_keep", "select", "stop"]
        for combo in itertools.product(vset, repeat=len(twins)):
            if len(set(combo)) == 1:
                continue                                  # the twins are treated alike
            verd = {str(t): v for t, v in zip(twins, combo)}
            for at in {0, par}:
                alts.append(["filter", 0, at, verd])
        # one twin rejected through its children only (F with a kept descendant), the other plainly
        for t in twins:
            alts.append(["filter", 0, 0, {str(x): ("F" if x == t else "T") for x in ids}])
            alts.append(["filter", 0, 0, {str(x): ("T" if x == t else "F") for x in ids}])
        alts += mut.single_ops(nodes, TWIN_UNIV, False, ("remove", "move", "del", "remove_children", "sort", "clear") if not quick
                               else ("remove", "del", "remove_children", "sort"))
        if quick:
            for t in twins:
                for p in [0] + [x for x in ids if x != t]:
                    for b in (None, True, {"n": twins[0]} if p == par and twins[0] != t else 1):
                        alts.append(["move", 0, t, 0, p, b])
        # sort keys that reorder the twins / tie them
        for rev in (False, True):
            alts.append(["sort", 0, par, {"tbl": {str(t): "cba"[i % 3] for i, t in enumerate(twins)}}, rev, False])
            alts.append(["sort", 0, par, {"tbl": {str(t): "a" for t in twins}}, rev, True])
        seen, out = set(), []
        for o in alts:
            k = repr(o)
            if k not in seen:
                seen.add(k)
                out.append(o)
        yield dict(univ=TWIN_UNIV, setup=setup, alts=out, label=label, n=len(ids))


# ---------------------------------------------------------------------------
# cross-tree moves: move_to with a NODE (or the Tree object) of ANOTHER tree as target - never offered, must be
# refused and leave both trees as they are (a branch linked into a foreign tree stays owned by / counted in the old one)
# ---------------------------------------------------------------------------
def gen_cross_move(typed=(False,), quick=False):
    for ty in typed:
        univ = ["s:a", "s:b", "s:c", "s:x", "s:y", "s:z", "s:new"]
        k = "k1" if ty else None
        setup = [["new", ty, None], ["new", ty, None],
                 ["add", 0, 0, 0, None, k, None], ["add", 0, 1, 1, None, k, None], ["add", 0, 0, 2, None, k, None],     # tree 0: 1(2), 3
                 ["add", 1, 0, 3, None, k, None], ["add", 1, 4, 4, None, k, None], ["add", 1, 0, 5, None, k, None],     # tree 1: 4(5), 6
                 ["add", 1, 0, 0, None, k, None]]                                                                        # tree 1: 7 = clone id of node 1
        nodes = {0: [1, 2, 3], 1: [4, 5, 6, 7]}
        kids = {(0, 0): [1, 3], (0, 1): [2], (0, 2): [], (0, 3): [], (1, 0): [4, 6, 7], (1, 4): [5], (1, 5): [], (1, 6): [], (1, 7): []}
        alts = []
        for ti in (0, 1):
            tti = 1 - ti
            for n in nodes[ti]:
                for tgt in [0] + nodes[tti]:
                    ch = kids[(tti, tgt)]
                    for b in ([None, True] if quick else [None, True, False, 0, 1, -1]) + [{"n": c} for c in ch[:1]]:
                        alts.append(["move", ti, n, tti, tgt, b])
        yield dict(univ=univ, setup=setup, alts=alts, label="cross-move" + ("/typed" if ty else ""), n=7)


# ---------------------------------------------------------------------------
# move chains: on every forest with 3 (thorough 4) nodes, every legal first move that puts a node with children
# deeper, then EVERY move (own-branch targets included) as alternatives.  Queries run between the steps
# (mut_ex.sprinkle_queries), so anything remembered about depths / ancestry before the first move is in place.
# ---------------------------------------------------------------------------
def gen_move_chains(nmax=3):
    import build as B
    import common as H
    for n in range(3, nmax + 1):
        for shape in H.forests(n):
            univ = [f"s:n{i}" for i in range(n)] + ["s:new"]
            nodes = B.shape_to_nodes(shape, lambda i, d, s: (i, None, None))
            base = [["new", False, None]] + mut.setup_ops(nodes, 0, False)
            # structure by relative ids
            kids = {0: []}
            order = []

            def go(p, lst):
                for lbl, kind, did, ch in lst:
                    me = len(order) + 1
                    order.append(me)
                    kids[p].append(me)
                    kids[me] = []
                    go(me, ch)

            go(0, nodes)

            def branch(x):
                out = [x]
                for c in kids[x]:
                    out += branch(c)
                return out

            for a in order:
                if not kids[a]:
                    continue
                for s_ in order:
                    if s_ in branch(a) or a in kids[s_]:
                        continue
                    setup = base + [["move", 0, a, 0, s_, None]]
                    alts = []
                    for x in order:
                        for tgt in [0] + order:
                            alts.append(["move", 0, x, 0, tgt, None])
                            if tgt in branch(x) and tgt != x:
                                alts.append(["move", 0, x, 0, tgt, True])
                    yield dict(univ=univ, setup=setup, alts=alts, label="move-chain", n=n)
