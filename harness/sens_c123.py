"""Sensitivity mutations for C01 / C02 / C03: each is a small, realistic change of the (repaired) library
that the checks of the matching property must report as a VIOLATION.

usage: NUTREE_REPO=<repaired repo worktree> /venv/bin/python harness/sens_c123.py [--suite] [--tier quick] [Mxx ...]

For every selected mutation a scratch copy of the repo worktree is made below <verif worktree>/.work/repo-mut/,
the textual change is applied there (the `old` text has to occur exactly once), optionally the pinned suite is run
in the copy, then `bin/check <property>` runs with NUTREE_REPO pointing at the copy.  Evidence written by these
runs is restored afterwards.  Results are appended to .work/sens_c123.log and printed as a table.
"""
from __future__ import annotations

import os
import re
import shutil
import subprocess
import sys
import time
from pathlib import Path

VERIF = Path(__file__).resolve().parent.parent
SRC = Path(os.environ.get("NUTREE_REPO", "/repo"))
COPY = VERIF / ".work" / "repo-mut"

MUTATIONS = [
    # ---- C01 ----
    dict(id="M01", prop="C01", file="nutree/node.py", what="remove_children() unregisters the children but not the grandchildren",
         old="        for n in self._iter_post():\n            _unregister(n)\n        self._children = None",
         new="        for n in self.children:\n            _unregister(n)\n        self._children = None"),
    dict(id="M02", prop="C01", file="nutree/node.py",
         what="move_to() leaves the node in the old parent's list when the new parent holds an equal-comparing child",
         old="        del self._parent._children[Node.get_index(self)]  # type: ignore\n        if not self._parent._children:  # store None instead of `[]`\n            self._parent._children = None\n        self._parent = new_parent",
         new="        if self not in new_parent.children:\n            del self._parent._children[Node.get_index(self)]  # type: ignore\n        if not self._parent._children:  # store None instead of `[]`\n            self._parent._children = None\n        self._parent = new_parent"),
    dict(id="M03", prop="C01", file="nutree/node.py", what="remove(keep_children=True) does not re-parent the last child",
         old="            for c in children:\n                c._parent = self._parent\n            pc[idx : idx + 1] = children",
         new="            for c in children[: max(1, len(children) - 1)]:\n                c._parent = self._parent\n            pc[idx : idx + 1] = children"),
    dict(id="M04", prop="C01", file="nutree/node.py", what="remove(with_clones=True) skips a clone that is the last child of its parent",
         old="                if c._tree is None:\n                    continue  # already removed as descendant of another clone",
         new="                if c._tree is None or (c._parent._parent is not None and c._parent._children[-1] is c and len(c._parent._children) > 2):\n                    continue  # already removed as descendant of another clone"),
    dict(id="M05", prop="C01", file="nutree/tree.py", what="_unregister() keeps the owner/parent pointers of a removed leaf",
         old="        node._tree = None  # type: ignore\n        node._parent = None  # type: ignore\n        if clear:",
         new="        if node._children:\n            node._tree = None  # type: ignore\n            node._parent = None  # type: ignore\n        if clear:"),
    dict(id="M17", prop="C01", file="nutree/node.py", what="remove_children() does not unregister nodes three or more levels below",
         old="        for n in self._iter_post():\n            _unregister(n)\n        self._children = None",
         new="        for n in self._iter_post():\n            if n._parent is self or n._parent._parent is self:\n                _unregister(n)\n        self._children = None"),
    dict(id="M18", prop="C01", file="nutree/node.py", what="remove(keep_children=True) does not re-parent the last of three or more children",
         old="            for c in children:\n                c._parent = self._parent\n            pc[idx : idx + 1] = children",
         new="            for c in children[: len(children) - 1 if len(children) > 2 else len(children)]:\n                c._parent = self._parent\n            pc[idx : idx + 1] = children"),
    dict(id="M19", prop="C01", file="nutree/node.py", what="remove() deletes from the parent's list by equality again (D02 regression)",
         old="            self.remove_children()\n            del pc[idx]  # type: ignore",
         new="            self.remove_children()\n            pc.remove(self)  # type: ignore"),
    dict(id="M20", prop="C01", file="nutree/node.py", what="remove(with_clones=True) removes a clone again that already went as a descendant of another clone (D03 regression)",
         old="                if c._tree is None:\n                    continue  # already removed as descendant of another clone",
         new="                if False:\n                    continue  # already removed as descendant of another clone"),
    # ---- C02 ----
    dict(id="M06", prop="C02", file="nutree/node.py",
         what="set_data(with_clones=False) leaves the node in its old clone group when it is the LAST member of the group",
         old="                    cur_nodes[:] = [n for n in cur_nodes if n is not self]",
         new="                    cur_nodes[:] = [n for n in cur_nodes[:-1] if n is not self] + cur_nodes[-1:]"),
    dict(id="M07", prop="C02", file="nutree/tree.py", what="_unregister() does not delete a clone group that became empty",
         old="        if not clones:\n            del self._nodes_by_data_id[node._data_id]",
         new="        if not clones and len(self._node_by_id) == 0:\n            del self._nodes_by_data_id[node._data_id]"),
    dict(id="M08", prop="C02", file="nutree/node.py",
         what="set_data(with_clones=True) onto an existing group replaces that group instead of extending it",
         old="                    try:  # are we adding to existing clones now?\n                        node_map[new_data_id].extend(prev_clones)\n                    except KeyError:  # still a singleton, just a new data_id\n                        node_map[new_data_id] = prev_clones",
         new="                    node_map[new_data_id] = prev_clones"),
    dict(id="M09", prop="C02", file="nutree/node.py", what="get_clones() excludes by equality instead of identity",
         old="        return [n for n in clones if n is not self]",
         new="        return [n for n in clones if n is not self and (n._data is self._data or n != self)]"),
    dict(id="M10", prop="C02", file="nutree/tree.py", what="tree[key] treats a falsy int/str key as data instead of as data_id",
         old="        if isinstance(data, (int, str)) and data in self._nodes_by_data_id:",
         new="        if data and isinstance(data, (int, str)) and data in self._nodes_by_data_id:"),
    # ---- C03 ----
    dict(id="M11", prop="C03", file="nutree/node.py", what="move_to() skips the uniqueness check when the target is the tree root",
         old="        if new_parent is not self._parent:\n            for n in new_parent.children:\n                if n._data_id == self._data_id:",
         new="        if new_parent is not self._parent and new_parent._parent is not None:\n            for n in new_parent.children:\n                if n._data_id == self._data_id:"),
    dict(id="M12", prop="C03", file="nutree/node.py", what="set_data()/rename() compare the new id with the first sibling only",
         old="                for sibling in n._parent._children:  # type: ignore\n                    if sibling._data_id == new_data_id:",
         new="                for sibling in n._parent._children[:1]:  # type: ignore\n                    if sibling._data_id == new_data_id:"),
    dict(id="M13", prop="C03", file="nutree/node.py", what="_check_copies() (add(tree), copy_to children) tests only the first source node",
         old="        for n in source_nodes:\n            if n._data_id in child_ids:",
         new="        for n in source_nodes[:1]:\n            if n._data_id in child_ids:"),
    dict(id="M14", prop="C03", file="nutree/node.py", what="remove(keep_children=True) does not check top-level nodes",
         old="        if keep_children:\n            self._check_keep_children([self])",
         new="        if keep_children:\n            if self._parent._parent is not None:\n                self._check_keep_children([self])"),
    dict(id="M15", prop="C03", file="nutree/node.py", what="add_child(node): 'same parent' pre-check tests the parent's parent (over-refusal, D12 again)",
         old="                if source_node._parent is self:\n                    raise UniqueConstraintError(",
         new="                if source_node._parent is self or source_node._parent is self._parent:\n                    raise UniqueConstraintError("),
    dict(id="M16", prop="C03", file="nutree/node.py", what="set_data(with_clones=True) checks only the node it was called on, not its clones",
         old="            for n in cur_nodes if (has_clones and with_clones) else [self]:",
         new="            for n in [self]:"),
]


def sh(cmd, **kw):
    return subprocess.run(cmd, capture_output=True, text=True, **kw)


def fresh_copy():
    if COPY.exists():
        shutil.rmtree(COPY)
    shutil.copytree(SRC, COPY, ignore=shutil.ignore_patterns(".git", "__pycache__", ".pytest_cache", "docs"))


def main(argv):
    suite = "--suite" in argv
    tier = "quick"
    if "--tier" in argv:
        tier = argv[argv.index("--tier") + 1]
    sel = [a for a in argv if re.fullmatch(r"M\d+", a)]
    log = VERIF / ".work" / "sens_c123.log"
    rows = []
    for m in MUTATIONS:
        if sel and m["id"] not in sel:
            continue
        fresh_copy()
        f = COPY / m["file"]
        txt = f.read_text()
        if txt.count(m["old"]) != 1:
            rows.append((m["id"], m["prop"], "NOT-APPLIED", "", m["what"]))
            print(rows[-1], flush=True)
            continue
        f.write_text(txt.replace(m["old"], m["new"]))
        suite_res = ""
        if suite:
            env = dict(os.environ)
            env.pop("MAR10_NUTREE_VERIF", None)
            p = sh(["/venv/bin/python", "-m", "pytest", "-p", "no:cacheprovider"], cwd=COPY, env=env)
            last = ([ln for ln in p.stdout.splitlines() if re.search(r"\d+ (passed|failed)", ln)] or [""])[-1]
            suite_res = "suite:" + ("green " if p.returncode == 0 else "RED ") + last[:60]
        ev = VERIF / "evidence" / f"{m['prop']}.json"
        saved = ev.read_text() if ev.exists() else None
        t0 = time.time()
        env = dict(os.environ, NUTREE_REPO=str(COPY))
        p = sh([str(VERIF / "bin" / "check"), m["prop"], "--tier", tier], env=env, cwd=VERIF)
        dt = round(time.time() - t0)
        if saved is not None:
            ev.write_text(saved)
        viol = [ln for ln in p.stdout.splitlines() if ln.startswith("VIOLATION")]
        detail = ""
        if viol:
            mm = re.search(r"replay=(\S+)", viol[0])
            if mm and Path(mm.group(1)).exists():
                import json
                pay = json.loads(Path(mm.group(1)).read_text())
                detail = (pay.get("oracle") or str(pay.get("no_longer_checks")))[:230]
                keep = VERIF / ".work" / f"sens_{m['id']}.json"
                shutil.copy(mm.group(1), keep)
        verdict = "CAUGHT" if (p.returncode == 1 and viol) else "MISSED"
        rows.append((m["id"], m["prop"], verdict, f"exit={p.returncode} {dt}s {suite_res} {len(viol)} VIOLATION line(s)", m["what"] + " || " + detail))
        print(rows[-1], flush=True)
        with open(log, "a") as fp:
            fp.write(repr(rows[-1]) + "\n" + (p.stdout[-600:] if verdict == "MISSED" else "") + "\n")
    shutil.rmtree(COPY, ignore_errors=True)
    return 0


if __name__ == "__main__":
    sys.exit(main(sys.argv[1:]))
