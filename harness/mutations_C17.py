"""Sensitivity mutations used for C17 (all caught by `bin/check C17`, all invisible to the pinned suite).

usage: NUTREE_REPO=<scratch repo worktree with fixes applied> python harness/mutations_C17.py <name>   # applies ONE mutation
       (undo with `git -C $NUTREE_REPO checkout -- . && git -C $NUTREE_REPO apply fixes/D36.diff fixes/D37.diff fixes/D171.diff fixes/D172.diff`)
"""
import os, sys

MUTATIONS = {
    'M1': dict(what='M1: DOT edge emitted from the grandparent when the parent is a clone (unique_nodes)', file='nutree/dot.py',
        old='        yield f"{indent}{_key(n._parent)} -> {_key(n)}{attr_str}"',
        new='        src = n._parent\n        if unique_nodes and src._parent is not None and src is not node and src.is_clone():\n            src = src._parent\n        yield f"{indent}{_key(src)} -> {_key(n)}{attr_str}"'),
    'M2': dict(what='M2: unique_nodes=False still merges clones (de-duplication by data_id regardless of the flag)', file='nutree/dot.py',
        old='        if unique_nodes:\n            key = n._data_id\n            if key in used_keys:\n                continue\n            used_keys.add(key)\n        else:\n            key = n._node_id\n',
        new='        key = n._data_id\n        if key in used_keys:\n            continue\n        used_keys.add(key)\n        if not unique_nodes:\n            key = n._node_id\n'),
    'M3': dict(what="M3: Mermaid add_root=False also drops the edges of the root's grandchildren", file='nutree/mermaid.py',
        old='        if not add_root and n._parent is node:\n            continue',
        new='        if not add_root and (n._parent is node or n._parent._parent is node):\n            continue'),
    'M4': dict(what='M4: typed DOT edge label taken from the parent', file='nutree/typed_tree.py',
        old='            data["label"] = node.kind',
        new='            data["label"] = node.parent.kind if node.parent else node.kind'),
    'M5': dict(what="M5: RDF recursion passes the parent's graph node (edge from the grandparent)", file='nutree/rdf.py',
        old='            _add_child_nodes(graph, cgn, child_tree_node, node_mapper)',
        new='            _add_child_nodes(graph, graph_node or cgn, child_tree_node, node_mapper)'),
    'M6': dict(what="M6: DOT: equality instead of identity when skipping the start node's edges", file='nutree/dot.py',
        old='        if not add_self and n._parent is node:',
        new='        if not add_self and n._parent == node:'),
    'M7': dict(what='M7: Mermaid: template with the arrow ends swapped', file='nutree/mermaid.py',
        old='DEFAULT_EDGE_TEMPLATE: str = "{from_id} --> {to_id}"',
        new='DEFAULT_EDGE_TEMPLATE: str = "{to_id} --> {from_id}"'),
    'M8': dict(what='M8: Mermaid: kind label taken from the parent node', file='nutree/mermaid.py',
        old='            kind = getattr(to_node, "kind", None)',
        new='            kind = getattr(from_node, "kind", None) or getattr(to_node, "kind", None)'),
    'M9': dict(what='M9: RDF: index counted from 1', file='nutree/rdf.py',
        old='    for index, child_tree_node in enumerate(tree_node._children or ()):',
        new='    for index, child_tree_node in enumerate(tree_node._children or (), 1):'),
    'M10': dict(what='M10: Mermaid: clone lookup by data_id even when unique_nodes=False (clone keeps first index)', file='nutree/mermaid.py',
        old='        parent_key = _id(n._parent)\n        key = _id(n)\n',
        new='        parent_key = _id(n._parent)\n        key = _id(n.get_clones(add_self=True)[0]) if n.is_clone() else _id(n)\n'),
    'M11': dict(what='M11: Mermaid: a cosmetically different edge template (longer arrow) - semantics kept, obligation must break', file='nutree/mermaid.py',
        old='DEFAULT_EDGE_TEMPLATE: str = "{from_id} --> {to_id}"',
        new='DEFAULT_EDGE_TEMPLATE: str = "{from_id} ---> {to_id}"'),
    'M12': dict(what='M12: DOT: mapper result dropped for an empty attr dict (start node of a Node export): `if not attr_def` tested before the mapper', file='nutree/dot.py',
        old='        if mapper:\n            if attr_def is None:\n                attr_def = {}\n            assert node, "node required for mapper"\n            call_mapper(mapper, node, attr_def)\n        if not attr_def:\n            return ""\n',
        new='        if not attr_def:\n            return ""\n        if mapper:\n            assert node, "node required for mapper"\n            call_mapper(mapper, node, attr_def)\n'),
    'M13': dict(what='M13: Mermaid: title=False / "" still prints a title block', file='nutree/mermaid.py',
        old='    if title:\n        yield "---"',
        new='    if title is not None:\n        yield "---"'),
    'M14': dict(what='M14: typed DOT: user edge_mapper runs before the kind label is set (label set by the mapper is overwritten)', file='nutree/typed_tree.py',
        old='            data["label"] = node.kind\n            if edge_mapper:\n                return edge_mapper(node, data)\n',
        new='            if edge_mapper:\n                edge_mapper(node, data)\n            data["label"] = node.kind\n'),
    'M15': dict(what='M15: RDF: `if index != 0`: every first child loses its index triple (and the start node gets index -1)', file='nutree/rdf.py',
        old='    if index >= 0:',
        new='    if index != 0:'),
    'M21': dict(what='M21: Mermaid: truthiness instead of membership in id_to_idx (index 0 = the root is falsy)', file='nutree/mermaid.py',
        old='        if key in id_to_idx:\n            continue  # we use the initial clone instead',
        new='        if id_to_idx.get(key):\n            continue  # we use the initial clone instead'),
    'M24': dict(what="M24: Mermaid: equality instead of identity when skipping the start node's edges", file='nutree/mermaid.py',
        old='        if not add_root and n._parent is node:',
        new='        if not add_root and n._parent == node:'),
    'M25': dict(what='M25: RDF: a node_mapper answering False also suppresses the has_child triple of that node', file='nutree/rdf.py',
        old='    if parent_graph_node is not None:\n        graph.add((parent_graph_node, NUTREE_NS.has_child, graph_node))\n\n    if res is False:\n        # node_mapper wants to prevent adding standard attributes?\n        return graph_node\n',
        new='    if res is False:\n        # node_mapper wants to prevent adding standard attributes?\n        return graph_node\n\n    if parent_graph_node is not None:\n        graph.add((parent_graph_node, NUTREE_NS.has_child, graph_node))\n'),
    'M26': dict(what='M26: DOT: a section comment line reworded (harmless for Graphviz; breaks the source-line obligation and the strict parser)', file='nutree/dot.py',
        old='    yield f"{indent}# Edge Definitions"',
        new='    yield f"{indent}# Edges"'),
}

if __name__ == "__main__":
    m = MUTATIONS[sys.argv[1]]
    p = os.path.join(os.environ["NUTREE_REPO"], m["file"])
    s = open(p).read()
    assert m["old"] in s, "mutation site not found"
    open(p, "w").write(s.replace(m["old"], m["new"]))
    print("applied", sys.argv[1], "-", m["what"])
