"""Source of MANIFEST.json (bin/mkmanifest writes it)."""

CLAIMED = {
    "C15": dict(
        text=("Machine-checked theorems (Coq 8.16, no axioms) that every kind-aware query of the executable model equals the plain query "
              "on the kind-filtered child/sibling list, for every forest with unique node identities, every node (top level included), "
              "every kind and any_kind on/off; the model is tied to /repo on every run by a correspondence check (model evaluated by "
              "vm_compute vs. the implementation on all typed trees <=4 nodes x all kind assignments + random trees, every node, every "
              "query) and an independent Python oracle of the property statement."),
        note=("Trusted: Coq kernel + vm_compute; hand-written model theories/Forest/Nav.v (tied by the correspondence only); harness "
              "generators/observation; node identity = allocation index recorded by a harness-side wrapper of Node.__init__. "
              "Print Assumptions: closed under the global context for all 7 theorems."),
        technique="Coq proof about an executable Gallina model + differential correspondence check (vm_compute) + Python oracle",
        design_ref="DESIGN.md section 6 (C15), section 11",
    ),
}

NOT_YET = {
    # property id -> reason while the check is not built yet (kept current as work proceeds)
}
