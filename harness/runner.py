"""Check driver: proof obligations + correspondence + oracle + violation protocol.

usage: runner.py Cxx [--tier quick|thorough] [--replay FILE]
"""
from __future__ import annotations

import argparse
import fcntl
import importlib
import json
import os
import random
import re
import subprocess
import sys
import time
import traceback
from pathlib import Path

sys.path.insert(0, str(Path(__file__).resolve().parent))
try:
    import common as H  # noqa: E402
    from common import VERIF, COQ, WORK, Case  # noqa: E402
except Exception:  # the implementation under /repo cannot even be imported: fail closed
    _V = Path(__file__).resolve().parent.parent
    _pid = next((a for a in sys.argv[1:] if re.fullmatch(r"C\d+", a)), "C00")
    (_V / "replays").mkdir(exist_ok=True)
    _f = _V / "replays" / f"{_pid}-import-error.json"
    _f.write_text(json.dumps(dict(property=_pid, kind="no-failing-input-found",
                                  no_longer_checks=["correspondence: nutree from /repo cannot be imported: " + traceback.format_exc()[-1500:]])))
    print(f"VIOLATION property={_pid} replay={_f} no-failing-input-found")
    sys.exit(1)

BANNED = re.compile(
    r"\b(Admitted|admit|Axiom|Axioms|Parameter|Parameters|Conjecture|Conjectures|Admit Obligations)\b|Unset Guard|bypass_check|type-in-type|impredicative-set|Unset Universe Checking|Unset Positivity")

ALLOWED_AXIOMS: set[str] = set()   # none needed so far; stdlib axioms would be named here and in DESIGN.md §8


def sh(cmd, **kw):
    return subprocess.run(cmd, capture_output=True, text=True, **kw)


# ---------------------------------------------------------------------------
def regenerate_facts() -> tuple[bool, str]:
    """Run gen_facts.py against /repo; (ok, message).  Fail-closed."""
    p = sh([sys.executable, str(VERIF / "harness" / "gen_facts.py")])
    # rc 3 = some section could not be lifted: Generated.v then carries GEN_<SECTION>_OK = false and only the
    # properties whose Properties/Cxx.v states GEN_<SECTION>_OK = true lose their obligations (build failure below)
    return p.returncode in (0, 3), (p.stdout + p.stderr)[-3000:]


def ensure_makefile():
    sh([str(VERIF / "bin" / "mkcoqproject")])


def build(target: str, timeout=1500) -> tuple[bool, str]:
    """Full .vo build (no -vos) of one target and everything it depends on."""
    lock = open(WORK / "build.lock", "w")
    fcntl.flock(lock, fcntl.LOCK_EX)
    try:
        ensure_makefile()
        p = sh(["timeout", str(timeout), "make", "-j16", target], cwd=COQ)
        out = p.stdout + p.stderr
        return p.returncode == 0, out[-6000:]
    finally:
        fcntl.flock(lock, fcntl.LOCK_UN)
        lock.close()


def grep_gate() -> list[str]:
    bad = []
    for vf in list((COQ / "theories").rglob("*.v")) + list((COQ / "Properties").rglob("*.v")) + list((COQ / "gen").rglob("*.v")):
        txt = vf.read_text()
        # strip comments (non-nested is enough for our own files; nested handled by loop)
        prev = None
        while prev != txt:
            prev = txt
            txt = re.sub(r"\(\*[^()]*?\*\)", "", txt, flags=re.S)
        txt = re.sub(r"\(\*.*?\*\)", "", txt, flags=re.S)
        for m in BANNED.finditer(txt):
            bad.append(f"{vf.relative_to(COQ)}: {m.group(0)}")
    return bad


_PA_RE = re.compile(r"^(Closed under the global context|Axioms:)", re.M)


def check_property_file(prop_file: str) -> dict:
    """Re-compile Properties/Cxx.v (cheap: statements + `exact`) and read what
    Print Assumptions says under every theorem."""
    vf = COQ / prop_file
    src = vf.read_text()
    theorems = re.findall(r"^(?:Theorem|Corollary)\s+(\w+)", src, re.M)
    printed = re.findall(r"^Print Assumptions\s+(\w+)\.", src, re.M)
    lock = open(WORK / "build.lock", "w")
    fcntl.flock(lock, fcntl.LOCK_EX)
    try:
        p = sh(["timeout", "600", "coqc", *H.COQ_ARGS, str(vf)], cwd=COQ)
    finally:
        fcntl.flock(lock, fcntl.LOCK_UN)
        lock.close()
    res = dict(theorems=theorems, printed=printed, ok=p.returncode == 0, closed=0, axioms=[], stderr=p.stderr[-3000:])
    if p.returncode != 0:
        return res
    chunks = re.split(r"(?=^Closed under the global context|^Axioms:)", p.stdout, flags=re.M)
    for ch in chunks:
        if ch.startswith("Closed under the global context"):
            res["closed"] += 1
        elif ch.startswith("Axioms:"):
            names = re.findall(r"^([\w.']+)\s*:", ch, re.M)
            res["axioms"].extend(names)
    res["missing_print"] = [t for t in theorems if t not in printed]
    return res


# ---------------------------------------------------------------------------
def load_known():
    p = VERIF / "known_findings.json"
    out = []
    if p.exists():
        out = list(json.loads(p.read_text())["findings"])
    # per-property fragments written by the property builders before they are folded into known_findings.json
    for q in sorted((VERIF / "known_findings.d").glob("*.json")) if (VERIF / "known_findings.d").exists() else []:
        out.extend(json.loads(q.read_text())["findings"])
    return out


def write_replay(prop_id, name, payload) -> Path:
    d = VERIF / "replays"
    d.mkdir(exist_ok=True)
    f = d / f"{prop_id}-{name}.json"
    f.write_text(json.dumps(payload, indent=1, default=str))
    return f


def shrink(prop, desc, still_fails, budget=150):
    """Greedy shrinking through the property's own candidate generator."""
    if not hasattr(prop, "shrink_candidates"):
        return desc
    cur = desc
    tries = 0
    progress = True
    while progress and tries < budget:
        progress = False
        for cand in prop.shrink_candidates(cur):
            tries += 1
            if tries >= budget:
                break
            try:
                if still_fails(cand):
                    cur = cand
                    progress = True
                    break
            except Exception:
                continue
    return cur


def main(argv=None):
    ap = argparse.ArgumentParser()
    ap.add_argument("prop")
    ap.add_argument("--tier", default=os.environ.get("VERIF_TIER", "quick"), choices=["quick", "thorough"])
    ap.add_argument("--replay")
    args = ap.parse_args(argv)
    pid = args.prop
    seed = int(os.environ.get("VERIF_SEED", "20260926"))
    t0 = time.time()

    mod = importlib.import_module(f"props.{pid}")
    prop = mod.PROP

    if args.replay:
        return replay(prop, args.replay)

    violations: list[tuple[str, str]] = []   # (replay path, suffix)
    notes: list[str] = []
    obligations = 0
    discharged = 0
    broken_obligations: list[str] = []

    # 1. facts regenerated from the source, then the proof obligations
    ok, msg = regenerate_facts()
    if not ok:
        broken_obligations.append("gen_facts: source no longer has the shape the fact extractor understands: " + msg[-400:])
    gate = grep_gate()
    if gate:
        broken_obligations.append("grep gate: " + "; ".join(gate[:5]))
    target = prop.coq_prop.replace(".v", ".vo")
    ok_build, out = build(target)
    pa = dict(theorems=[], closed=0, axioms=[], ok=False, missing_print=[])
    if not ok_build:
        m = re.search(r'File "([^"]+)", line (\d+).*?\n(Error:.*?)(?:\n\n|\Z)', out, re.S)
        where = f"{m.group(1)}:{m.group(2)} {m.group(3)[:300]}" if m else out[-600:]
        broken_obligations.append(f"proof obligation no longer checks while building {target}: {where}")
        src = (COQ / prop.coq_prop).read_text()
        obligations = len(re.findall(r"^(?:Theorem|Corollary)\s+(\w+)", src, re.M))
    else:
        pa = check_property_file(prop.coq_prop)
        obligations = len(pa["theorems"])
        if not pa["ok"]:
            broken_obligations.append(f"{prop.coq_prop} does not compile: {pa['stderr'][-400:]}")
        else:
            bad_ax = [a for a in pa["axioms"] if a not in ALLOWED_AXIOMS]
            if bad_ax:
                broken_obligations.append(f"Print Assumptions reports axioms: {bad_ax}")
            if pa["missing_print"]:
                broken_obligations.append(f"theorems without Print Assumptions: {pa['missing_print']}")
            discharged = min(pa["closed"], obligations) if not bad_ax else 0

    # 1b. thorough tier: independent re-check of the compiled theorems (coqchk) + its axiom summary
    coqchk_summary = None
    if args.tier == "thorough" and ok_build:
        modname = "NTProp." + Path(prop.coq_prop).stem
        p = sh(["timeout", "1500", "coqchk", "-silent", "-o", "-Q", "theories", "NT", "-Q", "gen", "NTGen", "-Q", "Properties", "NTProp", modname], cwd=COQ)
        txt = p.stdout + p.stderr
        m = re.search(r"\* Axioms:(.*?)\n\s*\n\* Constants", txt, re.S)
        axs = " ".join((m.group(1) if m else "?").split())
        coqchk_summary = dict(rc=p.returncode, axioms=axs)
        if p.returncode != 0:
            broken_obligations.append("coqchk rejects the compiled development: " + txt[-400:])
        elif axs != "<none>":
            broken_obligations.append("coqchk -o reports axioms: " + axs[:300])

    # 2. correspondence + oracle on corpus, enumerated and random cases
    rng = random.Random(seed)
    cases: list[Case] = []
    gen_errors = []
    t_gen = time.time()
    def all_descs():
        """the property's own cases, plus - for read-only properties that build their trees with build.build and
        declare `post_variants` - copies of some of them whose tree is mutated after the build (build.apply_post)"""
        import build as _B
        pv = getattr(prop, "post_variants", None)
        want = (pv.get(args.tier, 0) if isinstance(pv, dict) else 0)
        rng2 = random.Random(seed * 7919 + 13)
        pool = []
        for d in prop.descs(args.tier, rng):
            yield d
            if want and isinstance(d, dict) and d.get("nodes") and "post" not in d and _B.nodes_size(d["nodes"]) >= 2:
                pool.append(d)
        if want and pool:
            for d in rng2.sample(pool, min(want, len(pool))):
                n = _B.nodes_size(d["nodes"])
                yield dict(d, post=_B.random_post(rng2, n, len(d.get("univ", [])) or 1, bool(d.get("typed")),
                                                  allowed=getattr(prop, "post_ops", None)))

    try:
        for desc in all_descs():
            try:
                cases.append(prop.run(desc))
            except Exception as e:  # harness must never die silently on one case
                gen_errors.append((desc, traceback.format_exc()[-1500:]))
                if len(gen_errors) > 20:
                    break
    except Exception:
        gen_errors.append(({}, traceback.format_exc()[-3000:]))
    t_gen = time.time() - t_gen

    model_fail_idx: list[int] = []
    coq_err = ""
    t_coq = time.time()
    # the case module is built on its own: Properties/Cxx.v need not import it, and it must run even when a proof broke
    # cases are grouped by the case module / entry point that evaluates them (the property's own, or a part's)
    groups: dict[tuple, list[int]] = {}
    for i, c in enumerate(cases):
        groups.setdefault((c.case_module or prop.case_module, c.run_fn or prop.run_fn, c.case_vo or prop.case_vo), []).append(i)
    if not groups:
        groups[(prop.case_module, prop.run_fn, prop.case_vo)] = []
    errs = []
    for gi, ((cmod, rfn, cvo), idxs) in enumerate(groups.items()):
        if not build(cvo)[0]:
            errs.append(f"model does not build ({cvo}); correspondence not evaluated")
            continue
        if not idxs:
            continue
        pairs = []
        for i in idxs:
            c = cases[i]
            try:
                pairs.append((c.coq_input, H.sx(c.impl_obs)))
            except (RecursionError, TypeError, ValueError) as e:
                # the implementation produced something that is not even a finite observation (e.g. a cyclic node graph)
                if not c.oracle_fail:
                    c.oracle_fail = f"observation: the observed state cannot be rendered ({type(e).__name__}): cyclic or malformed node graph"
                pairs.append((c.coq_input, "L [A (-424242)]"))
        f, e = H.check_cases_in_coq(pid, cmod, rfn, pairs, shard=getattr(prop, "shard", 300), jobs=12, tag=f"g{gi}" if gi else "")
        model_fail_idx.extend(idxs[j] for j in f)
        if e:
            errs.append(e)
    model_fail_idx.sort()
    coq_err = "\n".join(errs)
    t_coq = time.time() - t_coq
    if coq_err:
        broken_obligations.append("correspondence could not be evaluated: " + coq_err[-500:])
    if gen_errors:
        broken_obligations.append(f"harness error on {len(gen_errors)} case(s): {gen_errors[0][1][-600:]}")

    known = [k for k in load_known() if k["property"] == pid and k["kind"] == "known"]
    known_ids = {k["id"] for k in known}
    seen_known: dict[str, int] = {}

    oracle_fail = [i for i, c in enumerate(cases) if c.oracle_fail]
    unlisted_oracle = []
    for i in oracle_fail:
        c = cases[i]
        if c.finding and c.finding in known_ids:
            seen_known[c.finding] = seen_known.get(c.finding, 0) + 1
        else:
            unlisted_oracle.append(i)
    # inside a known-finding region the model must reproduce the defective behaviour exactly: a disagreement there counts
    model_only = [i for i in model_fail_idx if not cases[i].oracle_fail or (cases[i].finding and cases[i].finding in known_ids)]

    def fails_oracle(desc):
        c = prop.run(desc)
        return bool(c.oracle_fail) and not (c.finding and c.finding in known_ids)

    # 3. report
    n_reported = 0
    if unlisted_oracle:
        # a concrete input on which the implementation fails the property
        groups: dict[str, int] = {}
        for i in unlisted_oracle:
            g = cases[i].oracle_fail.split(":")[0]
            groups.setdefault(g, i)
        for g, i in list(groups.items())[:5]:
            d = shrink(prop, cases[i].desc, fails_oracle)
            c = prop.run(d)
            path = write_replay(pid, f"{seed}-{n_reported}", dict(
                property=pid, kind="failing-input", case=d, oracle=c.oracle_fail or cases[i].oracle_fail,
                impl_obs=c.impl_obs, model_disagrees=(i in model_fail_idx), broken_obligations=broken_obligations))
            violations.append((str(path), ""))
            n_reported += 1
    elif model_only or broken_obligations:
        # proof or correspondence broke, and no failing input was found among
        # everything generated (the oracle ran on all of it)
        first = None
        model_out = None
        if model_only:
            i = model_only[0]

            def model_disagrees(desc):
                c = prop.run(desc)
                f, e = H.check_cases_in_coq(pid, c.case_module or prop.case_module, c.run_fn or prop.run_fn, [(c.coq_input, H.sx(c.impl_obs))], tag="shr")
                return bool(f)

            d = shrink(prop, cases[i].desc, model_disagrees, budget=40)
            c = prop.run(d)
            model_out = H.eval_in_coq(c.case_module or prop.case_module, f"{c.run_fn or prop.run_fn} {c.coq_input}")[-4000:]
            first = dict(case=d, impl_obs=c.impl_obs, model_obs_raw=model_out)
        what = broken_obligations[:] + ([f"correspondence {prop.case_module}.{prop.run_fn} = implementation fails on {len(model_only)} case(s)"] if model_only else [])
        path = write_replay(pid, f"{seed}-unproved", dict(
            property=pid, kind="no-failing-input-found", no_longer_checks=what, first_disagreement=first))
        violations.append((str(path), " no-failing-input-found"))

    for k in known:
        # the witness is replayed on the implementation every run
        try:
            c = prop.run(k["witness"])
            still = bool(c.oracle_fail) and c.finding == k["id"]
        except Exception:
            still = False
        if still or seen_known.get(k["id"]):
            print(f"KNOWN-FINDING: property={pid} {k['id']} {k['what']}")
        else:
            notes.append(f"known finding {k['id']} no longer reproduces")

    # 4. evidence
    keys = {}
    for c in cases:
        if c.nontrivial:
            keys.setdefault(c.key or H.digest(c.desc), c)
    stats: dict[str, dict] = {}
    for c in cases:
        for k, v in c.stats.items():
            stats.setdefault(k, {})
            stats[k][str(v)] = stats[k].get(str(v), 0) + 1
    samples = [c.desc for c in list(keys.values())[:: max(1, len(keys) // 3)][:3]] or [c.desc for c in cases[:2]]
    ev = dict(
        property_id=pid, tier=args.tier, seed=seed, level="proof",
        coverage=dict(
            obligations=max(obligations, 1), discharged=discharged,
            checker_cmd=f"cd coq && make {target} && coqc {prop.coq_prop}  (Print Assumptions under every theorem); bin/check {pid}",
            trusted_base=TRUSTED_BASE + getattr(prop, "trusted", []),
            theorems=pa.get("theorems", []), axioms_reported=pa.get("axioms", []), coqchk=coqchk_summary,
            evaluations=len(cases), distinct_nontrivial=len(keys), rule=prop.rule, samples=samples,
            model_disagreements=len(model_fail_idx), oracle_failures=len(oracle_fail),
            known_finding_hits=seen_known, distribution=stats,
            exhaustive=bool(getattr(prop, "exhaustive_note", "")), exhaustive_note=getattr(prop, "exhaustive_note", ""),
            timing=dict(generate_and_run_impl_s=round(t_gen, 1), model_eval_s=round(t_coq, 1)),
        ),
        assumptions=getattr(prop, "assumptions", []),
        wall_s=round(time.time() - t0, 1), violations=len(violations), notes=notes + broken_obligations,
    )
    evdir = Path(os.environ.get("VERIF_EVIDENCE_DIR") or (VERIF / "evidence"))   # seeded-change trials write elsewhere
    evdir.mkdir(parents=True, exist_ok=True)
    (evdir / f"{pid}.json").write_text(json.dumps(ev, indent=1, default=str))

    for path, suffix in violations:
        print(f"VIOLATION property={pid} replay={path}{suffix}")
    print(f"{pid} [{args.tier}] theorems {discharged}/{obligations} closed; {len(cases)} cases "
          f"({len(keys)} distinct non-trivial); model disagreements {len(model_fail_idx)}; "
          f"oracle failures {len(oracle_fail)} (known {sum(seen_known.values())}); {ev['wall_s']}s")
    return 1 if violations else 0


TRUSTED_BASE = [
    "Coq 8.16.1 kernel (coqc, full .vo build); vm_compute for case evaluation and finite-domain obligations; no native_compute",
    "no axioms: Print Assumptions under every property theorem must say 'Closed under the global context'",
    "harness/gen_facts.py (ast walk of /repo, fail-closed) for the generated facts",
    "correspondence harness (harness/*.py): case generators, observation of the implementation through its public API, canonicalisation to sx, Python oracles",
    "hand-written Gallina model of the Python code (theories/*); tied to /repo only by the correspondence and the generated facts",
    "CPython semantics of list/dict/hash/id, and third-party libraries, are modelled, not verified",
]


def replay(prop, path):
    payload = json.loads(Path(path).read_text())
    desc = payload.get("case") or (payload.get("first_disagreement") or {}).get("case")
    if desc is None:
        print(json.dumps(payload, indent=1))
        print("no concrete case in this replay file; it names what no longer checks:")
        for w in payload.get("no_longer_checks", []):
            print("  -", w)
        return 1
    c = prop.run(desc)
    print("case:", json.dumps(desc))
    print("implementation:", json.dumps(c.impl_obs, default=str)[:3000])
    f, e = H.check_cases_in_coq(prop.id, c.case_module or prop.case_module, c.run_fn or prop.run_fn, [(c.coq_input, H.sx(c.impl_obs))], tag="rp")
    print("model agrees with implementation:", not f and not e)
    if f:
        print("model:", H.eval_in_coq(c.case_module or prop.case_module, f"{c.run_fn or prop.run_fn} {c.coq_input}")[-3000:])
    print("oracle verdict:", c.oracle_fail or "property holds on this case")
    return 1 if (c.oracle_fail or f) else 0


if __name__ == "__main__":
    sys.exit(main())
