(* Glue C19 <-> C05/C12: the save / load of a FileSystemTree in Forest/FsLoad.v ([to_list] / [from_list],
   its own JSON values and dicts, trees of FileSystemEntry records) is the instance of the general
   serialisation model Forest/Serialize.v ([to_list_iter] / [from_list]) for the class CFs with the FS
   mappers.  Imports: FsLoad*, Serialize.v, SerializeSpec.v and the generated-fact-free SerLayFacts /
   SerUnflatProofs only (the invariant of the writer loop is re-proved here for that reason; it is the one of
   SerWriterProofs.tli_go_lay). *)
From Coq Require Import List ZArith Bool Arith Lia Permutation.
From NT Require Import Sx Rose ListFacts RoseFacts.
From NT Require FsLoad FsLoadProofs FsSaveLoadProofs.
From NT Require Import Serialize SerializeSpec SerLayFacts SerUnflatProofs.
Import ListNotations.

(* ---- the two JSON vocabularies ---- *)
(* FsLoad carries a float as a pair of integers, Serialize as its literal text; a text is a list of
   integers, so the pair itself serves as the (injective) literal *)
Definition tj (v : FsLoad.jv) : jv :=
  match v with
  | FsLoad.JNull => JNull
  | FsLoad.JBool b => JBool b
  | FsLoad.JInt z => JInt z
  | FsLoad.JFloat m => JFloat [fst m; snd m]
  | FsLoad.JStr s => JStr s
  end.
Definition tdict (d : FsLoad.dict) : dict := map (fun kv => (fst kv, tj (snd kv))) d.

Definition untj (v : jv) : option FsLoad.jv :=
  match v with
  | JNull => Some FsLoad.JNull
  | JBool b => Some (FsLoad.JBool b)
  | JInt z => Some (FsLoad.JInt z)
  | JFloat [a; b] => Some (FsLoad.JFloat (a, b))
  | JStr s => Some (FsLoad.JStr s)
  | _ => None
  end.
Fixpoint undict (d : dict) : option FsLoad.dict :=
  match d with
  | [] => Some []
  | (k, v) :: r => match untj v, undict r with Some v', Some r' => Some ((k, v') :: r') | _, _ => None end
  end.

Lemma untj_tj v : untj (tj v) = Some v.
Proof. destruct v as [| | |[a b]|]; reflexivity. Qed.
Lemma undict_tdict d : undict (tdict d) = Some d.
Proof. induction d as [|[k v] d IH]; [reflexivity|]. cbn [tdict map undict fst snd]. fold (tdict d). now rewrite untj_tj, IH. Qed.

Lemma tdict_set k v d : tdict (FsLoad.dict_set k v d) = dset k (tj v) (tdict d).
Proof.
  induction d as [|[k' v'] d IH]; [reflexivity|]. cbn [FsLoad.dict_set tdict map dset fst snd]. fold (tdict d).
  destruct (text_eqb k k'); [reflexivity|]. cbn [map fst snd]. fold (tdict (FsLoad.dict_set k v d)). now rewrite IH.
Qed.
Lemma tdict_update d kvs : tdict (FsLoad.dict_update d kvs) = dupdate (tdict d) (tdict kvs).
Proof.
  unfold FsLoad.dict_update, dupdate. revert d. induction kvs as [|[k v] kvs IH]; intros d; [reflexivity|].
  cbn [fold_left tdict map fst snd]. fold (tdict kvs). rewrite IH, tdict_set. reflexivity.
Qed.

(* ---- FileSystemEntry objects as payloads of the general model ---- *)
(* not a str, identity hash (the allocation position), default data_id; the record itself sits in the
   meta slot, where the mappers find it *)
Definition k_fs : text := [102; 115]%Z.
Definition enc_mdate (o : option FsLoad.mtime) : sx := match o with None => L [] | Some m => L [A (fst m); A (snd m)] end.
Definition einfo (pos : nat) (e : FsLoad.fse) : info :=
  I (Z.of_nat pos) (Z.of_nat pos) (Z.of_nat pos) false (FsLoad.e_name e) (DInt (Z.of_nat pos)) None
    [(k_fs, L [A (if FsLoad.e_isdir e then 1 else 0)%Z; A (FsLoad.e_size e); enc_mdate (FsLoad.e_mdate e)])].
Definition dec (i : info) : FsLoad.fse :=
  match i_meta i with
  | [(_, L [A d; A s; m])] =>
      FsLoad.E (i_name i) (negb (Z.eqb d 0)) s (match m with L [A a; A b] => Some (a, b) | _ => None end)
  | _ => FsLoad.E (i_name i) false 0 None
  end.
Lemma dec_einfo pos e : dec (einfo pos e) = e.
Proof. destruct e as [n d s [[a b]|]]; destruct d; reflexivity. Qed.

(* the FS mappers in the interface of the general model *)
Definition ser_fs (i : info) (data : dict) : dict :=
  let inst := dec i in
  if FsLoad.e_isdir inst
  then dupdate data (tdict [(FsLoad.k_n, FsLoad.JStr (FsLoad.e_name inst)); (FsLoad.k_d, FsLoad.JBool true)])
  else dupdate data (tdict [(FsLoad.k_n, FsLoad.JStr (FsLoad.e_name inst)); (FsLoad.k_s, FsLoad.JInt (FsLoad.e_size inst));
                            (FsLoad.k_m, FsLoad.jv_mdate (FsLoad.e_mdate inst))]).
Definition deser_fs (idx : nat) (data : dict) : res dval :=
  match undict data with
  | Some d => match FsLoad.deser d with
              | Some e => Ok (DV false (FsLoad.e_name e) (Z.of_nat idx))     (* a new object: identity hash *)
              | None => Err ECrash
              end
  | None => Err ECrash
  end.

Lemma ser_fs_is_ser i d : ser_fs i (tdict d) = tdict (FsLoad.ser (dec i) d).
Proof. unfold ser_fs, FsLoad.ser. destruct (FsLoad.e_isdir (dec i)); now rewrite tdict_update. Qed.

(* ---- FS trees as forests of the general model: identities = pre-order positions ---- *)
Fixpoint emb (pos : nat) (t : FsLoad.ft) {struct t} : rt :=
  match t with
  | FsLoad.FN e ch =>
      T pos (einfo pos e)
        ((fix go (l : list FsLoad.ft) (p : nat) {struct l} : list rt :=
            match l with
            | [] => []
            | c :: r => emb p c :: go r (p + FsLoad.fsize c)
            end) ch (S pos))
  end.
Fixpoint emb_f (pos : nat) (l : list FsLoad.ft) : forest :=
  match l with
  | [] => []
  | c :: r => emb pos c :: emb_f (pos + FsLoad.fsize c) r
  end.

Lemma emb_FN pos e ch : emb pos (FsLoad.FN e ch) = T pos (einfo pos e) (emb_f (S pos) ch).
Proof.
  cbn [emb]. f_equal. generalize (S pos). induction ch as [|c ch IH]; intros p; cbn [emb_f]; [reflexivity|]. now rewrite IH.
Qed.

(* ---- the writer loop on a forest without clones (the invariant of SerWriterProofs.tli_go_lay, clone map
        empty throughout) ---- *)
Lemma count_le_one {X} (g : X -> did) d (l : list X) : NoDup (map g l) -> length (filter (fun x => did_eqb (g x) d) l) <= 1.
Proof.
  induction l as [|x l IH]; intros ND; [cbn; lia|]. cbn [map] in ND. inversion ND as [|y ys N1 N2]; subst. cbn [filter].
  destruct (did_eqb (g x) d) eqn:E; [|now apply IH]. apply did_eqb_eq in E. cbn [length].
  replace (filter (fun x0 => did_eqb (g x0) d) l) with (@nil X); [cbn; lia|]. symmetry.
  clear -N1 E. induction l as [|z l IHl]; [reflexivity|]. cbn [filter]. destruct (did_eqb (g z) d) eqn:Ez.
  - apply did_eqb_eq in Ez. exfalso. apply N1. left. congruence.
  - apply IHl. intros Y. apply N1. now right.
Qed.

Section WriterNoClones.
  Variable c : cls.
  Variable ser : info -> dict -> dict.
  Variable whole : forest.
  Variable fe : rt -> jv.
  Hypothesis Hids : NoDup (0 :: ids whole).
  Hypothesis Hdid : NoDup (map rdid (pre_f whole)).
  Hypothesis Hfull : forall t, In t (pre_f whole) -> full_data c ser [] [] t = Ok (fe t).

  Let L4 := lay4_f 0 0 1 whole.

  Definition Pinv (A : list q4) (pmap : list (nat * nat)) : Prop :=
    NoDup (map fst pmap) /\ In (0, 0) pmap /\
    (forall y, In y A -> rch (snd y) <> [] -> In (rid (snd y), q_pos (q4_q y)) pmap) /\
    (forall k, In k (map fst pmap) -> k = 0 \/ In k (map (fun q => rid (snd q)) A)).

  Lemma rids_L4 : map (fun q : q4 => rid (snd q)) L4 = ids whole.
  Proof. unfold L4, ids. rewrite <- (lay4_f_nodes whole 0 0 1), map_map. reflexivity. Qed.

  Lemma not_clone t : is_clone whole t = false.
  Proof. unfold is_clone, count_did. apply Nat.ltb_ge. now apply count_le_one. Qed.

  Lemma tli_go_plain : forall B A pmap, L4 = A ++ B -> Pinv A pmap ->
    tli_go c ser [] [] whole (map q4_pn B) (S (length A)) pmap []
    = Ok (map (fun q => entry (q_ppos (q4_q q)) (fe (snd q))) B).
  Proof.
    induction B as [|q B IH]; intros A pmap E HP; [reflexivity|].
    destruct q as [[[pid ppos] pos] t] eqn:Eq. rewrite <- Eq in E.
    assert (Epos : pos = S (length A)).
    { pose proof (lay4_f_pos whole 0 0 1 A q B E) as P. rewrite Eq in P. cbn in P. lia. }
    assert (Hlink : linked 0 0 A q) by (eapply lay4_f_linked; exact E).
    assert (Ht : In t (pre_f whole)).
    { rewrite <- (lay4_f_nodes whole 0 0 1). fold L4. rewrite E, map_app. apply in_or_app. right. rewrite Eq. now left. }
    assert (HidA : rid t <> 0 /\ ~ In (rid t) (map (fun q : q4 => rid (snd q)) A)).
    { pose proof Hids as Hn. rewrite <- rids_L4, E, map_app in Hn. rewrite Eq in Hn. cbn [map snd] in Hn.
      inversion Hn as [|? ? H0 Hn']; subst. split.
      - intros E0. apply H0. apply in_or_app. right. left. exact E0.
      - intros Hi. eapply NoDup_app_disj; [exact Hn'|exact Hi|now left]. }
    destruct HidA as [Hid0 HidA].
    destruct HP as (HPn & HP0 & HPy & HPk).
    cbn [map q4_pn q4_q q4_pid fst snd tli_go].
    set (pmap' := if is_nil (rch t) then pmap else (rid t, S (length A)) :: pmap).
    assert (HP' : Pinv (A ++ [q]) pmap').
    { unfold pmap'. refine (conj _ (conj _ (conj _ _))).
      - destruct (rch t); cbn [is_nil]; [exact HPn|]. cbn [map fst]. constructor; [|exact HPn].
        intros Hi. apply HPk in Hi as [Hi|Hi]; contradiction.
      - destruct (rch t); cbn [is_nil]; [exact HP0|now right].
      - intros y Hy Hch. apply in_app_or in Hy as [Hy|[<-|[]]].
        + destruct (rch t); cbn [is_nil]; [auto|right; auto].
        + rewrite Eq in *. cbn [snd q4_q q_pos fst] in *. destruct (rch t); [contradiction|]. cbn [is_nil]. left. now rewrite Epos.
      - intros k Hk. rewrite map_app. destruct (rch t); cbn [is_nil] in Hk.
        + apply HPk in Hk as [Hk|Hk]; [now left|right; apply in_or_app; now left].
        + cbn [map fst] in Hk. destruct Hk as [<-|Hk].
          * right. apply in_or_app. right. rewrite Eq. now left.
          * apply HPk in Hk as [Hk|Hk]; [now left|right; apply in_or_app; now left]. }
    assert (Hlook : lookup_nat pid pmap' = Some ppos).
    { destruct HP' as (HPn' & HP0' & HPy' & _). apply lookup_nat_in; [exact HPn'|].
      destruct Hlink as [[Hp Hpp]|(y & Hy & Hr & Hyp & Hch)].
      - rewrite Eq in Hp, Hpp. cbn in Hp, Hpp. subst. exact HP0'.
      - rewrite Eq in Hr, Hyp. cbn in Hr, Hyp. rewrite <- Hr, <- Hyp. apply HPy'; [apply in_or_app; now left|exact Hch]. }
    fold pmap'. rewrite Hlook.
    assert (E' : L4 = (A ++ [q]) ++ B) by (rewrite E, <- app_assoc; reflexivity).
    assert (Elen : S (S (length A)) = S (length (A ++ [q]))) by (rewrite app_length; cbn; lia).
    rewrite (Hfull t Ht). cbn [lookup_did]. rewrite (not_clone t).
    rewrite Elen, (IH (A ++ [q]) pmap' E' HP'). cbn [q_ppos fst snd]. reflexivity.
  Qed.

  Theorem to_list_iter_plain :
    to_list_iter c ser [] [] whole = Ok (map (fun q => entry (q_ppos q) (fe (q_node q))) (lay_f 0 1 whole)).
  Proof.
    unfold to_list_iter. rewrite <- (lay4_f_pn whole 0 0 1), <- (lay4_f_q whole 0 0 1). fold L4.
    assert (P0 : Pinv [] [(0, 0)]).
    { refine (conj _ (conj _ (conj _ _))).
      - cbn. constructor; [intros []|constructor].
      - now left.
      - intros y [].
      - intros k [<-|[]]. now left. }
    assert (X := tli_go_plain L4 [] [(0, 0)] eq_refl P0). cbn [length] in X. rewrite X.
    f_equal. rewrite map_map. apply map_ext. intros [[[pid ppos] pos] t]. reflexivity.
  Qed.
End WriterNoClones.

(* ---- facts about the embedding ---- *)

Lemma emb_size : forall t pos, size (emb pos t) = FsLoad.fsize t.
Proof.
  induction t as [e ch IH] using FsLoadProofs.ft_ind'. intros pos. rewrite emb_FN, FsSaveLoadProofs.fsize_FN, SerLayFacts.size_unfold. cbn [rch]. f_equal.
  generalize (S pos). induction IH as [|c ch Hc Hch IHch]; intros p; [reflexivity|]. cbn [emb_f FsSaveLoadProofs.fsize_f]. rewrite SerLayFacts.size_f_cons, Hc, IHch. reflexivity.
Qed.

Lemma emb_f_size l : forall pos, size_f (emb_f pos l) = FsSaveLoadProofs.fsize_f l.
Proof. induction l as [|c l IH]; intros pos; [reflexivity|]. cbn [emb_f FsSaveLoadProofs.fsize_f]. now rewrite SerLayFacts.size_f_cons, emb_size, IH. Qed.

(* every node of the embedding carries the payload of its entry under its own position *)
Definition fs_node (t : rt) : Prop := exists e, rinfo t = einfo (rid t) e.

Lemma emb_nodes : forall t pos, Forall fs_node (pre (emb pos t)) /\ ids_t (emb pos t) = seq pos (FsLoad.fsize t).
Proof.
  induction t as [e ch IH] using FsLoadProofs.ft_ind'. intros pos. rewrite emb_FN, FsSaveLoadProofs.fsize_FN, pre_unfold, ids_t_unfold. cbn [rid rch rinfo seq].
  assert (X : forall p, Forall fs_node (pre_f (emb_f p ch)) /\ ids (emb_f p ch) = seq p (FsSaveLoadProofs.fsize_f ch)).
  { induction IH as [|c ch Hc Hch IHch]; intros p; [split; [constructor|reflexivity]|]. cbn [emb_f FsSaveLoadProofs.fsize_f flat_map].
    destruct (Hc p) as [A1 A2]. destruct (IHch (p + FsLoad.fsize c)) as [B1 B2]. split; [apply Forall_app; now split|].
    change (emb p c :: emb_f (p + FsLoad.fsize c) ch) with ([emb p c] ++ emb_f (p + FsLoad.fsize c) ch). rewrite ids_app.
    replace (ids [emb p c]) with (ids_t (emb p c)) by (unfold ids, ids_t; cbn; now rewrite app_nil_r).
    now rewrite A2, B2, seq_app. }
  destruct (X (S pos)) as [X1 X2]. split; [constructor; [now exists e|exact X1]|now rewrite X2].
Qed.

Lemma emb_f_nodes l pos : Forall fs_node (pre_f (emb_f pos l)) /\ ids (emb_f pos l) = seq pos (FsSaveLoadProofs.fsize_f l).
Proof.
  revert pos. induction l as [|c l IH]; intros p; [split; [constructor|reflexivity]|]. cbn [emb_f FsSaveLoadProofs.fsize_f flat_map].
  destruct (emb_nodes c p) as [A1 A2]. destruct (IH (p + FsLoad.fsize c)) as [B1 B2]. split; [apply Forall_app; now split|].
  change (emb p c :: emb_f (p + FsLoad.fsize c) l) with ([emb p c] ++ emb_f (p + FsLoad.fsize c) l). rewrite ids_app.
  replace (ids [emb p c]) with (ids_t (emb p c)) by (unfold ids, ids_t; cbn; now rewrite app_nil_r).
  now rewrite A2, B2, seq_app.
Qed.

(* the entry of the general writer for such a node *)
Definition fe_fs (t : rt) : jv := JDict (tdict (FsLoad.ser (dec (rinfo t)) [])).

Lemma full_data_fs t : fs_node t -> full_data CFs ser_fs [] [] t = Ok (fe_fs t).
Proof.
  intros (e & E). unfold full_data, fe_fs, make_list_entry, mle_plain, custom_id. rewrite E. cbn [is_typed i_isstr i_did i_hash einfo].
  rewrite did_eqb_refl. cbn [negb is_nil andb]. f_equal. f_equal. exact (ser_fs_is_ser (einfo (rid t) e) []).
Qed.

(* the positions of the general layout are the indices of FsLoad.to_list *)
Definition tr_entry (pd : nat * FsLoad.dict) : jv := entry (fst pd) (JDict (tdict (snd pd))).

Lemma lay_emb : forall t p i,
  map (fun q => entry (q_ppos q) (fe_fs (q_node q))) (lay p i (emb i t)) = map tr_entry (FsLoad.to_list_t p i t).
Proof.
  induction t as [e ch IH] using FsLoadProofs.ft_ind'. intros p i. rewrite emb_FN, lay_unfold, FsSaveLoadProofs.to_list_t_FN. cbn [map rch q_ppos q_node fst snd].
  f_equal.
  - unfold fe_fs, tr_entry. cbn [rinfo fst snd]. now rewrite dec_einfo.
  - assert (G : forall j, map (fun q => entry (q_ppos q) (fe_fs (q_node q))) (lay_f i j (emb_f j ch)) = map tr_entry (FsLoad.to_list_f i j ch)).
    { induction IH as [|c ch Hc Hch IHch]; intros j; [reflexivity|].
      cbn [emb_f lay_f FsLoad.to_list_f]. rewrite !map_app, emb_size, Hc, IHch. reflexivity. }
    apply G.
Qed.

Lemma lay_f_emb l : forall p j,
  map (fun q => entry (q_ppos q) (fe_fs (q_node q))) (lay_f p j (emb_f j l)) = map tr_entry (FsLoad.to_list_f p j l).
Proof.
  induction l as [|c l IH]; intros p j; [reflexivity|]. cbn [emb_f lay_f FsLoad.to_list_f]. now rewrite !map_app, emb_size, lay_emb, IH.
Qed.

(* ---- WRITER: FsLoad.to_list is Serialize.to_list_iter for the class CFs and the FS serialize mapper ---- *)
Theorem fs_to_list_is_to_list_iter (f : list FsLoad.ft) :
  to_list_iter CFs ser_fs [] [] (emb_f 1 f) = Ok (map tr_entry (FsLoad.to_list f)).
Proof.
  destruct (emb_f_nodes f 1) as [Hn Hi].
  assert (Hids : NoDup (0 :: ids (emb_f 1 f))).
  { rewrite Hi. constructor; [intros Y; apply in_seq in Y; lia|apply seq_NoDup]. }
  assert (Hdid : NoDup (map rdid (pre_f (emb_f 1 f)))).
  { assert (E : map rdid (pre_f (emb_f 1 f)) = map (fun n => DInt (Z.of_nat n)) (ids (emb_f 1 f))).
    { unfold ids. rewrite map_map. apply map_ext_in. intros t Ht. destruct (proj1 (Forall_forall _ _) Hn t Ht) as (e & E). unfold rdid. now rewrite E. }
    rewrite E. apply FinFun.Injective_map_NoDup; [|now inversion Hids]. intros a b H. injection H as H. lia. }
  rewrite (to_list_iter_plain CFs ser_fs (emb_f 1 f) fe_fs Hids Hdid).
  - unfold FsLoad.to_list. now rewrite lay_f_emb.
  - intros t Ht. apply full_data_fs. exact (proj1 (Forall_forall _ _) Hn t Ht).
Qed.

Lemma existsb_false_forall' {X} (p : X -> bool) l : (forall x, In x l -> p x = false) -> existsb p l = false.
Proof. induction l as [|a l IH]; intros H; [reflexivity|]. cbn [existsb]. rewrite (H a (or_introl eq_refl)), IH; [reflexivity|]. intros x Hx. apply H. now right. Qed.

(* ---- READER ---- *)
(* what the general reader rebuilds from an FS entry: name and identity; the rest of the record is outside
   its [dval] *)
Definition rinfo_fs (idx : nat) (name : text) : info :=
  I (Z.of_nat idx) (Z.of_nat idx) (Z.of_nat idx) false name (DInt (Z.of_nat idx)) None [].
Definition ln_of (q : nat * nat * rt) : lnode := (q_pos q, q_ppos q, rinfo_fs (q_pos q) (i_name (rinfo (q_node q)))).

Definition fs_ok_node (t : rt) : Prop := exists e, rinfo t = einfo (rid t) e /\ FsLoadProofs.entry_ok e.

Lemma fs_dict_no_data_id e : dget k_data_id (tdict (FsLoad.ser e [])) = None.
Proof. unfold FsLoad.ser. destruct (FsLoad.e_isdir e); reflexivity. Qed.

Lemma deser_fs_ok idx e : FsLoadProofs.entry_ok e ->
  deser_fs idx (tdict (FsLoad.ser e [])) = Ok (DV false (FsLoad.e_name e) (Z.of_nat idx)).
Proof. intros H. unfold deser_fs. rewrite undict_tdict, (FsLoadProofs.deser_ser e [] eq_refl H). reflexivity. Qed.

Section Reader.
  Variable shash : text -> Z.
  Variable whole : forest.
  Hypothesis Hok : Forall fs_ok_node (pre_f whole).
  Hypothesis Hpos : forall q, In q (lay_f 0 1 whole) -> rid (q_node q) = q_pos q.

  Lemma lay_prefix A B : lay_f 0 1 whole = A ++ B -> map q_pos A = seq 1 (length A).
  Proof.
    intros E. assert (P := lay_f_positions whole 0 1). rewrite E, map_app in P.
    assert (L : length (map q_pos A) = length A) by apply map_length.
    assert (X : map q_pos A = firstn (length A) (seq 1 (size_f whole))) by (rewrite <- P, <- L, firstn_app, Nat.sub_diag, firstn_all; cbn; now rewrite app_nil_r).
    rewrite X. assert (Ls : length A <= size_f whole).
    { assert (Y := f_equal (@length nat) P). rewrite app_length, seq_length, map_length in Y. lia. }
    replace (size_f whole) with (length A + (size_f whole - length A)) by lia. rewrite seq_app, firstn_app, seq_length, Nat.sub_diag. cbn [firstn].
    rewrite app_nil_r. rewrite <- (seq_length (length A) 1) at 1. apply firstn_all.
  Qed.

  Lemma reader_go : forall B A, lay_f 0 1 whole = A ++ B ->
    from_list_go CFs deser_fs shash (map (fun q => entry (q_ppos q) (fe_fs (q_node q))) B) (S (length A)) (map ln_of A)
    = Ok (map ln_of (A ++ B)).
  Proof.
    induction B as [|q B IH]; intros A E; [now rewrite app_nil_r|].
    assert (PA := lay_prefix A (q :: B) E).
    assert (Hq : In q (lay_f 0 1 whole)) by (rewrite E; apply in_or_app; right; now left).
    destruct (lay_f_range whole 0 1 q Hq) as [Hr Hp].
    assert (Epos : q_pos q = S (length A)).
    { assert (P := lay_f_positions whole 0 1). rewrite E, map_app in P. cbn [map] in P. symmetry in P. apply seq_split_pos in P. rewrite map_length in P. lia. }
    assert (Hn : In (q_node q) (pre_f whole)) by (rewrite <- (lay_f_nodes whole 0 1); now apply in_map).
    destruct (proj1 (Forall_forall _ _) Hok _ Hn) as (e & Ei & Eo).
    destruct q as [[ppos pos] t]. cbn [q_pos q_ppos q_node fst snd] in *. subst pos.
    cbn [map from_list_go]. cbn [q_ppos q_node q_pos fst snd]. unfold from_list_step, entry, jnat. cbn [is_intlike].
    replace (Z.of_nat ppos <? 0)%Z with false by (symmetry; apply Z.ltb_ge; lia). rewrite Nat2Z.id.
    assert (Pok : parent_ok (map ln_of A) ppos = true).
    { unfold parent_ok. destruct Hp as [->|Hp]; [reflexivity|]. apply orb_true_iff. right.
      assert (Hin : In ppos (map q_pos A)) by (rewrite PA; apply in_seq; lia).
      apply in_map_iff in Hin. destruct Hin as (q' & Eq' & Hq').
      unfold find_ln. destruct (find (fun e0 => Nat.eqb (ln_idx e0) ppos) (map ln_of A)) eqn:Ef; [reflexivity|].
      exfalso. assert (X := find_none _ _ Ef (ln_of q') (in_map ln_of _ _ Hq')). cbn in X. rewrite Eq', Nat.eqb_refl in X. discriminate. }
    rewrite Pok. cbn [negb]. unfold fe_fs. cbn [is_typed]. rewrite Ei, dec_einfo, fs_dict_no_data_id, (deser_fs_ok _ e Eo).
    cbn [dv_hash dv_isstr dv_name]. unfold add_node.
    replace (existsb _ (map ln_of A)) with false.
    - assert (En : FsLoad.e_name e = i_name (rinfo t)) by (rewrite Ei; reflexivity).
      assert (Ers : rid t = S (length A)) by (apply (Hpos (ppos, S (length A), t) Hq)).
      replace (map ln_of A ++ [(S (length A), ppos, I (Z.of_nat (S (length A))) (Z.of_nat (S (length A))) (Z.of_nat (S (length A))) false (FsLoad.e_name e) (DInt (Z.of_nat (S (length A)))) None [])])
        with (map ln_of (A ++ [(ppos, S (length A), t)])) by (rewrite map_app; cbn [map]; unfold ln_of, rinfo_fs; cbn [q_pos q_ppos q_node fst snd]; now rewrite En).
      replace (S (S (length A))) with (S (length (A ++ [(ppos, S (length A), t)]))) by (rewrite app_length; cbn; lia).
      replace (A ++ (ppos, S (length A), t) :: B) with ((A ++ [(ppos, S (length A), t)]) ++ B) by (now rewrite <- app_assoc).
      apply (IH (A ++ [(ppos, S (length A), t)])). rewrite E, <- app_assoc. reflexivity.
    - symmetry. apply existsb_false_forall'. intros x Hx. apply in_map_iff in Hx. destruct Hx as (q' & <- & Hq').
      apply andb_false_iff. right. unfold ln_of, rinfo_fs, ln_info. cbn [snd i_did did_eqb].
      apply Z.eqb_neq. assert (Hin : In (q_pos q') (map q_pos A)) by (now apply in_map). rewrite PA in Hin. apply in_seq in Hin. lia.
  Qed.
End Reader.

(* what the general reader yields for an FS file: the same shape and positions, names as payload *)
Fixpoint strip_t (t : rt) : rt := match t with T id i ch => T id (rinfo_fs id (i_name i)) (map strip_t ch) end.

Lemma emb_ok : forall t pos pp, FsSaveLoadProofs.ok_t t ->
  Forall fs_ok_node (pre (emb pos t)) /\ (forall q, In q (lay pp pos (emb pos t)) -> rid (q_node q) = q_pos q).
Proof.
  induction t as [e ch IH] using FsLoadProofs.ft_ind'. intros pos pp Hok. apply FsSaveLoadProofs.ok_t_FN in Hok as [He Hch].
  rewrite emb_FN, pre_unfold, lay_unfold. cbn [rch].
  assert (X : forall p pp0, Forall fs_ok_node (pre_f (emb_f p ch)) /\ (forall q, In q (lay_f pp0 p (emb_f p ch)) -> rid (q_node q) = q_pos q)).
  { unfold FsSaveLoadProofs.ok_f in Hch. induction IH as [|c ch Hc Hcs IHch]; intros p pp0; [split; [constructor|intros q []]|].
    inversion Hch as [|? ? Hokc Hokr]; subst. cbn [emb_f flat_map lay_f]. destruct (Hc p pp0 Hokc) as [A1 A2].
    destruct (IHch Hokr (p + size (emb p c)) pp0) as [B1 B2]. rewrite emb_size in *.
    split; [apply Forall_app; now split|]. intros q Hq. apply in_app_or in Hq. destruct Hq as [Hq|Hq]; [now apply A2|now apply B2]. }
  destruct (X (S pos) pos) as [X1 X2]. split.
  - constructor; [|exact X1]. exists e. split; [reflexivity|exact He].
  - intros q [<-|Hq]; [reflexivity|now apply X2].
Qed.

Lemma emb_f_ok l : forall pos pp, FsSaveLoadProofs.ok_f l ->
  Forall fs_ok_node (pre_f (emb_f pos l)) /\ (forall q, In q (lay_f pp pos (emb_f pos l)) -> rid (q_node q) = q_pos q).
Proof.
  induction l as [|c l IH]; intros pos pp Hok; [split; [constructor|intros q []]|]. inversion Hok as [|? ? Hc Hl]; subst.
  cbn [emb_f flat_map lay_f]. destruct (emb_ok c pos pp Hc) as [A1 A2]. destruct (IH (pos + size (emb pos c)) pp Hl) as [B1 B2]. rewrite emb_size in *.
  split; [apply Forall_app; now split|]. intros q Hq. apply in_app_or in Hq. destruct Hq as [Hq|Hq]; [now apply A2|now apply B2].
Qed.

Lemma relabel_emb infos : forall t pos, (forall x, In x (pre (emb pos t)) -> infos (rid x) = rinfo_fs (rid x) (i_name (rinfo x))) ->
  relabel infos pos (emb pos t) = strip_t (emb pos t).
Proof.
  induction t as [e ch IH] using FsLoadProofs.ft_ind'. intros pos H. rewrite relabel_unfold, emb_FN. cbn [rch strip_t].
  assert (H0 := H (emb pos (FsLoad.FN e ch)) ltac:(rewrite pre_unfold; now left)). rewrite emb_FN in H0. cbn [rid rinfo] in H0. rewrite H0. f_equal.
  assert (Hc : forall x, In x (pre_f (emb_f (S pos) ch)) -> infos (rid x) = rinfo_fs (rid x) (i_name (rinfo x))).
  { intros x Hx. apply H. rewrite emb_FN, pre_unfold. now right. }
  clear H. revert Hc. generalize (S pos). induction IH as [|c ch Hcc Hcs IHch]; intros p Hc; [reflexivity|].
  cbn [emb_f relabel_f map]. rewrite emb_size. f_equal.
  - apply Hcc. intros x Hx. apply Hc. cbn [emb_f flat_map]. apply in_or_app. now left.
  - apply IHch. intros x Hx. apply Hc. cbn [emb_f flat_map]. apply in_or_app. now right.
Qed.

Lemma relabel_emb_f infos l : forall pos, (forall x, In x (pre_f (emb_f pos l)) -> infos (rid x) = rinfo_fs (rid x) (i_name (rinfo x))) ->
  relabel_f infos pos (emb_f pos l) = map strip_t (emb_f pos l).
Proof.
  induction l as [|c l IH]; intros pos H; [reflexivity|]. cbn [emb_f relabel_f map]. rewrite emb_size. f_equal.
  - apply relabel_emb. intros x Hx. apply H. cbn [emb_f flat_map]. apply in_or_app. now left.
  - apply IH. intros x Hx. apply H. cbn [emb_f flat_map]. apply in_or_app. now right.
Qed.

(* ---- READER: on the file FsLoad.to_list writes, Serialize.from_list (class CFs, FS deserialize mapper) rebuilds
        the tree FsLoad.from_list rebuilds - same shape, same positions, same names (the rest of an entry is
        not part of the general model's rebuilt data object) ---- *)
Theorem fs_from_list_is_from_list shash (f : list FsLoad.ft) : FsSaveLoadProofs.ok_f f ->
  from_list CFs deser_fs shash (map tr_entry (FsLoad.to_list f)) = Ok (map strip_t (emb_f 1 f)) /\
  FsLoad.from_list (FsLoad.to_list f) = Some f.
Proof.
  intros Hok. split; [|exact (FsSaveLoadProofs.save_load_roundtrip f Hok)].
  destruct (emb_f_ok f 1 0 Hok) as [Hn Hp]. set (whole := emb_f 1 f) in *.
  unfold FsLoad.to_list. rewrite <- (lay_f_emb f 0 1). fold whole. unfold from_list.
  assert (X := reader_go shash whole Hn Hp (lay_f 0 1 whole) [] eq_refl). cbn [length map app] in X. rewrite X.
  f_equal. set (es := map ln_of (lay_f 0 1 whole)).
  assert (E1 : map ln_idx es = map q_pos (lay_f 0 1 whole)) by (unfold es; rewrite map_map; reflexivity).
  assert (E2 : map ln_par es = map q_ppos (lay_f 0 1 whole)) by (unfold es; rewrite map_map; reflexivity).
  rewrite (unflat_forest whole es E1 E2). apply relabel_emb_f. intros x Hx. change (emb_f 1 f) with whole in Hx.
  rewrite <- (lay_f_nodes whole 0 1) in Hx. apply in_map_iff in Hx. destruct Hx as (q & <- & Hq).
  rewrite (Hp q Hq). unfold info_at.
  assert (ND : NoDup (map ln_idx es)) by (rewrite E1, lay_f_positions; apply seq_NoDup).
  assert (Hin : In (ln_of q) es) by (unfold es; now apply in_map).
  assert (F := find_ln_unique es (ln_of q) ND Hin). cbn [ln_of ln_idx fst snd] in F. rewrite F. reflexivity.
Qed.
