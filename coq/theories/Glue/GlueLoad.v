(* Glue C03/C01 <-> C12/C05: two models of Tree._from_list / TypedTree._from_list agree.
     Mut/MachineLoad.v   op_load: the node list is replayed on the mutation machine (add_child(data) /
                         add_child(node) steps on a tree state with registry, index, uniqueness check);
     Forest/Serialize.v  from_list: the reader of the serialisation model (creation-ordered node table,
                         [unflat] at the end).
   For every node list the reader accepts, loaded into a world whose allocator is at 1 (as in the
   serialisation model, which numbers the nodes from 1), the machine accepts the corresponding entries and
   builds exactly the reader's forest.  (Imports Serialize.v, which reads generated constants: for C12 only.) *)
From Coq Require Import List ZArith Bool Arith Lia Permutation.
From NT Require Import Sx Rose ListFacts RoseFacts Surgery SurgeryFacts Machine WF MachineFacts PreserveSteps PreserveOps PreserveCopy
  PreserveMore Invariant Effects Refusal Heap HeapProofs HeapRemove HeapCopy MachineLoad MachineLoadProofs.
From NT Require Serialize.
Import ListNotations.

(* ---- a leaf appended below a parent, in terms of child lists by identity ---- *)
Lemma leaf_placed f pq ch P n i : NoDup (ids f) -> ~ In 0 (ids f) ->
  parent_path P f = Some pq -> get_ch pq f = Some ch ->
  let f1 := upd_ch pq (place NApp (T n i [])) f in
  (forall q, kids q (rows 0 f1) = kids q (rows 0 f) ++ (if Nat.eqb q P then [n] else [])) /\
  incl (rows 0 f) (rows 0 f1) /\ In (P, n, i) (rows 0 f1).
Proof.
  intros ND Z Gp Gc f1. destruct (ctx_kids pq f 0 ch ND Z Gc) as (A & B & E1 & E2 & E3 & _).
  rewrite (parent_path_owner P f pq ch Gp Gc) in *. specialize (E2 (place NApp (T n i []))). fold f1 in E2.
  assert (Epl : place NApp (T n i []) ch = ch ++ [T n i []]) by (destruct ch; reflexivity).
  rewrite Epl, rows_app in E2. cbn [flat_map rows_t app] in E2.
  refine (conj _ (conj _ _)).
  - intros q. rewrite E2, E1, !kids_app, kids_cons. cbn [r_par r_id fst snd]. change (kids q []) with (@nil nat).
    rewrite (Nat.eqb_sym q P). destruct (Nat.eqb P q) eqn:Eq.
    + apply Nat.eqb_eq in Eq. subst q. rewrite (kids_none P B) by (intros r Hr; apply E3; apply in_or_app; now right).
      now rewrite !app_nil_r, <- !app_assoc.
    + cbn [app]. now rewrite !app_nil_r.
  - intros r Hr. rewrite E1 in Hr. rewrite E2. rewrite !in_app_iff in *. cbn [In]. tauto.
  - rewrite E2. apply in_or_app. right. apply in_or_app. left. apply in_or_app. right. now left.
Qed.

(* ---- a forest is the [unflat] of its creation-ordered node table ---- *)
Section FromKids.
  Variables (F : forest) (es : list Serialize.lnode).
  Hypothesis ND : NoDup (ids F).
  Hypothesis Z : ~ In 0 (ids F).
  Hypothesis Hk : forall q, kids q (rows 0 F) = map Serialize.ln_idx (filter (fun e => Nat.eqb (Serialize.ln_par e) q) es).
  Hypothesis Hr : forall e, In e es -> In (Serialize.ln_par e, Serialize.ln_idx e, Serialize.ln_info e) (rows 0 F).

  Definition Lst (l : list rt) (o : nat) : Prop := (l = F /\ o = 0) \/ exists y, In y (pre_f F) /\ l = rch y /\ o = rid y.

  Lemma lst_facts l o : Lst l o ->
    map rid l = kids o (rows 0 F) /\ (forall c, In c l -> In c (pre_f F) /\ In (o, rid c, rinfo c) (rows 0 F)).
  Proof.
    intros [[-> ->]|(y & Hy & -> & ->)].
    - split; [symmetry; now apply kids_top|]. intros c Hc. split; [now apply in_pre_f_top|now apply rows_top].
    - split; [symmetry; now apply (proj2 kids_node F 0 y)|]. intros c Hc.
      split; [now apply (pre_f_child_closed F y)|now apply (proj2 PreserveKeepClones.rows_child_of F 0 y c)].
  Qed.

  Lemma list_by_ids {X} (g : X -> rt) (key : X -> nat) : forall (l : list rt) (E : list X), map rid l = map key E ->
    (forall c e, In c l -> In e E -> rid c = key e -> c = g e) -> l = map g E.
  Proof.
    induction l as [|c l IH]; intros [|e E] Hm Hc; try discriminate; [reflexivity|]. cbn [map] in *. injection Hm as H1 H2. f_equal.
    - apply Hc; [now left|now left|exact H1].
    - apply IH; [exact H2|]. intros c' e' Hc' He' E'. apply Hc; [now right|now right|exact E'].
  Qed.

  Lemma forest_is_unflat : forall k l o, Lst l o -> size_f l < k -> l = Serialize.unflat k es o.
  Proof.
    induction k as [|k IH]; intros l o HL Hs; [lia|]. destruct (lst_facts l o HL) as [Hm Hc]. cbn [Serialize.unflat].
    apply (list_by_ids (fun e => T (Serialize.ln_idx e) (Serialize.ln_info e) (Serialize.unflat k es (Serialize.ln_idx e))) Serialize.ln_idx).
    - now rewrite Hm, Hk.
    - intros c e Hcl He Eid. apply filter_In in He. destruct He as [He Ep]. apply Nat.eqb_eq in Ep.
      destruct (Hc c Hcl) as [Pc Rc]. assert (Re := Hr e He).
      assert (NDR : NoDup (map r_id (rows 0 F))) by (now rewrite rows_ids).
      assert (Eq := NoDup_map_inj r_id _ _ _ NDR Rc Re Eid). injection Eq as _ _ Ei.
      destruct c as [id i ch]. cbn [rid rinfo] in *. subst id i. f_equal.
      apply IH; [right; exists (T (Serialize.ln_idx e) (Serialize.ln_info e) ch); now repeat split|].
      assert (X := size_le_in _ l Hcl). rewrite MachineFacts.size_unfold in X. lia.
  Qed.

  Theorem forest_unflat : F = Serialize.unflat (S (length es)) es 0.
  Proof.
    apply forest_is_unflat; [now left|].
    (* the forest has exactly one node per entry *)
    assert (L : length (ids F) <= length es).
    { rewrite <- (rows_ids F 0), map_length.
      assert (I : incl (rows 0 F) (map (fun e => (Serialize.ln_par e, Serialize.ln_idx e, Serialize.ln_info e)) es)).
      { intros [[p n] i] H. assert (Hn : In n (kids p (rows 0 F))) by (apply kids_in; now exists i).
        rewrite Hk in Hn. apply in_map_iff in Hn. destruct Hn as (e & En & He). apply filter_In in He. destruct He as [He Ep]. apply Nat.eqb_eq in Ep.
        assert (Re := Hr e He). assert (NDR : NoDup (map r_id (rows 0 F))) by (now rewrite rows_ids).
        assert (Eq := NoDup_map_inj r_id _ _ _ NDR H Re (eq_sym En)). rewrite Eq. apply in_map_iff. now exists e. }
      assert (NDrows : NoDup (rows 0 F)).
      { assert (NDR : NoDup (map r_id (rows 0 F))) by (now rewrite rows_ids). now apply NoDup_map_inv in NDR. }
      rewrite <- (map_length (fun e => (Serialize.ln_par e, Serialize.ln_idx e, Serialize.ln_info e)) es). now apply NoDup_incl_length. }
    rewrite <- ids_length_size. lia.
  Qed.
End FromKids.

Lemma rep_children_kids f p pq ch : NoDup (ids f) -> ~ In 0 (ids f) -> parent_path p f = Some pq -> get_ch pq f = Some ch ->
  kids p (rows 0 f) = map rid ch.
Proof.
  intros ND Z Gp G. destruct (ctx_kids pq f 0 ch ND Z G) as (A & B & E1 & _ & E3 & E4 & _).
  rewrite (parent_path_owner p f pq ch Gp G) in *. rewrite E1, !kids_app.
  rewrite (kids_none p A), (kids_none p B), (kids_top ch p E4), app_nil_r; [reflexivity| |];
    intros r Hr; apply E3; apply in_or_app; [now right|now left].
Qed.

(* ---- the two loops side by side ---- *)
Import Serialize.
Local Notation MOk := Machine.Ok.
Local Notation MErr := Machine.Err.

Section Sim.
  Variable c : cls.
  Variable ti : nat.

  (* the machine state that corresponds to the reader's node table [es] *)
  Record Inv (es : list lnode) (w : world) (t : tstate) : Prop := {
    i_tree : get_tree w ti = Some t;
    i_wf : WFw w;
    i_next : next w = S (length es);
    i_typed : typed t = is_typed c;
    i_calc : calc t = None;
    i_idx : map ln_idx es = seq 1 (length es);
    i_kids : forall q, kids q (rows 0 (forest_of t)) = map ln_idx (filter (fun e => Nat.eqb (ln_par e) q) es);
    i_rows : forall e, In e es -> In (ln_par e, ln_idx e, ln_info e) (rows 0 (forest_of t));
    i_info : forall e, In e es -> i_meta (ln_info e) = [] /\ Machine.default_kind t (i_kind (ln_info e)) = i_kind (ln_info e)
  }.

  Definition imap (es : list lnode) : list nat := 0 :: map ln_idx es.

  Lemma imap_nth es p : map ln_idx es = seq 1 (length es) -> p <= length es -> nth_error (imap es) p = Some p.
  Proof.
    intros E L. unfold imap. rewrite E. change (0 :: seq 1 (length es)) with (seq 0 (S (length es))).
    rewrite nth_error_nth' with (d := 0) by (rewrite seq_length; lia). now rewrite seq_nth by lia.
  Qed.

  Lemma parent_ok_spec es w t p : Inv es w t -> parent_ok es p = true ->
    p <= length es /\ exists pq ch, parent_path p (forest_of t) = Some pq /\ get_ch pq (forest_of t) = Some ch.
  Proof.
    intros I H. unfold parent_ok in H. apply orb_true_iff in H. destruct H as [H|H].
    - apply Nat.eqb_eq in H. subst p. split; [lia|]. exists [], (forest_of t). split; reflexivity.
    - destruct (find_ln p es) as [e|] eqn:Ef; [|discriminate]. unfold find_ln in Ef. apply find_some in Ef. destruct Ef as [He Ep].
      apply Nat.eqb_eq in Ep. assert (Hin : In p (map ln_idx es)) by (rewrite <- Ep; now apply in_map).
      rewrite (i_idx _ _ _ I) in Hin. apply in_seq in Hin. split; [lia|].
      assert (Hr := i_rows _ _ _ I e He). rewrite Ep in Hr.
      assert (Hp : In p (ids (forest_of t))) by (change p with (r_id (ln_par e, p, ln_info e)); now apply (rows_id_in _ 0)).
      destruct (proj2 (parent_path_live p (forest_of t)) (or_intror Hp)) as (pq & Gp). destruct (parent_path_get p _ pq Gp) as (ch & Gc).
      now exists pq, ch.
  Qed.

  (* the uniqueness test of the reader is the one of Tree._register *)
  Lemma collides_is_add_node es w t p pq ch id : Inv es w t ->
    parent_path p (forest_of t) = Some pq -> get_ch pq (forest_of t) = Some ch ->
    collides t p id = existsb (fun e => Nat.eqb (ln_par e) p && did_eqb (i_did (ln_info e)) id) es.
  Proof.
    intros I Gp Gc. assert (Wt := WFw_tree w ti t (i_wf _ _ _ I) (i_tree _ _ _ I)).
    assert (ND := wf_nodup t Wt). assert (Zp := wf_pos t Wt).
    assert (Hm : map rid ch = kids p (rows 0 (forest_of t))) by (symmetry; now apply (rep_children_kids (forest_of t) p pq ch)).
    destruct (existsb _ es) eqn:Ex.
    - apply existsb_exists in Ex. destruct Ex as (e & He & Ee). apply andb_true_iff in Ee. destruct Ee as [E1 E2].
      apply Nat.eqb_eq in E1. apply did_eqb_eq in E2.
      apply (collides_complete t p pq ch id Wt Gp Gc).
      assert (Hin : In (ln_idx e) (map rid ch)).
      { rewrite Hm, (i_kids _ _ _ I p). apply in_map. apply filter_In. split; [assumption|]. now apply Nat.eqb_eq. }
      apply in_map_iff in Hin. destruct Hin as (x & Exi & Hx). apply in_map_iff. exists x. split; [|assumption].
      assert (R1 : In (p, rid x, rinfo x) (rows 0 (forest_of t))).
      { assert (X := rows_child_in pq (forest_of t) ch 0 x Gc Hx). now rewrite (parent_path_owner p _ pq ch Gp Gc) in X. }
      assert (R2 := i_rows _ _ _ I e He). assert (NDR : NoDup (map r_id (rows 0 (forest_of t)))) by (now rewrite rows_ids).
      assert (Eq := NoDup_map_inj r_id _ _ _ NDR R1 R2 Exi). injection Eq as _ _ Ei. unfold rdid. now rewrite Ei.
    - destruct (collides t p id) eqn:Col; [|reflexivity]. exfalso.
      assert (X := collides_sound t p pq ch id Wt Gp Gc Col). apply in_map_iff in X. destruct X as (x & Exd & Hx).
      assert (Hin : In (rid x) (map rid ch)) by (now apply in_map). rewrite Hm, (i_kids _ _ _ I p) in Hin.
      apply in_map_iff in Hin. destruct Hin as (e & Ee & He). apply filter_In in He. destruct He as [He Ep].
      assert (R1 : In (p, rid x, rinfo x) (rows 0 (forest_of t))).
      { assert (X := rows_child_in pq (forest_of t) ch 0 x Gc Hx). now rewrite (parent_path_owner p _ pq ch Gp Gc) in X. }
      assert (R2 := i_rows _ _ _ I e He). assert (NDR : NoDup (map r_id (rows 0 (forest_of t)))) by (now rewrite rows_ids).
      assert (Eq := NoDup_map_inj r_id _ _ _ NDR R1 R2 (eq_sym Ee)). injection Eq as _ _ Ei.
      assert (Y : existsb (fun e0 => Nat.eqb (ln_par e0) p && did_eqb (i_did (ln_info e0)) id) es = true); [|congruence].
      apply existsb_exists. exists e. split; [assumption|]. rewrite Ep. cbn [andb]. apply did_eqb_eq. rewrite <- Ei. exact Exd.
  Qed.

  Lemma default_kind_idem t k : Machine.default_kind t (Machine.default_kind t k) = Machine.default_kind t k.
  Proof. unfold Machine.default_kind. destruct (typed t); [now destruct k|reflexivity]. Qed.

  Lemma filter_snoc {X} (p : X -> bool) l x : filter p (l ++ [x]) = filter p l ++ (if p x then [x] else []).
  Proof. rewrite filter_app. cbn [filter]. now destruct (p x). Qed.

  (* what both models do once the new node's parent and payload are known *)
  Lemma inv_extend es w t p pq ch info (w1 : world) t1 :
    Inv es w t -> parent_path p (forest_of t) = Some pq -> get_ch pq (forest_of t) = Some ch ->
    WFw w1 -> get_tree w1 ti = Some t1 -> next w1 = S (S (length es)) -> typed t1 = typed t -> calc t1 = calc t ->
    forest_of t1 = upd_ch pq (place NApp (T (S (length es)) info [])) (forest_of t) ->
    i_meta info = [] -> Machine.default_kind t (i_kind info) = i_kind info ->
    Inv (es ++ [(S (length es), p, info)]) w1 t1.
  Proof.
    intros I Gp Gc W1 Gt1 Nx Ty Ca F1 Hm Hkd. assert (Wt := WFw_tree w ti t (i_wf _ _ _ I) (i_tree _ _ _ I)).
    destruct (leaf_placed (forest_of t) pq ch p (S (length es)) info (wf_nodup t Wt) (wf_pos t Wt) Gp Gc) as (K & Inc & New).
    rewrite <- F1 in K, Inc, New.
    constructor; auto.
    - rewrite app_length. cbn. lia.
    - rewrite Ty. apply I.
    - rewrite Ca. apply I.
    - rewrite map_app, app_length, (i_idx _ _ _ I). cbn [map ln_idx fst length]. rewrite Nat.add_1_r, seq_S. reflexivity.
    - intros q. rewrite K, (i_kids _ _ _ I q), filter_snoc, map_app. cbn [ln_par fst snd]. rewrite (Nat.eqb_sym p q).
      destruct (Nat.eqb q p); reflexivity.
    - intros e He. apply in_app_or in He. destruct He as [He|[<-|[]]]; [apply Inc; now apply (i_rows _ _ _ I)|exact New].
    - intros e He. apply in_app_or in He. destruct He as [He|[<-|[]]].
      + destruct (i_info _ _ _ I e He) as [A B]. split; [exact A|]. unfold Machine.default_kind in *. now rewrite Ty.
      + cbn [ln_info snd]. split; [exact Hm|]. unfold Machine.default_kind in *. now rewrite Ty.
  Qed.

  (* a data entry (a str, or a dict after the mapper) *)
  Lemma step_data es w t p d ex k es' : Inv es w t -> parent_ok es p = true ->
    let id := match ex with Some x => x | None => DInt (d_hash d) end in
    add_node es (S (length es)) p (Machine.mk_info d id (Machine.default_kind t k) []) = Ok es' ->
    exists w' t', load_entry ti w (imap es) (LData p d ex k) = (MOk [S (length es)], w') /\ Inv es' w' t'.
  Proof.
    intros I Pok id H. destruct (parent_ok_spec es w t p I Pok) as (Lp & pq & ch & Gp & Gc).
    unfold add_node in H. destruct (existsb _ es) eqn:Ex; [discriminate|]. injection H as <-.
    assert (W1 := WFw_op_add w ti p d ex k BNone (i_wf _ _ _ I)).
    cbn [load_entry]. rewrite (imap_nth es p (i_idx _ _ _ I) Lp). unfold op_add in *. rewrite (i_tree _ _ _ I), Gp, Gc in *.
    cbn [norm_before before_ok negb] in *. rewrite (i_calc _ _ _ I) in *.
    assert (Eid : (match ex with Some e => Some e | None => calc_id None d end) = Some id) by (unfold id; now destruct ex).
    rewrite Eid in *. rewrite (collides_is_add_node es w t p pq ch id I Gp Gc) in *.
    cbn [i_did Machine.mk_info] in Ex. rewrite Ex in *. cbn [snd] in W1. rewrite (i_next _ _ _ I) in *.
    eexists _, _. split; [reflexivity|].
    apply (inv_extend es w t p pq ch _ _ _ I Gp Gc W1 (get_put_same _ _ t _ (i_tree _ _ _ I))); try reflexivity.
    - cbn [put_tree bump next]. rewrite (i_next _ _ _ I). lia.
    - apply default_kind_idem.
  Qed.

  (* a reference entry: a clone of the node of an earlier entry *)
  Lemma step_ref es w t p r fc es' : Inv es w t -> parent_ok es p = true -> find_ln r es = Some fc ->
    add_node es (S (length es)) p (ln_info fc) = Ok es' ->
    exists w' t', load_entry ti w (imap es) (LRef p r) = (MOk [S (length es)], w') /\ Inv es' w' t'.
  Proof.
    intros I Pok Hf H. destruct (parent_ok_spec es w t p I Pok) as (Lp & pq & ch & Gp & Gc).
    unfold add_node in H. destruct (existsb _ es) eqn:Ex; [discriminate|]. injection H as <-.
    assert (Wt := WFw_tree w ti t (i_wf _ _ _ I) (i_tree _ _ _ I)). assert (ND := wf_nodup t Wt).
    unfold find_ln in Hf. apply find_some in Hf. destruct Hf as [Hfc Er]. apply Nat.eqb_eq in Er.
    assert (Hin : In r (map ln_idx es)) by (rewrite <- Er; now apply in_map). rewrite (i_idx _ _ _ I) in Hin. apply in_seq in Hin.
    assert (Rfc := i_rows _ _ _ I fc Hfc). rewrite Er in Rfc.
    (* the node of the first occurrence *)
    assert (Hs : exists s, In s (pre_f (forest_of t)) /\ rid s = r /\ rinfo s = ln_info fc).
    { destruct (proj2 rows_member (forest_of t) 0 _ _ _ Rfc) as [(_ & x & Hx & Rx & Ix)|(s' & Hs' & _ & x & Hx & Rx & Ix)].
      - exists x. split; [now apply in_pre_f_top|now split].
      - exists x. split; [now apply (pre_f_child_closed _ s')|now split]. }
    destruct Hs as (s & Ps & Rs & Is). assert (Gn := get_node_unique r (forest_of t) s ND Ps Rs).
    assert (Ed : did_of r (forest_of t) = Some (i_did (ln_info fc))) by (unfold did_of; rewrite Gn; cbn; unfold rdid; now rewrite Is).
    assert (Ek : kind_of r (forest_of t) = i_kind (ln_info fc)) by (unfold kind_of; rewrite Gn; now rewrite Is).
    assert (Epar : parent_of r (forest_of t) = Some (ln_par fc)) by (apply (parent_of_rows r _ _ ND); now exists (ln_info fc)).
    assert (Npar : Nat.eqb (ln_par fc) p = false).
    { destruct (Nat.eqb (ln_par fc) p) eqn:E; [|reflexivity]. exfalso.
      assert (Y : existsb (fun e => Nat.eqb (ln_par e) p && did_eqb (i_did (ln_info e)) (i_did (ln_info fc))) es = true); [|congruence].
      apply existsb_exists. exists fc. split; [assumption|]. rewrite E. apply did_eqb_refl. }
    assert (W1 := WFw_op_add_node w ti p ti r (did_of r (forest_of t)) (kind_of r (forest_of t)) BNone None (i_wf _ _ _ I)).
    cbn [load_entry]. rewrite (imap_nth es p (i_idx _ _ _ I) Lp), (imap_nth es r (i_idx _ _ _ I)) by lia.
    replace (Nat.eqb r 0) with false by (symmetry; apply Nat.eqb_neq; lia). rewrite (i_tree _ _ _ I).
    unfold op_add_node in *. rewrite (i_tree _ _ _ I), Gn, Gp, Gc, Ed, Ek, Epar, Npar in *.
    rewrite andb_negb_r in *. cbn [andb] in *. rewrite Nat.eqb_refl in *. cbn [andb] in *.
    assert (Eds : rdid s = i_did (ln_info fc)) by (unfold rdid; now rewrite Is).
    rewrite Eds, did_eqb_refl in *. cbn [negb norm_before before_ok] in *.
    replace (negb (typed t) && typed t) with false in * by (now destruct (typed t)).
    rewrite (collides_is_add_node es w t p pq ch _ I Gp Gc), Ex in *.
    set (x := T (next w) _ []) in *.
    destruct (register_all (pre x) (reg t) (idx t)) as [r' ix'] eqn:Ereg. cbn [snd] in W1.
    assert (Ex0 : x = T (S (length es)) (ln_info fc) []).
    { unfold x. rewrite (i_next _ _ _ I), Is. f_equal. destruct (i_info _ _ _ I fc Hfc) as [Hm Hkd]. rewrite Hkd.
      destruct (ln_info fc) as [o e h b n d kd mt]. cbn in *. now subst mt. }
    rewrite (i_next _ _ _ I) in *.
    eexists _, _. split; [reflexivity|].
    destruct (i_info _ _ _ I fc Hfc) as [Hm Hkd].
    apply (inv_extend es w t p pq ch (ln_info fc) _ _ I Gp Gc W1 (get_put_same (W (trees w) (S (S (length es)))) ti t _ (i_tree _ _ _ I))); try reflexivity; auto.
    cbn [forest_of set_all]. now rewrite Ex0.
  Qed.

  Variable deser : nat -> dict -> res dval.
  Variable shash : text -> Z.

  (* the machine entry a file entry stands for (None: the reader itself rejects the entry's form) *)
  Definition lentry_of (idx : nat) (e : jv) : option lentry :=
    match e with
    | JList [pj; data] =>
        match is_intlike pj with
        | None => None
        | Some pz =>
            if (pz <? 0)%Z then None else
            let p := Z.to_nat pz in
            match data with
            | JStr s => Some (LData p (D (Z.of_nat idx) (Z.of_nat idx) (shash s) true s) None None)
            | JInt _ | JBool _ =>
                match is_intlike data with
                | Some rz => if (rz <=? 0)%Z then None else Some (LRef p (Z.to_nat rz))
                | None => None
                end
            | JDict d =>
                let k := if is_typed c then
                           match dget k_kind d with
                           | None => Ok (default_kind c)
                           | Some (JStr s) => Ok (Some s)
                           | Some _ => Err ECrash
                           end
                         else Ok None in
                let di := match dget k_data_id d with
                          | None | Some JNull => Ok None
                          | Some (JInt z) => Ok (Some (DInt z))
                          | Some (JStr s) => Ok (Some (DStr s))
                          | Some _ => Err ECrash
                          end in
                match k, di, deser idx d with
                | Ok k, Ok di, Ok dv =>
                    Some (LData p (D (Z.of_nat idx) (Z.of_nat idx) (dv_hash dv) (dv_isstr dv) (dv_name dv)) di k)
                | _, _, _ => None
                end
            | _ => None
            end
        end
    | _ => None
    end.

  Lemma dk_none t : typed t = is_typed c -> Machine.default_kind t None = default_kind c.
  Proof. intros E. unfold Machine.default_kind, default_kind. rewrite E. destruct (is_typed c); reflexivity. Qed.

  (* one iteration of the two loops *)
  Lemma step_sim es w t e es' : Inv es w t -> from_list_step c deser shash es (S (length es)) e = Ok es' ->
    exists le w' t', lentry_of (S (length es)) e = Some le /\
      load_entry ti w (imap es) le = (MOk [S (length es)], w') /\ Inv es' w' t'.
  Proof.
    intros I H. unfold from_list_step in H. unfold lentry_of.
    destruct e as [| | | | |l|]; try discriminate. destruct l as [|pj [|data [|x l]]]; try discriminate.
    destruct (is_intlike pj) as [pz|]; [|discriminate]. destruct (pz <? 0)%Z; [discriminate|].
    destruct (parent_ok es (Z.to_nat pz)) eqn:Pok; [|discriminate]. cbn [negb] in H.
    destruct data as [|b|z|fl|s|l|d]; try discriminate.
    - (* a bool used as a reference *)
      destruct (is_intlike (JBool b)) as [rz|]; [|discriminate]. destruct (rz <=? 0)%Z; [destruct (rz =? 0)%Z; discriminate|].
      destruct (find_ln (Z.to_nat rz) es) as [fc|] eqn:Ef; [|discriminate].
      destruct (step_ref es w t _ _ fc es' I Pok Ef H) as (w' & t' & E1 & E2). exists (LRef (Z.to_nat pz) (Z.to_nat rz)), w', t'. split; [reflexivity|split; assumption].
    - destruct (is_intlike (JInt z)) as [rz|]; [|discriminate]. destruct (rz <=? 0)%Z; [destruct (rz =? 0)%Z; discriminate|].
      destruct (find_ln (Z.to_nat rz) es) as [fc|] eqn:Ef; [|discriminate].
      destruct (step_ref es w t _ _ fc es' I Pok Ef H) as (w' & t' & E1 & E2). exists (LRef (Z.to_nat pz) (Z.to_nat rz)), w', t'. split; [reflexivity|split; assumption].
    - (* a str *)
      eexists. rewrite <- (dk_none t (i_typed _ _ _ I)) in H.
      destruct (step_data es w t (Z.to_nat pz) (D (Z.of_nat (S (length es))) (Z.of_nat (S (length es))) (shash s) true s) None None es' I Pok H) as (w' & t' & E1 & E2).
      exists w', t'. split; [reflexivity|split; assumption].
    - (* a dict *)
      set (kx := if is_typed c then _ else Ok None) in *. set (dx := match dget k_data_id d with None => _ | Some _ => _ end) in *.
      destruct kx as [k|] eqn:Ek; [|discriminate]. destruct dx as [di|]; [|discriminate].
      destruct (deser (S (length es)) d) as [dv|]; [|discriminate].
      assert (Hk : Machine.default_kind t k = k).
      { unfold Machine.default_kind. rewrite (i_typed _ _ _ I). unfold kx in Ek. destruct (is_typed c) eqn:Ety.
        - destruct (dget k_kind d) as [[]|]; try discriminate; injection Ek as <-; [reflexivity|]. unfold default_kind. now rewrite Ety.
        - now injection Ek as <-. }
      eexists. rewrite <- Hk in H.
      destruct (step_data es w t (Z.to_nat pz) (D (Z.of_nat (S (length es))) (Z.of_nat (S (length es))) (dv_hash dv) (dv_isstr dv) (dv_name dv)) di k es' I Pok) as (w' & t' & E1 & E2).
      { destruct di; exact H. }
      exists w', t'. split; [reflexivity|split; assumption].
  Qed.

  Lemma step_shape es idx e es' : from_list_step c deser shash es idx e = Ok es' -> exists p i, es' = es ++ [(idx, p, i)].
  Proof.
    unfold from_list_step, add_node. intros H.
    repeat match type of H with
           | context [match ?x with _ => _ end] => destruct x; try discriminate
           | context [if ?x then _ else _] => destruct x; try discriminate
           end; injection H as <-; eexists _, _; reflexivity.
  Qed.

  Fixpoint ldoc (idx : nat) (l : list jv) : option (list lentry) :=
    match l with
    | [] => Some []
    | e :: r => match lentry_of idx e, ldoc (S idx) r with
                | Some a, Some b => Some (a :: b)
                | _, _ => None
                end
    end.

  Lemma loop_sim : forall l es w t es', Inv es w t -> from_list_go c deser shash l (S (length es)) es = Ok es' ->
    exists doc w' t', ldoc (S (length es)) l = Some doc /\
      load_go ti doc w (imap es) = (MOk (imap es'), w') /\ Inv es' w' t'.
  Proof.
    induction l as [|e l IH]; intros es w t es' I H; cbn [from_list_go ldoc load_go] in *.
    - injection H as <-. now exists [], w, t.
    - destruct (from_list_step c deser shash es (S (length es)) e) as [es1|] eqn:Es; [|discriminate].
      destruct (step_sim es w t e es1 I Es) as (le & w1 & t1 & E1 & E2 & I1).
      destruct (step_shape es _ e es1 Es) as (p & i & ->).
      assert (L1 : S (S (length es)) = S (length (es ++ [(S (length es), p, i)]))) by (rewrite app_length; cbn; lia).
      rewrite L1 in H. destruct (IH _ w1 t1 es' I1 H) as (doc & w' & t' & D1 & D2 & I').
      rewrite <- L1 in D1. rewrite E1, D1. exists (le :: doc), w', t'. split; [reflexivity|]. split; [|exact I'].
      cbn [load_go]. rewrite E2. unfold imap in D2 |- *. rewrite map_app in D2. cbn [map ln_idx fst app] in D2. exact D2.
  Qed.
End Sim.

(* ---- the theorem: the machine-level load and the serialisation model's reader agree ---- *)
Theorem load_agrees c deser shash w l f : WFw w -> next w = 1 ->
  from_list c deser shash l = Ok f ->
  exists doc w' t',
    ldoc c deser shash 1 l = Some doc /\
    op_load w (is_typed c) doc = (MOk [length (trees w)], w') /\
    get_tree w' (length (trees w)) = Some t' /\ forest_of t' = f /\ WF t' /\
    (forall tj, tj < length (trees w) -> get_tree w' tj = get_tree w tj).
Proof.
  intros Ww Nx H. unfold from_list in H. destruct (from_list_go c deser shash l 1 []) as [es|] eqn:Eg; [|discriminate]. injection H as <-.
  set (ti := length (trees w)). set (t0 := TS [] [] [] (is_typed c) None). set (w0 := W (trees w ++ [t0]) (next w)).
  assert (I0 : Inv c ti [] w0 t0).
  { constructor; try reflexivity.
    - unfold get_tree, w0, ti. cbn [trees]. apply nth_error_app_len.
    - apply (PreserveCopy_WFx_new_empty w (is_typed c) None Ww).
    - exact Nx.
    - intros e [].
    - intros e []. }
  destruct (loop_sim c ti deser shash l [] w0 t0 es I0 Eg) as (doc & w' & t' & D1 & D2 & I').
  exists doc, w', t'. split; [exact D1|].
  assert (Eo : op_load w (is_typed c) doc = (MOk [ti], w')).
  { unfold op_load. fold ti. fold t0. fold w0. change [0] with (imap []). now rewrite D2. }
  split; [exact Eo|]. split; [apply I'|].
  assert (Wt := WFw_tree w' ti t' (i_wf _ _ _ _ _ I') (i_tree _ _ _ _ _ I')).
  split; [|split; [exact Wt|]].
  - apply forest_unflat; [apply Wt|apply Wt|apply I'|apply I'].
  - intros tj Hj. assert (X := proj1 (load_frame w (is_typed c) doc) tj Hj). now rewrite Eo in X.
Qed.

(* ---- ... and they refuse the same files: a UniqueConstraintError of the reader is one of the machine ---- *)
Section Refuse.
  Variable c : cls.
  Variable ti : nat.
  Variable deser : nat -> dict -> res dval.
  Variable shash : text -> Z.

  Lemma refuse_data es w t p d ex k : Inv c ti es w t -> parent_ok es p = true ->
    let id := match ex with Some x => x | None => DInt (d_hash d) end in
    add_node es (S (length es)) p (Machine.mk_info d id (Machine.default_kind t k) []) = Err EUnique ->
    fst (load_entry ti w (imap es) (LData p d ex k)) = MErr Machine.EUnique.
  Proof.
    intros I Pok id H. destruct (parent_ok_spec c ti es w t p I Pok) as (Lp & pq & ch & Gp & Gc).
    unfold add_node in H. destruct (existsb _ es) eqn:Ex; [|discriminate].
    cbn [load_entry]. rewrite (imap_nth es p (i_idx _ _ _ _ _ I) Lp). unfold op_add. rewrite (i_tree _ _ _ _ _ I), Gp, Gc.
    cbn [norm_before before_ok negb]. rewrite (i_calc _ _ _ _ _ I).
    assert (Eid : (match ex with Some e => Some e | None => calc_id None d end) = Some id) by (unfold id; now destruct ex).
    rewrite Eid, (collides_is_add_node c ti es w t p pq ch id I Gp Gc). cbn [i_did Machine.mk_info] in Ex. now rewrite Ex.
  Qed.

  Lemma refuse_ref es w t p r fc : Inv c ti es w t -> parent_ok es p = true -> find_ln r es = Some fc ->
    add_node es (S (length es)) p (ln_info fc) = Err EUnique ->
    fst (load_entry ti w (imap es) (LRef p r)) = MErr Machine.EUnique.
  Proof.
    intros I Pok Hf H. destruct (parent_ok_spec c ti es w t p I Pok) as (Lp & pq & ch & Gp & Gc).
    unfold add_node in H. destruct (existsb _ es) eqn:Ex; [|discriminate].
    assert (Wt := WFw_tree w ti t (i_wf _ _ _ _ _ I) (i_tree _ _ _ _ _ I)). assert (ND := wf_nodup t Wt).
    unfold find_ln in Hf. apply find_some in Hf. destruct Hf as [Hfc Er]. apply Nat.eqb_eq in Er.
    assert (Hin : In r (map ln_idx es)) by (rewrite <- Er; now apply in_map). rewrite (i_idx _ _ _ _ _ I) in Hin. apply in_seq in Hin.
    assert (Rfc := i_rows _ _ _ _ _ I fc Hfc). rewrite Er in Rfc.
    assert (Hs : exists s, In s (pre_f (forest_of t)) /\ rid s = r /\ rinfo s = ln_info fc).
    { destruct (proj2 rows_member (forest_of t) 0 _ _ _ Rfc) as [(_ & x & Hx & Rx & Ix)|(s' & Hs' & _ & x & Hx & Rx & Ix)].
      - exists x. split; [now apply in_pre_f_top|now split].
      - exists x. split; [now apply (pre_f_child_closed _ s')|now split]. }
    destruct Hs as (s & Ps & Rs & Is). assert (Gn := get_node_unique r (forest_of t) s ND Ps Rs).
    assert (Ed : did_of r (forest_of t) = Some (i_did (ln_info fc))) by (unfold did_of; rewrite Gn; cbn; unfold rdid; now rewrite Is).
    assert (Eds : rdid s = i_did (ln_info fc)) by (unfold rdid; now rewrite Is).
    cbn [load_entry]. rewrite (imap_nth es p (i_idx _ _ _ _ _ I) Lp), (imap_nth es r (i_idx _ _ _ _ _ I)) by lia.
    replace (Nat.eqb r 0) with false by (symmetry; apply Nat.eqb_neq; lia). rewrite (i_tree _ _ _ _ _ I).
    unfold op_add_node. rewrite (i_tree _ _ _ _ _ I), Gn, Gp, Gc, Ed, andb_negb_r. cbn [andb].
    match goal with |- context [if ?b then (MErr Machine.EUnique, w) else _] => destruct b end; [reflexivity|].
    rewrite Eds, did_eqb_refl. cbn [negb norm_before before_ok].
    replace (negb (typed t) && typed t) with false by (now destruct (typed t)).
    now rewrite (collides_is_add_node c ti es w t p pq ch _ I Gp Gc), Ex.
  Qed.

  Lemma refuse_step es w t e le : Inv c ti es w t -> lentry_of c deser shash (S (length es)) e = Some le ->
    from_list_step c deser shash es (S (length es)) e = Err EUnique ->
    fst (load_entry ti w (imap es) le) = MErr Machine.EUnique.
  Proof.
    intros I Hl H. unfold from_list_step in H. unfold lentry_of in Hl.
    destruct e as [| | | | |l|]; try discriminate. destruct l as [|pj [|data [|x l]]]; try discriminate.
    destruct (is_intlike pj) as [pz|]; [|discriminate]. destruct (pz <? 0)%Z; [discriminate|].
    destruct (parent_ok es (Z.to_nat pz)) eqn:Pok; [|discriminate]. cbn [negb] in H.
    destruct data as [|b|z|fl|s|l|d]; try discriminate.
    - destruct (is_intlike (JBool b)) as [rz|]; [|discriminate]. destruct (rz <=? 0)%Z; [discriminate|]. injection Hl as <-.
      destruct (find_ln (Z.to_nat rz) es) as [fc|] eqn:Ef; [|discriminate]. now apply (refuse_ref es w t _ _ fc).
    - destruct (is_intlike (JInt z)) as [rz|]; [|discriminate]. destruct (rz <=? 0)%Z; [discriminate|]. injection Hl as <-.
      destruct (find_ln (Z.to_nat rz) es) as [fc|] eqn:Ef; [|discriminate]. now apply (refuse_ref es w t _ _ fc).
    - injection Hl as <-. rewrite <- (dk_none c t (i_typed _ _ _ _ _ I)) in H.
      exact (refuse_data es w t (Z.to_nat pz) (D (Z.of_nat (S (length es))) (Z.of_nat (S (length es))) (shash s) true s) None None I Pok H).
    - set (kx := if is_typed c then _ else Ok None) in *. set (dx := match dget k_data_id d with None => _ | Some _ => _ end) in *.
      destruct kx as [k|] eqn:Ek; [|discriminate]. destruct dx as [di|]; [|discriminate].
      destruct (deser (S (length es)) d) as [dv|]; [|discriminate]. injection Hl as <-.
      assert (Hk : Machine.default_kind t k = k).
      { unfold Machine.default_kind. rewrite (i_typed _ _ _ _ _ I). unfold kx in Ek. destruct (is_typed c) eqn:Ety.
        - destruct (dget k_kind d) as [[]|]; try discriminate; injection Ek as <-; [reflexivity|]. unfold default_kind. now rewrite Ety.
        - now injection Ek as <-. }
      rewrite <- Hk in H.
      apply (refuse_data es w t (Z.to_nat pz) (D (Z.of_nat (S (length es))) (Z.of_nat (S (length es))) (dv_hash dv) (dv_isstr dv) (dv_name dv)) di k I Pok).
      destruct di; exact H.
  Qed.

  Lemma refuse_loop : forall l es w t doc, Inv c ti es w t -> ldoc c deser shash (S (length es)) l = Some doc ->
    from_list_go c deser shash l (S (length es)) es = Err EUnique ->
    fst (load_go ti doc w (imap es)) = MErr Machine.EUnique.
  Proof.
    induction l as [|e l IH]; intros es w t doc I D H; cbn [from_list_go ldoc] in *; [discriminate|].
    destruct (lentry_of c deser shash (S (length es)) e) as [le|] eqn:El; [|discriminate].
    destruct (ldoc c deser shash (S (S (length es))) l) as [doc'|] eqn:Ed; [|discriminate]. injection D as <-. cbn [load_go].
    destruct (from_list_step c deser shash es (S (length es)) e) as [es1|e1] eqn:Es.
    - destruct (step_sim c ti deser shash es w t e es1 I Es) as (le' & w1 & t1 & E1 & E2 & I1).
      assert (le' = le) by congruence. subst le'. rewrite E2.
      destruct (step_shape c deser shash es _ e es1 Es) as (p & i & ->).
      assert (L1 : S (S (length es)) = S (length (es ++ [(S (length es), p, i)]))) by (rewrite app_length; cbn; lia).
      rewrite L1 in H, Ed. assert (X := IH _ w1 t1 doc' I1 Ed H). unfold imap in X |- *. rewrite map_app in X. exact X.
    - injection H as ->. assert (X := refuse_step es w t e le I El Es).
      destruct (load_entry ti w (imap es) le) as [[[|n [|n2 r]]|x] w1]; cbn [fst] in X |- *; try discriminate; exact X.
  Qed.
End Refuse.

Theorem load_refuses_alike c deser shash w l doc : WFw w -> next w = 1 ->
  from_list c deser shash l = Err EUnique -> ldoc c deser shash 1 l = Some doc ->
  fst (op_load w (is_typed c) doc) = MErr Machine.EUnique /\ trees (snd (op_load w (is_typed c) doc)) = trees w.
Proof.
  intros Ww Nx H D. unfold from_list in H. destruct (from_list_go c deser shash l 1 []) as [es|e] eqn:Eg; [discriminate|]. injection H as ->.
  set (ti := length (trees w)). set (t0 := TS [] [] [] (is_typed c) None). set (w0 := W (trees w ++ [t0]) (next w)).
  assert (I0 : Inv c ti [] w0 t0).
  { constructor; try reflexivity.
    - unfold get_tree, w0, ti. cbn [trees]. apply nth_error_app_len.
    - apply (PreserveCopy_WFx_new_empty w (is_typed c) None Ww).
    - exact Nx.
    - intros e [].
    - intros e []. }
  assert (X := refuse_loop c ti deser shash l [] w0 t0 doc I0 D Eg).
  assert (E : fst (op_load w (is_typed c) doc) = MErr Machine.EUnique).
  { unfold op_load. fold ti. fold t0. fold w0. change [0] with (imap []).
    destruct (load_go ti doc w0 (imap [])) as [[r|x] w1]; cbn [fst] in X |- *; [discriminate|exact X]. }
  split; [exact E|]. exact (proj1 (proj2 (load_frame w (is_typed c) doc)) _ E).
Qed.
