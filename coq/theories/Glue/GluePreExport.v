(* Glue: "pre-order" is one order (part: C17 <-> the rows of the mutation machine).  Export.desc_p pairs every
   node below s with its _parent node; as triples that is SurgeryFacts.rows (which GluePreSer.v identifies with
   the serialisation order of C12, and GluePreTraverseSearch.v with C06 / C09). *)
From Coq Require Import List ZArith Bool Arith Lia.
From NT Require Import Sx Rose RoseFacts Surgery SurgeryFacts.
From NT Require Export ExportProofs.
Import ListNotations.

(* C17 <-> rows: Export.desc_p pairs every node below s with its _parent NODE *)
Definition edge_row (pc : rt * rt) : row := (rid (fst pc), rid (snd pc), rinfo (snd pc)).

Theorem desc_p_rows : forall t, map edge_row (Export.desc_p t) = rows (rid t) (rch t).
Proof.
  induction t as [id i ch IH] using rt_ind'. rewrite ExportProofs.desc_p_unfold. cbn [rch].
  assert (G : forall t0, map edge_row (flat_map (fun c => (t0, c) :: Export.desc_p c) ch) = rows (rid t0) ch).
  { intros t0. induction ch as [|c ch IHch]; [reflexivity|]. inversion IH as [|? ? Hc Hcs]; subst. cbn [flat_map map].
    rewrite map_app, (IHch Hcs), rows_t_unfold. cbn [map]. rewrite Hc. reflexivity. }
  apply G.
Qed.

