(* Glue C02 <-> C09: the lookups of the mutation machine (Mut/Lookup.v, on a Machine.tstate) and the
   index path of the search model (Forest/Search.v, on a Search.tstate) give the same answers. *)
From Coq Require Import List ZArith Bool Arith Lia Permutation.
From NT Require Import Sx Rose RoseFacts Surgery SurgeryFacts Machine WF MachineFacts PreserveSteps Lookup QueriesProofs.
From NT Require Search SearchProofs.
Import ListNotations.

(* the search state a machine state induces: same forest, same index; the registry maps the node_id of a
   node (its identity as an int) to the node *)
Definition to_search (t : tstate) : Search.tstate :=
  Search.TS (forest_of t) (map (fun n => (Z.of_nat n, n)) (reg t)) (idx t).

Lemma group_is_idx_get ix d : SearchProofs.group ix d = idx_get d ix.
Proof. unfold SearchProofs.group, Search.idx_get, idx_get. now destruct (find (fun e => did_eqb (fst e) d) ix). Qed.

Lemma search_idx_get ix d : Search.idx_get d ix = if idx_has d ix then Some (idx_get d ix) else None.
Proof.
  unfold Search.idx_get, idx_get, idx_has. induction ix as [|e ix IH]; [reflexivity|]. cbn [find existsb].
  destruct (did_eqb (fst e) d); [reflexivity|exact IH].
Qed.

Lemma search_idx_has ix d : Search.idx_has d ix = idx_has d ix.
Proof. unfold Search.idx_has. rewrite search_idx_get. now destruct (idx_has d ix). Qed.

Lemma reg_get_map z r : Search.reg_get z (map (fun n => (Z.of_nat n, n)) r) =
  match find (fun n => Z.eqb (Z.of_nat n) z) r with Some n => Some n | None => None end.
Proof.
  unfold Search.reg_get. induction r as [|x r IH]; [reflexivity|]. cbn [map find fst]. destruct (Z.eqb (Z.of_nat x) z); [reflexivity|exact IH].
Qed.

Lemma reg_get_node r n : Search.reg_get (Z.of_nat n) (map (fun n => (Z.of_nat n, n)) r) = if existsb (Nat.eqb n) r then Some n else None.
Proof.
  rewrite reg_get_map. induction r as [|x r IH]; [reflexivity|]. cbn [find existsb].
  destruct (Nat.eqb n x) eqn:E.
  - apply Nat.eqb_eq in E. subst x. now rewrite Z.eqb_refl.
  - replace (Z.eqb (Z.of_nat x) (Z.of_nat n)) with false; [exact IH|]. symmetry. apply Z.eqb_neq. apply Nat.eqb_neq in E. lia.
Qed.

(* under WF the induced state satisfies the C09 invariant *)
Theorem to_search_wf t : WF t -> SearchProofs.state_wf (to_search t).
Proof.
  intros W. constructor; cbn [to_search Search.t_forest Search.t_idx Search.t_reg].
  - apply W.
  - intros d. rewrite group_is_idx_get. split; [now apply idx_group_nodup|]. intros n.
    change (SearchProofs.all_by_did (forest_of t) d) with (nodes_with (forest_of t) d).
    split; apply Permutation_in; [|symmetry]; now apply find_all_exact.
  - intros d g H. rewrite search_idx_get in H. destruct (idx_has d (idx t)) eqn:E; [|discriminate]. injection H as <-.
    unfold idx_has in E. apply existsb_exists in E. destruct E as (e & He & Ed). unfold idx_get.
    assert (Ne := proj1 (Forall_forall _ _) (wf_ine t W)).
    destruct (find (fun e0 => did_eqb (fst e0) d) (idx t)) as [e0|] eqn:Ef.
    + apply find_some in Ef. apply Ne. apply Ef.
    + exfalso. assert (X := find_none _ _ Ef e He). cbn in X. congruence.
  - intros z n H. rewrite reg_get_map in H. destruct (find (fun n0 => Z.eqb (Z.of_nat n0) z) (reg t)) as [m|] eqn:Ef; [|discriminate].
    injection H as <-. apply find_some in Ef. apply (Permutation_in _ (wf_reg t W)). apply Ef.
Qed.

(* ---- find_all / find_first ---- *)
Theorem find_all_did_agrees t d k :
  Search.tree_find_all (to_search t) None None (Some d) k = Search.Ok (lk_find_all_did_max t d k).
Proof.
  rewrite (SearchProofs.tree_find_all_index_eq _ None (Some d) d k eq_refl). cbn [to_search Search.t_idx].
  rewrite group_is_idx_get. unfold Search.py_limit, lk_find_all_did_max. now destruct k.
Qed.

Theorem find_all_data_agrees t dat c k : calc_id (calc t) dat = Some c ->
  Search.tree_find_all (to_search t) (Some c) None None k = Search.Ok (lk_find_all_did_max t c k) /\
  lk_find_all_data t dat = Some (lk_find_all_did_max t c 0).
Proof.
  intros E. split.
  - rewrite (SearchProofs.tree_find_all_index_eq _ (Some c) None c k eq_refl). cbn [to_search Search.t_idx].
    rewrite group_is_idx_get. unfold Search.py_limit, lk_find_all_did_max. now destruct k.
  - unfold lk_find_all_data. now rewrite E.
Qed.

Lemma find_first_index t data data_id d : Search.merge_data data data_id = Search.Ok (Some d) ->
  Search.tree_find_first (to_search t) data None data_id None = Search.Ok (lk_find_first_did t d).
Proof.
  intros E. unfold Search.tree_find_first. rewrite E. cbn [to_search Search.t_idx]. rewrite search_idx_get.
  unfold lk_find_first_did. destruct (idx_has d (idx t)) eqn:H.
  - now destruct (idx_get d (idx t)).
  - unfold idx_has in H. unfold idx_get. destruct (find (fun e => did_eqb (fst e) d) (idx t)) as [e|] eqn:Ef; [|reflexivity].
    apply find_some in Ef. assert (existsb (fun e0 => did_eqb (fst e0) d) (idx t) = true); [|congruence].
    apply existsb_exists. now exists e.
Qed.

Theorem find_first_did_agrees t d :
  Search.tree_find_first (to_search t) None None (Some d) None = Search.Ok (lk_find_first_did t d).
Proof. now apply find_first_index. Qed.

Theorem find_first_data_agrees t dat c : calc_id (calc t) dat = Some c ->
  Search.tree_find_first (to_search t) (Some c) None None None = Search.Ok (lk_find_first_did t c) /\
  lk_find_first_data t dat = Some (lk_find_first_did t c).
Proof. intros E. split; [now apply find_first_index|]. unfold lk_find_first_data. now rewrite E. Qed.

Theorem find_first_node_id_agrees t n :
  Search.tree_find_first (to_search t) None None None (Some (Z.of_nat n)) = Search.Ok (lk_find_nodeid t n).
Proof. unfold Search.tree_find_first. cbn [Search.merge_data to_search Search.t_reg]. now rewrite reg_get_node. Qed.

(* ---- __contains__ ---- *)
Theorem contains_agrees t k c : Search.key_calc k = Some c ->
  exists b, Search.contains (to_search t) k = Search.Ok b /\ lk_contains_key t (Some c) = Some b.
Proof.
  intros E. exists (match lk_find_first_did t c with Some _ => true | None => false end). split; [|reflexivity].
  unfold Search.contains. assert (X := find_first_index t (Some c) None c eq_refl).
  destruct k as [[c0|]| | | |]; cbn [Search.key_calc Search.contains] in *; try discriminate; injection E as ->; rewrite X; reflexivity.
Qed.

(* ---- __getitem__ ---- *)
(* the result of the machine lookup in the vocabulary of the search model *)
Definition conv_res (r : res) : Search.res nat :=
  match r with
  | Ok [n] => Search.Ok n
  | Ok _ => Search.Err Search.EModel
  | Err e => Search.Err e
  end.

Definition tail_of (l : list nat) : Search.res nat :=
  match l with [] => Search.Err Search.EKey | [n] => Search.Ok n | _ => Search.Err Search.EAmbiguous end.

Lemma tail_conv l : tail_of l = conv_res (match Some l with
   | None => Err ECrash | Some [] => Err EKey | Some [n] => Ok [n] | Some _ => Err EAmbiguous end).
Proof. destruct l as [|n [|m l]]; reflexivity. Qed.

Lemma find_all_0 t data data_id d : Search.merge_data data data_id = Search.Ok (Some d) ->
  Search.tree_find_all (to_search t) data None data_id 0 = Search.Ok (idx_get d (idx t)).
Proof. intros E. rewrite (SearchProofs.tree_find_all_index_eq _ data data_id d 0 E). cbn [to_search Search.t_idx]. now rewrite group_is_idx_get. Qed.

(* what Tree.__getitem__ of the search model does once the registry did not answer *)
Lemma getitem_index t k c : Search.key_calc k = Some c -> (forall o, k <> Search.KNode o) ->
  match Search.key_as_node_id k with Some z => Search.reg_get z (Search.t_reg (to_search t)) | None => None end = None ->
  Search.getitem (to_search t) k =
  tail_of (match Search.key_as_did k with
           | Some d => if idx_has d (idx t) then idx_get d (idx t) else idx_get c (idx t)
           | None => idx_get c (idx t)
           end).
Proof.
  intros Ec Nn Hr. unfold Search.getitem. rewrite Hr, Ec.
  assert (X1 := fun d => find_all_0 t None (Some d) d eq_refl). assert (X2 := find_all_0 t (Some c) None c eq_refl).
  destruct k as [o| |z c0|s c0|c0]; [exfalso; now apply (Nn o)|discriminate| | |]; cbn [Search.key_as_did Search.key_calc] in *.
  - cbn [to_search Search.t_idx]. rewrite search_idx_has. fold (to_search t).
    destruct (idx_has (DInt z) (idx t)); [rewrite X1|rewrite X2]; unfold tail_of; now destruct (idx_get _ _) as [|n [|m l]].
  - cbn [to_search Search.t_idx]. rewrite search_idx_has. fold (to_search t).
    destruct (idx_has (DStr s) (idx t)); [rewrite X1|rewrite X2]; unfold tail_of; now destruct (idx_get _ _) as [|n [|m l]].
  - rewrite X2. unfold tail_of. now destruct (idx_get _ _) as [|n [|m l]].
Qed.

(* an int key that is the node_id of node n (nobody's data_id), calc_data_id answering c for it *)
Theorem getitem_node_id_agrees t n c : idx_has (DInt (Z.of_nat n)) (idx t) = false ->
  Search.getitem (to_search t) (Search.KInt (Z.of_nat n) c) = conv_res (lk_getitem t (LNid n (Some c))).
Proof.
  intros H. unfold lk_getitem, lk_candidates, lk_find_nodeid. destruct (existsb (Nat.eqb n) (reg t)) eqn:E.
  - unfold Search.getitem. cbn [Search.key_as_node_id to_search Search.t_reg]. now rewrite reg_get_node, E.
  - rewrite (getitem_index t (Search.KInt (Z.of_nat n) c) c eq_refl); [|intros o; discriminate|cbn [Search.key_as_node_id to_search Search.t_reg]; now rewrite reg_get_node, E].
    cbn [Search.key_as_did option_map]. rewrite H. apply tail_conv.
Qed.

(* an int / str key that is not the node_id of a node of the tree *)
Theorem getitem_int_agrees t z c : (forall n, In n (reg t) -> Z.of_nat n <> z) ->
  Search.getitem (to_search t) (Search.KInt z c) = conv_res (lk_getitem t (LDid (DInt z) (Some c))).
Proof.
  intros H. rewrite (getitem_index t (Search.KInt z c) c eq_refl); [|intros o; discriminate|].
  - cbn [Search.key_as_did]. unfold lk_getitem, lk_candidates, lk_find_all_did. cbn [option_map].
    destruct (idx_has (DInt z) (idx t)); apply tail_conv.
  - cbn [Search.key_as_node_id to_search Search.t_reg]. rewrite reg_get_map.
    destruct (find (fun n => Z.eqb (Z.of_nat n) z) (reg t)) as [m|] eqn:Ef; [|reflexivity].
    apply find_some in Ef. destruct Ef as [Hm E]. apply Z.eqb_eq in E. exfalso. now apply (H m).
Qed.

Theorem getitem_str_agrees t s c :
  Search.getitem (to_search t) (Search.KStr s c) = conv_res (lk_getitem t (LDid (DStr s) (Some c))).
Proof.
  rewrite (getitem_index t (Search.KStr s c) c eq_refl); [|intros o; discriminate|reflexivity].
  cbn [Search.key_as_did]. unfold lk_getitem, lk_candidates, lk_find_all_did. cbn [option_map].
  destruct (idx_has (DStr s) (idx t)); apply tail_conv.
Qed.

(* a data object of the universe (not an int / str): through calc_data_id *)
Theorem getitem_data_agrees t dat c : calc_id (calc t) dat = Some c ->
  Search.getitem (to_search t) (Search.KObj c) = conv_res (lk_getitem t (LData dat None)).
Proof.
  intros E. rewrite (getitem_index t (Search.KObj c) c eq_refl); [|intros o; discriminate|reflexivity].
  cbn [Search.key_as_did]. unfold lk_getitem, lk_candidates, lk_find_all_data, lk_find_all_did. rewrite E. apply tail_conv.
Qed.

(* ---- Node.get_clones / is_clone for a node of the tree ---- *)
Lemma node_group t s : WF t -> In s (pre_f (forest_of t)) ->
  did_of (rid s) (forest_of t) = Some (rdid s) /\ idx_has (rdid s) (idx t) = true.
Proof.
  intros W Hs. assert (K := keys_in _ s Hs). split.
  - apply (did_of_keys _ _ _ (wf_nodup t W)). exact K.
  - apply (has_did_exact t W). exists (rid s). split; [unfold ids; now apply in_map|]. apply (did_of_keys _ _ _ (wf_nodup t W)). exact K.
Qed.

Theorem get_clones_agrees t s add_self : WF t -> In s (pre_f (forest_of t)) ->
  Search.node_get_clones (to_search t) s add_self = Search.Ok (lk_get_clones t (rid s) add_self).
Proof.
  intros W Hs. destruct (node_group t s W Hs) as [E1 E2]. unfold Search.node_get_clones, lk_get_clones.
  cbn [to_search Search.t_idx]. rewrite search_idx_get, E1, E2. f_equal. destruct add_self; cbn [orb].
  - symmetry. induction (idx_get (rdid s) (idx t)) as [|x l IH]; [reflexivity|]. cbn [filter]. now rewrite IH.
  - reflexivity.
Qed.

Theorem is_clone_agrees t s : WF t -> In s (pre_f (forest_of t)) ->
  Search.node_is_clone (to_search t) s = Search.Ok (lk_is_clone t (rid s)).
Proof.
  intros W Hs. destruct (node_group t s W Hs) as [E1 E2]. unfold Search.node_is_clone, lk_is_clone.
  cbn [to_search Search.t_idx]. now rewrite search_idx_get, E1, E2.
Qed.
