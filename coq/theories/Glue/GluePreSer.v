(* Glue: "pre-order" is one order (part: C12 <-> the rows of the mutation machine).  Serialize.pre_par pairs
   every pre-order node with its parent's identity; as triples that is SurgeryFacts.rows. *)
From Coq Require Import List ZArith Bool Arith Lia.
From NT Require Import Sx Rose RoseFacts Surgery SurgeryFacts.
From NT Require Serialize.
Import ListNotations.

(* C12 <-> rows: Serialize.pre_par pairs every pre-order node with its parent's identity *)
Definition par_row (pt : nat * rt) : row := (fst pt, rid (snd pt), rinfo (snd pt)).

Lemma pre_par_rows_t : forall t o, map par_row (Serialize.pre_par o t) = rows_t o t.
Proof.
  induction t as [id i ch IH] using rt_ind'. intros o. cbn [Serialize.pre_par rows_t map]. f_equal.
  induction ch as [|c ch IHch]; [reflexivity|]. inversion IH as [|? ? Hc Hcs]; subst. cbn [flat_map]. now rewrite map_app, Hc, (IHch Hcs).
Qed.

Theorem pre_par_rows f o : map par_row (flat_map (Serialize.pre_par o) f) = rows o f.
Proof. induction f as [|t f IH]; [reflexivity|]. cbn [flat_map]. now rewrite map_app, pre_par_rows_t, IH. Qed.

