(* Glue: "pre-order" is one order (part: C10 <-> the rows of the mutation machine): the parent component of a
   row is the parent the navigation model finds.  Imports only generated-fact-free files. *)
From Coq Require Import List ZArith Bool Arith Lia.
From NT Require Import Sx Rose RoseFacts Surgery SurgeryFacts HeapProofs PreserveKeepClones.
From NT Require Nav NavProofs.
Import ListNotations.

(* rows <-> C10: the parent component of a row is the parent the navigation model finds *)
Theorem row_parent_is_nav_parent f : NoDup (ids f) -> ~ In 0 (ids f) -> forall r, In r (rows 0 f) ->
  exists c, Nav.locate_f (r_id r) f = Some c /\ rid (Nav.c_self c) = r_id r /\ rinfo (Nav.c_self c) = r_info r /\
            r_par r = match Nav.q_parent c with Some p => rid p | None => 0 end.
Proof.
  intros ND Z [[p n] i] Hr. cbn [r_id r_par r_info fst snd].
  assert (Hn : In n (ids f)) by (change n with (r_id (p, n, i)); now apply (rows_id_in f 0)).
  destruct (NavProofs.locate_f_complete f n Hn) as (c & L). destruct (NavProofs.locate_f_ok f n c L) as [Ok Rn].
  exists c. refine (conj L (conj Rn _)). assert (P := NavProofs.ctx_path f c Ok).
  (* the row of the located node, by its path *)
  assert (Hrow : In (match Nav.c_anc c with a :: _ => rid a | [] => 0 end, rid (Nav.c_self c), rinfo (Nav.c_self c)) (rows 0 f)).
  { destruct P as [s Hs|s a anc Hs Ha].
    - apply in_flat_map. exists s. split; [assumption|]. rewrite rows_t_unfold. now left.
    - assert (Ia : In a (pre_f f)).
      { clear -Ha. induction Ha as [t Ht|t q anc Ht Hq IH]; [now apply in_pre_f_top|now apply (pre_f_child_closed f q)]. }
      now apply (proj2 PreserveKeepClones.rows_child_of f 0 a s). }
  rewrite Rn in Hrow.
  assert (NDR : NoDup (map r_id (rows 0 f))) by (now rewrite rows_ids).
  assert (E := NoDup_map_inj r_id _ _ _ NDR Hr Hrow eq_refl). injection E as -> ->.
  split; [reflexivity|]. unfold Nav.q_parent. now destruct (Nav.c_anc c).
Qed.
