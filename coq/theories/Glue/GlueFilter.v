(* Glue C08 <-> C04/C07: Tree.filtered() (the copying form of Forest/Filter.v, [add_filtered]) against
   "copy the tree, then filter the copy in place" as the mutation machine does it (Machine.copy_f of
   Tree.copy, then op_filter = F by C04_filter).  They agree modulo node identity and modulo [dbl] - the
   leaf copies the copying form adds (defect D24, pinned by the suite). *)
From Coq Require Import List ZArith Bool Arith Lia.
From NT Require Import Sx Rose ListFacts RoseFacts Surgery SurgeryFacts Machine WF MachineFacts PreserveSteps PreserveCopy Invariant
  Effects HeapRemove EffectsMore.
From NT Require Filter FilterProofs.
Import ListNotations.

Section Ren.
  Variables (v v' : nat -> Filter.verdict).

  (* the same tree under a renumbering that carries the verdicts along *)
  Inductive Ren : rt -> rt -> Prop :=
  | ren id i ch id' ch' : v id = v' id' -> Forall2 Ren ch ch' -> Ren (T id i ch) (T id' i ch').

  Lemma Ren_erase : forall a b, Ren a b -> Filter.erase a = Filter.erase b.
  Proof.
    induction a as [id i ch IH] using rt_ind'. intros b H. inversion H as [id0 i0 ch0 id' ch' Ev F]; subst. cbn [Filter.erase]. f_equal.
    clear H Ev. revert ch' F. induction ch as [|c ch IHch]; intros ch' F; inversion F as [|? y ? l' Hc Hl]; subst; [reflexivity|].
    inversion IH as [|? ? H1 H2]; subst. cbn [map]. f_equal; [now apply H1|now apply IHch].
  Qed.

  Lemma Ren_erase_f a b : Forall2 Ren a b -> map Filter.erase a = map Filter.erase b.
  Proof. induction 1 as [|x y l l' H F IH]; [reflexivity|]. cbn [map]. f_equal; [now apply Ren_erase|exact IH]. Qed.

  (* F commutes with the renumbering *)
  Definition FRen (t : rt) : Prop := forall t' s, Ren t t' ->
    snd (Filter.F_t v s t) = snd (Filter.F_t v' s t') /\
    match fst (Filter.F_t v s t), fst (Filter.F_t v' s t') with
    | Some a, Some b => Ren a b
    | None, None => True
    | _, _ => False
    end.

  Lemma F_ren_f l : Forall FRen l -> forall l' s, Forall2 Ren l l' ->
    snd (Filter.F_f v s l) = snd (Filter.F_f v' s l') /\ Forall2 Ren (fst (Filter.F_f v s l)) (fst (Filter.F_f v' s l')).
  Proof.
    induction 1 as [|x l Hx Hl IH]; intros l' s F; inversion F as [|? y ? l0 Hxy Fl]; subst; [split; [reflexivity|constructor]|].
    rewrite !FilterProofs.F_f_cons. cbn [fst snd]. destruct (Hx y s Hxy) as [Es Eo]. rewrite <- Es.
    destruct (IH l0 (snd (Filter.F_t v s x)) Fl) as [Es2 Ef2]. split; [exact Es2|].
    destruct (fst (Filter.F_t v s x)), (fst (Filter.F_t v' s y)); try contradiction; cbn [Filter.ocons]; [now constructor|exact Ef2].
  Qed.

  Lemma F_ren : forall t, FRen t.
  Proof.
    induction t as [id i ch IH] using rt_ind'. intros t' s H. inversion H as [id0 i0 ch0 id' ch' Ev F]; subst.
    rewrite !FilterProofs.F_t_unfold. destruct s; [split; [reflexivity|exact Logic.I]|]. cbv zeta. rewrite <- Ev.
    destruct (F_ren_f ch IH ch' false F) as [Es Ef].
    assert (Hc : forall c c', Forall2 Ren c c' -> Ren (T id i c) (T id' i c')) by (intros; now constructor).
    destruct (v id); cbn [fst snd].
    - split; [exact Es|now apply Hc].
    - split; [exact Es|].
      assert (En : Filter.is_nil (fst (Filter.F_f v false ch)) = Filter.is_nil (fst (Filter.F_f v' false ch'))) by (now destruct Ef).
      rewrite <- En. destruct (Filter.is_nil (fst (Filter.F_f v false ch))); [exact Logic.I|now apply Hc].
    - split; [reflexivity|exact Logic.I].
    - split; [reflexivity|]. apply Hc. constructor.
    - split; [reflexivity|now apply Hc].
    - split; [reflexivity|exact Logic.I].
  Qed.

  Theorem F_commutes_with_renumbering f f' : Forall2 Ren f f' -> Forall2 Ren (Filter.F v f) (Filter.F v' f').
  Proof. intros H. apply (F_ren_f f (proj2 (Forall_forall _ _) (fun t _ => F_ren t)) f' false H). Qed.

  (* ... and so does the doubling of the copying form *)
  Lemma dbl_ren mk : forall a b, Ren a b -> Filter.erase (Filter.dbl_t v mk a) = Filter.erase (Filter.dbl_t v' mk b).
  Proof.
    induction a as [id i ch IH] using rt_ind'. intros b H. inversion H as [id0 i0 ch0 id' ch' Ev F]; subst. cbn [Filter.dbl_t]. rewrite <- Ev.
    assert (Em : map Filter.erase (map (Filter.dbl_t v mk) ch) = map Filter.erase (map (Filter.dbl_t v' mk) ch')).
    { clear H Ev. revert ch' F. induction ch as [|c ch IHch]; intros ch' F; inversion F as [|? y ? l' Hc Hl]; subst; [reflexivity|].
      inversion IH as [|? ? H1 H2]; subst. cbn [map]. f_equal; [now apply H1|now apply IHch]. }
    destruct (v id); cbn [Filter.erase map]; try (now rewrite Em); f_equal.
    now apply Ren_erase_f.
  Qed.

  Lemma dbl_ren_f mk a b : Forall2 Ren a b ->
    map Filter.erase (Filter.dbl v mk a) = map Filter.erase (Filter.dbl v' mk b).
  Proof. unfold Filter.dbl. induction 1 as [|x y l l' H F IH]; [reflexivity|]. cbn [map]. f_equal; [now apply dbl_ren|exact IH]. Qed.
End Ren.

(* ---- the machine's copy is such a renumbering ---- *)
Definition cpi (kk : bool) (dk : kind) (i : info) : info :=
  I (i_obj i) (i_eqc i) (i_hash i) (i_isstr i) (i_name i) (i_did i) (if kk then i_kind i else dk) [].

Lemma ids_t_length t : length (ids_t t) = size t.
Proof. unfold ids_t. rewrite map_length. apply size_pre. Qed.

Section Copy.
  Variables (v v' : nat -> Filter.verdict) (kk : bool) (dk : kind).

  Lemma copy_ren :
    (forall t n, (forall k, k < size t -> v' (n + k) = v (nth k (ids_t t) 0)) ->
                 (forall x, In x (pre t) -> cpi kk dk (rinfo x) = rinfo x) -> Ren v v' t (fst (copy_t kk dk n t))) /\
    (forall f n, (forall k, k < size_f f -> v' (n + k) = v (nth k (ids f) 0)) ->
                 (forall x, In x (pre_f f) -> cpi kk dk (rinfo x) = rinfo x) -> Forall2 (Ren v v') f (fst (copy_f kk dk n f))).
  Proof.
    apply rt_forest_ind.
    - intros id i ch IH n H Hcp. rewrite copy_t_unfold. cbv zeta. cbn [fst].
      fold (cpi kk dk i). assert (E := Hcp (T id i ch) ltac:(rewrite pre_unfold; now left)). cbn [rinfo] in E. rewrite E.
      constructor.
      + rewrite <- (Nat.add_0_r n) at 1. rewrite (H 0) by (rewrite size_unfold; lia). now rewrite ids_t_unfold.
      + apply IH.
        * intros k Hk. replace (S n + k) with (n + S k) by lia. rewrite (H (S k)) by (rewrite size_unfold; lia). now rewrite ids_t_unfold.
        * intros x Hx. apply Hcp. rewrite pre_unfold. now right.
    - intros n _ _. constructor.
    - intros c f IHc IHf n H Hcp. cbn [copy_f]. assert (Sp := proj1 (proj1 copy_spec c kk dk n)).
      assert (X := IHc n). destruct (copy_t kk dk n c) as [c' n1]. cbn [fst snd] in *.
      assert (Y := IHf n1). destruct (copy_f kk dk n1 f) as [r' n2]. cbn [fst] in *.
      assert (Ei : ids (c :: f) = ids_t c ++ ids f) by (unfold ids, ids_t; cbn [flat_map]; now rewrite map_app).
      constructor.
      + apply X.
        * intros k Hk. rewrite (H k) by (rewrite size_f_cons; lia). rewrite Ei, app_nth1; [reflexivity|]. now rewrite ids_t_length.
        * intros x Hx. apply Hcp. cbn [flat_map]. apply in_or_app. now left.
      + apply Y.
        * intros k Hk. subst n1. rewrite <- Nat.add_assoc, (H (size c + k)) by (rewrite size_f_cons; lia).
          rewrite Ei, app_nth2 by (rewrite ids_t_length; lia). rewrite ids_t_length. f_equal. f_equal. lia.
        * intros x Hx. apply Hcp. cbn [flat_map]. apply in_or_app. now right.
  Qed.
End Copy.

(* ---- Tree.copy() followed by the in-place filter of the copy, on the machine ---- *)
Theorem copy_then_filter_is_filtered w sti st vd r w2 (v : nat -> Filter.verdict) (mk : info -> info) :
  WFw w -> get_tree w sti = Some st ->
  (* the predicate answers for the copy of a node what it answers for the node *)
  (forall k, k < size_f (forest_of st) -> vof vd (next w + k) = v (nth k (ids (forest_of st)) 0)) ->
  (* payloads that Tree.copy() reproduces as they are (no meta; the kind is kept in a typed tree) *)
  (forall x, In x (pre_f (forest_of st)) -> cpi (typed st) None (rinfo x) = rinfo x) ->
  let w1 := snd (op_tree_copy w sti) in
  let tj := length (trees w) in
  op_filter w1 tj 0 vd = (Ok r, w2) ->
  exists t1 t2,
    get_tree w1 tj = Some t1 /\ Forall2 (Ren v (vof vd)) (forest_of st) (forest_of t1) /\
    get_tree w2 tj = Some t2 /\ forest_of t2 = Filter.F (vof vd) (forest_of t1) /\
    (* copy ; filter = F of the source, modulo identity *)
    Filter.same_modulo_ids (forest_of t2) (Filter.F v (forest_of st)) /\
    (* Tree.filtered() = that, modulo identity and the leaf copies of D24 *)
    Filter.same_modulo_ids (Filter.filtered v mk (forest_of st)) (Filter.dbl (vof vd) mk (forest_of t2)) /\
    (* the source is untouched *)
    get_tree w2 sti = Some st.
Proof.
  intros Ww Gs Hv Hcp w1 tj Ef. assert (W1 : WFw w1) by (apply (WFw_step w (OTreeCopy sti) Ww)).
  assert (Lt : sti < tj) by (apply nth_error_Some; unfold get_tree in Gs; congruence).
  unfold w1, op_tree_copy in *. rewrite Gs in *.
  assert (R := proj2 (copy_ren v (vof vd) (typed st) None) (forest_of st) (next w) Hv Hcp).
  destruct (copy_f (typed st) None (next w) (forest_of st)) as [kids n'] eqn:Ec. cbn [fst] in R.
  destruct (register_all (pre_f kids) [] []) as [r' ix'] eqn:Er. cbn [snd] in *.
  set (t1 := TS kids r' ix' (typed st) None) in *.
  set (w1' := W (trees w ++ [t1]) n') in *.
  assert (G1 : get_tree w1' tj = Some t1) by (unfold get_tree, w1', tj; cbn [trees]; apply nth_error_app_len).
  assert (Gs1 : get_tree w1' sti = Some st) by (unfold get_tree, w1'; cbn [trees]; rewrite nth_error_app1 by exact Lt; exact Gs).
  destruct (filter_effect w1' tj 0 vd r w2 W1 Ef) as (t1' & t2 & pq & ch & Gt1 & Gt2 & Gp & Gc & F2 & _ & _ & O).
  assert (t1' = t1) by congruence. subst t1'. cbn [parent_path Nat.eqb] in Gp. injection Gp as <-. cbn [get_ch upd_ch] in Gc, F2. injection Gc as <-.
  exists t1, t2. cbn [forest_of t1] in *.
  assert (RF := F_commutes_with_renumbering v (vof vd) _ _ R).
  refine (conj G1 (conj R (conj Gt2 (conj F2 (conj _ (conj _ _)))))).
  - unfold Filter.same_modulo_ids. rewrite F2. symmetry. now apply (Ren_erase_f v (vof vd)).
  - unfold Filter.same_modulo_ids. rewrite (FilterProofs.filtered_is_dbl_F v mk (forest_of st)). rewrite F2. now apply (dbl_ren_f v (vof vd)).
  - rewrite O by lia. exact Gs1.
Qed.
