(* Glue: "pre-order" is one order (part 1: C06 <-> C09 <-> the rows of the mutation machine).
   Every enumeration is tied to pre / pre_f of Base/Rose.v in its own theory (TraverseProofs.iter_pre_eq,
   SearchProofs.iter_pre_eq / iterator_branch, SurgeryFacts.rows_ids / rows_keys); here the direct links.
   Imports only generated-fact-free files. *)
From Coq Require Import List ZArith Bool Arith Lia.
From NT Require Import Sx Rose RoseFacts Surgery SurgeryFacts.
From NT Require Traverse TraverseProofs Search SearchProofs.
Import ListNotations.

(* C06 <-> C09: the two generators are the same function *)
Theorem traverse_iter_pre_is_search_iter_pre t : Traverse.iter_pre t = Search.iter_pre t.
Proof. now rewrite TraverseProofs.iter_pre_eq, SearchProofs.iter_pre_eq. Qed.

Theorem search_iterator_is_traverse f s b :
  Search.iterator f s b =
  match s with
  | Search.SRoot => pre_f f
  | Search.SNode t => (if b then [t] else []) ++ Traverse.iter_pre t
  end.
Proof. destruct s as [|t]; cbn [Search.iterator]; [apply SearchProofs.iter_pre_ch_eq|f_equal; symmetry; apply traverse_iter_pre_is_search_iter_pre]. Qed.

(* rows <-> Rose: the rows are the pre-order nodes, payload included *)
Definition row_node (r : row) : nat * info := (r_id r, r_info r).
Definition node_pair (t : rt) : nat * info := (rid t, rinfo t).

Lemma rows_nodes_t : forall t o, map row_node (rows_t o t) = map node_pair (pre t).
Proof.
  induction t as [id i ch IH] using rt_ind'. intros o. cbn [rows_t pre map]. f_equal.
  induction ch as [|c ch IHch]; [reflexivity|]. inversion IH as [|? ? Hc Hcs]; subst. cbn [flat_map]. now rewrite !map_app, Hc, (IHch Hcs).
Qed.

Theorem rows_nodes f o : map row_node (rows o f) = map node_pair (pre_f f).
Proof. induction f as [|t f IH]; [reflexivity|]. cbn [flat_map]. now rewrite !map_app, rows_nodes_t, IH. Qed.

