(* Glue: "pre-order" is one order.  The enumerations of the different models, pairwise:
     Base/Rose.v            pre / pre_f                    (nodes)
     Forest/Traverse.v      iter_pre                       (C06)     = pre_f (rch t)     [TraverseProofs.iter_pre_eq]
     Forest/Search.v        iter_pre, iterator             (C09)     = pre_f (rch t)     [SearchProofs.iter_pre_eq, iterator_branch]
     Forest/Export.v        desc_p  (parent, child) pairs  (C17)     snd = pre_f (rch t) [ExportProofs.desc_p_snd]
     Forest/Serialize.v     pre_par (parent id, node), lay (C12)     nodes = pre         [SerLayFacts.lay_nodes, lay4_pn]
     Mut/SurgeryFacts.v     rows    (parent id, id, payload) (C01-C04, C13, heap) ids = ids [rows_ids, rows_keys]
   Already connected to Rose.v (in brackets).  Connected here: the pairs among the non-Rose ones, with the
   parent component included (rows = pre_par = desc_p, not only the node sequence). *)
From Coq Require Import List ZArith Bool Arith Lia.
From NT Require Import Sx Rose RoseFacts Surgery SurgeryFacts HeapProofs PreserveKeepClones.
From NT Require Traverse TraverseProofs Search SearchProofs Export ExportProofs Serialize SerLayFacts Nav NavProofs.
Import ListNotations.

(* C06 <-> C09: the two generators are the same function *)
Theorem traverse_iter_pre_is_search_iter_pre t : Traverse.iter_pre t = Search.iter_pre t.
Proof. now rewrite TraverseProofs.iter_pre_eq, SearchProofs.iter_pre_eq. Qed.

Theorem search_iterator_is_traverse f s b :
  Search.iterator f s b =
  match s with
  | Search.SRoot => pre_f f
  | Search.SNode t => (if b then [t] else []) ++ Traverse.iter_pre t
  end.
Proof. destruct s as [|t]; cbn [Search.iterator]; [apply SearchProofs.iter_pre_ch_eq|f_equal; symmetry; apply traverse_iter_pre_is_search_iter_pre]. Qed.

(* rows <-> Rose: the rows are the pre-order nodes, payload included *)
Definition row_node (r : row) : nat * info := (r_id r, r_info r).
Definition node_pair (t : rt) : nat * info := (rid t, rinfo t).

Lemma rows_nodes_t : forall t o, map row_node (rows_t o t) = map node_pair (pre t).
Proof.
  induction t as [id i ch IH] using rt_ind'. intros o. cbn [rows_t pre map]. f_equal.
  induction ch as [|c ch IHch]; [reflexivity|]. inversion IH as [|? ? Hc Hcs]; subst. cbn [flat_map]. now rewrite !map_app, Hc, (IHch Hcs).
Qed.

Theorem rows_nodes f o : map row_node (rows o f) = map node_pair (pre_f f).
Proof. induction f as [|t f IH]; [reflexivity|]. cbn [flat_map]. now rewrite !map_app, rows_nodes_t, IH. Qed.

(* C12 <-> rows: Serialize.pre_par pairs every pre-order node with its parent's identity *)
Definition par_row (pt : nat * rt) : row := (fst pt, rid (snd pt), rinfo (snd pt)).

Lemma pre_par_rows_t : forall t o, map par_row (Serialize.pre_par o t) = rows_t o t.
Proof.
  induction t as [id i ch IH] using rt_ind'. intros o. cbn [Serialize.pre_par rows_t map]. f_equal.
  induction ch as [|c ch IHch]; [reflexivity|]. inversion IH as [|? ? Hc Hcs]; subst. cbn [flat_map]. now rewrite map_app, Hc, (IHch Hcs).
Qed.

Theorem pre_par_rows f o : map par_row (flat_map (Serialize.pre_par o) f) = rows o f.
Proof. induction f as [|t f IH]; [reflexivity|]. cbn [flat_map]. now rewrite map_app, pre_par_rows_t, IH. Qed.

(* C17 <-> rows: Export.desc_p pairs every node below s with its _parent NODE *)
Definition edge_row (pc : rt * rt) : row := (rid (fst pc), rid (snd pc), rinfo (snd pc)).

Theorem desc_p_rows : forall t, map edge_row (Export.desc_p t) = rows (rid t) (rch t).
Proof.
  induction t as [id i ch IH] using rt_ind'. rewrite ExportProofs.desc_p_unfold. cbn [rch].
  assert (G : forall t0, map edge_row (flat_map (fun c => (t0, c) :: Export.desc_p c) ch) = rows (rid t0) ch).
  { intros t0. induction ch as [|c ch IHch]; [reflexivity|]. inversion IH as [|? ? Hc Hcs]; subst. cbn [flat_map map].
    rewrite map_app, (IHch Hcs), rows_t_unfold. cbn [map]. rewrite Hc. reflexivity. }
  apply G.
Qed.

(* C17 <-> C12 *)
Theorem desc_p_pre_par t :
  map edge_row (Export.desc_p t) = map par_row (flat_map (Serialize.pre_par (rid t)) (rch t)).
Proof. now rewrite desc_p_rows, pre_par_rows. Qed.

(* rows <-> C10: the parent component of a row is the parent the navigation model finds *)
Theorem row_parent_is_nav_parent f : NoDup (ids f) -> ~ In 0 (ids f) -> forall r, In r (rows 0 f) ->
  exists c, Nav.locate_f (r_id r) f = Some c /\ rid (Nav.c_self c) = r_id r /\ rinfo (Nav.c_self c) = r_info r /\
            r_par r = match Nav.q_parent c with Some p => rid p | None => 0 end.
Proof.
  intros ND Z [[p n] i] Hr. cbn [r_id r_par r_info fst snd].
  assert (Hn : In n (ids f)) by (change n with (r_id (p, n, i)); now apply (rows_id_in f 0)).
  destruct (NavProofs.locate_f_complete f n Hn) as (c & L). destruct (NavProofs.locate_f_ok f n c L) as [Ok Rn].
  exists c. refine (conj L (conj Rn _)). assert (P := NavProofs.ctx_path f c Ok).
  (* the row of the located node, by its path *)
  assert (Hrow : In (match Nav.c_anc c with a :: _ => rid a | [] => 0 end, rid (Nav.c_self c), rinfo (Nav.c_self c)) (rows 0 f)).
  { destruct P as [s Hs|s a anc Hs Ha].
    - apply in_flat_map. exists s. split; [assumption|]. rewrite rows_t_unfold. now left.
    - assert (Ia : In a (pre_f f)).
      { clear -Ha. induction Ha as [t Ht|t q anc Ht Hq IH]; [now apply in_pre_f_top|now apply (pre_f_child_closed f q)]. }
      now apply (proj2 PreserveKeepClones.rows_child_of f 0 a s). }
  rewrite Rn in Hrow.
  assert (NDR : NoDup (map r_id (rows 0 f))) by (now rewrite rows_ids).
  assert (E := NoDup_map_inj r_id _ _ _ NDR Hr Hrow eq_refl). injection E as -> ->.
  split; [reflexivity|]. unfold Nav.q_parent. now destruct (Nav.c_anc c).
Qed.
