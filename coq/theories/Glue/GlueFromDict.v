(* Glue C04/C01 <-> C14: Node.from_dict / Tree.from_dict of the mutation machine (Mut/Machine.v, items =
   data objects with an optional explicit data_id) and of the dict-list model (Forest/DictList.v, items =
   JSON dicts read through a deserialisation step [dd]) build the same forest and refuse the same inputs. *)
From Coq Require Import List ZArith Bool Arith Lia Permutation.
From NT Require Import Sx Rose ListFacts RoseFacts Surgery SurgeryFacts Machine WF MachineFacts PreserveSteps PreserveOps
  Effects EffectsClones Refusal Heap HeapProofs HeapMore HeapFromDict EffectsMore.
From NT Require DictList DictListProofs SearchProofs.
Import ListNotations.
Local Notation inl := Datatypes.inl.

Section Glue.
  Variable dd : DictList.dmapper.
  Variable dcalc : info -> DictList.res did.
  Variable cs : calcspec.

  (* the payload the deserialisation step builds is the data object of the machine item *)
  Definition info_of_dat (d : dat) (i0 : info) : Prop :=
    i_obj i0 = d_obj d /\ i_eqc i0 = d_eqc d /\ i_hash i0 = d_hash d /\ i_isstr i0 = d_isstr d /\ i_name i0 = d_name d.

  (* [enc it p]: the decoded JSON item p says what the machine item it says: same data object, same
     explicit data_id (or none), no explicit node_id, the tree's calc_data_id answers alike, same children *)
  Inductive enc : ditem -> DictList.pt -> Prop :=
  | enc_item d e ch dj kids i0 d' :
      dd dj = inl (i0, d') -> info_of_dat d i0 ->
      DictList.dget DictList.k_data_id d' = option_map DictList.jv_of_did e ->
      DictList.dget DictList.k_node_id d' = None ->
      dcalc i0 = match calc_id cs d with Some id => inl id | None => inr DictList.E_CRASH end ->
      Forall2 enc ch kids -> enc (DI d e ch) (DictList.PT dj kids).

  Lemma existsb_did id l : existsb (did_eqb id) l = true <-> In id l.
  Proof.
    rewrite existsb_exists. split; [intros (x & Hx & E); apply did_eqb_eq in E; now subst|].
    intros H. exists id. split; [assumption|apply did_eqb_refl].
  Qed.

  Lemma enc_nids it : forall p, enc it p -> DictList.nids dd p = [].
  Proof. induction it as [d e ch IH] using ditem_ind'. intros p H.
    inversion H as [d0 e0 ch0 dj kids i0 d' E1 E2 E3 E4 E5 F]; subst. cbn [DictList.nids]. rewrite E1, E4. cbn [DictList.nid_of app].
    clear -IH F. induction F as [|x y l l' Hxy F IHF]; [reflexivity|]. inversion IH as [|? ? Hx Hl]; subst.
    cbn [flat_map]. now rewrite (Hx y Hxy), (IHF Hl).
  Qed.

  (* one item of the dict-list model, read through [enc] *)
  Lemma enc_outcome d e ch dj kids seen used : enc (DI d e ch) (DictList.PT dj kids) ->
    DictList.fd_item dd dcalc (DictList.PT dj kids) seen used =
    match (match e with Some x => Some x | None => calc_id cs d end) with
    | None => inr DictList.E_CRASH
    | Some id => if existsb (did_eqb id) seen then inr DictList.E_UNIQUE
                 else match DictList.fd_loop dd dcalc kids [] used with
                      | inr ez => inr ez
                      | inl ch0 => inl (T 0 (mk_info d id None []) ch0)
                      end
    end.
  Proof.
    intros H. inversion H as [d0 e0 ch0 dj0 kids0 i0 d' E1 E2 E3 E4 E5 F]; subst.
    rewrite DictListProofs.fd_item_PT, E1, E3, E4. unfold DictList.nid_check. cbn [DictList.nid_of DictList.opt_list]. rewrite app_nil_r.
    destruct E2 as (A1 & A2 & A3 & A4 & A5).
    destruct e as [[z|s]|]; cbn [option_map DictList.jv_of_did DictList.did_early DictList.did_for].
    - destruct (existsb (did_eqb (DInt z)) seen); [reflexivity|]. destruct (DictList.fd_loop dd dcalc kids [] used); [|reflexivity].
      unfold DictList.mk_info, mk_info. now rewrite A1, A2, A3, A4, A5.
    - destruct (existsb (did_eqb (DStr s)) seen); [reflexivity|]. destruct (DictList.fd_loop dd dcalc kids [] used); [|reflexivity].
      unfold DictList.mk_info, mk_info. now rewrite A1, A2, A3, A4, A5.
    - rewrite E5. destruct (calc_id cs d) as [id|]; [|reflexivity].
      destruct (existsb (did_eqb id) seen); [reflexivity|]. destruct (DictList.fd_loop dd dcalc kids [] used); [|reflexivity].
      unfold DictList.mk_info, mk_info. now rewrite A1, A2, A3, A4, A5.
  Qed.

  Lemma renum_rdid m x : rdid (fst (DictList.renum m x)) = rdid x.
  Proof. destruct x as [id i ch]. now rewrite DictListProofs.renum_unfold. Qed.

  (* the two runs side by side *)
  Definition Agree (mr : res * world) (dr : DictList.res (list rt)) (w : world) (ti : nat) (pq : path) (m : nat)
             (renumbered : list rt -> list rt * nat) : Prop :=
    match mr, dr with
    | (Ok _, w'), inl xs0 =>
        exists t t', get_tree w ti = Some t /\ get_tree w' ti = Some t' /\
          forest_of t' = upd_ch pq (fun c => c ++ fst (renumbered xs0)) (forest_of t) /\
          next w' = S (snd (renumbered xs0)) /\ typed t' = false /\ calc t' = cs /\ WFw w' /\
          (forall tj, tj <> ti -> get_tree w' tj = get_tree w tj)
    | (Err e, _), inr ez => ez = Z.of_nat e
    | _, _ => False
    end.

  Definition GlueItem (it : ditem) : Prop :=
    forall pitem, enc it pitem -> forall ti p w t pq c used m, WFw w -> get_tree w ti = Some t -> typed t = false -> calc t = cs ->
      parent_path p (forest_of t) = Some pq -> get_ch pq (forest_of t) = Some c -> next w = S m ->
      Agree (from_dict_item ti p it w)
            (match DictList.fd_item dd dcalc pitem (map rdid c) used with inl x0 => inl [x0] | inr e => inr e end)
            w ti pq m (DictList.renum_f m).

  Lemma glue_items l ps : Forall2 enc l ps -> Forall GlueItem l ->
    forall ti p w t pq c used m, WFw w -> get_tree w ti = Some t -> typed t = false -> calc t = cs ->
      parent_path p (forest_of t) = Some pq -> get_ch pq (forest_of t) = Some c -> next w = S m ->
      Agree (seq_items (from_dict_item ti p) l w) (DictList.fd_loop dd dcalc ps (map rdid c) used) w ti pq m (DictList.renum_f m).
  Proof.
    induction 1 as [|x y l ps Hxy F IH]; intros G ti p w t pq c used m W Gt Ty Ca Gp Gc Nx.
    - cbn [seq_items DictList.fd_loop Agree DictList.renum_f fst snd]. exists t, t.
      refine (conj Gt (conj Gt (conj _ (conj Nx (conj Ty (conj Ca (conj W (fun _ _ => eq_refl)))))))).
      rewrite (upd_ch_const pq _ c _ Gc), app_nil_r. symmetry. now apply upd_ch_same.
    - inversion G as [|? ? Gx Gl]; subst. cbn [seq_items DictList.fd_loop].
      assert (X := Gx y Hxy ti p w t pq c used m W Gt Ty Ca Gp Gc Nx). unfold Agree in X.
      destruct (from_dict_item ti p x w) as [[r1|e1] w1], (DictList.fd_item dd dcalc y (map rdid c) used) as [x0|ez]; try contradiction.
      2:{ exact X. }
      destruct X as (t0 & t1 & Gt0 & Gt1 & F1 & N1 & Ty1 & Ca1 & W1 & O1). assert (t0 = t) by congruence. subst t0.
      rewrite DictListProofs.renum_f_cons in F1, N1. cbn [DictList.renum_f fst snd] in F1, N1.
      set (x1 := fst (DictList.renum m x0)) in *. set (m1 := snd (DictList.renum m x0)) in *.
      assert (Gp1 : parent_path p (forest_of t1) = Some pq) by (rewrite F1; now apply parent_path_stable).
      assert (Gc1 : get_ch pq (forest_of t1) = Some (c ++ [x1])) by (rewrite F1; exact (get_ch_upd_ch pq (fun c => c ++ [x1]) _ c Gc)).
      assert (Y := IH Gl ti p w1 t1 pq (c ++ [x1]) (used ++ DictList.nids dd y) m1 W1 Gt1 Ty1 Ca1 Gp1 Gc1 N1).
      rewrite map_app in Y. cbn [map] in Y. unfold x1 in Y at 1. rewrite renum_rdid in Y. unfold Agree in Y |- *.
      destruct (seq_items (from_dict_item ti p) l w1) as [[r2|e2] w2], (DictList.fd_loop dd dcalc ps (map rdid c ++ [rdid x0]) (used ++ DictList.nids dd y)) as [xs0|ez]; try contradiction; [|exact Y].
      destruct Y as (t1' & t2 & Gt1' & Gt2 & F2 & N2 & Ty2 & Ca2 & W2 & O2). assert (t1' = t1) by congruence. subst t1'.
      exists t, t2. rewrite DictListProofs.renum_f_cons. cbn [fst snd]. fold x1 m1.
      refine (conj Gt (conj Gt2 (conj _ (conj N2 (conj Ty2 (conj Ca2 (conj W2 _))))))).
      + rewrite F2, F1, upd_ch_comp, (upd_ch_const pq _ c _ Gc). symmetry. rewrite (upd_ch_const pq _ c _ Gc). now rewrite <- app_assoc.
      + intros tj Hj. rewrite (O2 tj Hj). now apply O1.
  Qed.

  Lemma glue_item : forall it, GlueItem it.
  Proof.
    induction it as [d e ch IH] using ditem_ind'. intros pitem He ti p w t pq c used m W Gt Ty Ca Gp Gc Nx.
    inversion He as [d0 e0 ch0 dj kids i0 d' E1 E2 E3 E4 E5 F]; subst pitem d0 e0 ch0.
    rewrite (enc_outcome d e ch dj kids _ used He), from_dict_item_eq.
    assert (W1 := WFw_op_add w ti p d e None BNone W). unfold op_add in *. rewrite Gt, Gp, Gc in *. cbn [norm_before before_ok negb] in *.
    assert (Wt := WFw_tree w ti t W Gt).
    rewrite Ca in *.
    destruct (match e with Some e0 => Some e0 | None => calc_id cs d end) as [id|] eqn:Eid; [|exact eq_refl].
    assert (Ecol : collides t p id = existsb (did_eqb id) (map rdid c)).
    { destruct (collides t p id) eqn:Col; symmetry.
      - apply existsb_did. now apply (collides_sound t p pq c id Wt Gp Gc).
      - destruct (existsb (did_eqb id) (map rdid c)) eqn:Ex; [|reflexivity]. apply existsb_did in Ex.
        rewrite (collides_complete t p pq c id Wt Gp Gc Ex) in Col. discriminate. }
    rewrite <- Ecol. destruct (collides t p id); [exact eq_refl|]. cbn [snd] in W1.
    set (n := next w) in *. set (inf := mk_info d id (default_kind t None) []).
    assert (Ek : inf = mk_info d id None []) by (unfold inf, default_kind; now rewrite Ty).
    set (f1 := upd_ch pq (place NApp (T n inf [])) (forest_of t)) in *.
    assert (F1 : f1 = upd_ch pq (fun c => c ++ [T n inf []]) (forest_of t)).
    { unfold f1. rewrite (upd_ch_const pq _ c _ Gc). symmetry. rewrite (upd_ch_const pq _ c _ Gc). now rewrite place_append. }
    set (t1 := set_all t f1 (reg t ++ [n]) (idx_add id n (idx t))) in *.
    assert (Gt1 : get_tree (put_tree (bump w 1) ti t1) ti = Some t1) by (apply (get_put_same _ _ t); exact Gt).
    assert (Fn : ~ In n (ids (forest_of t))) by (intros Y; apply (WFw_tree_lt w ti t n W Gt) in Y; unfold n in Y; lia).
    assert (Nz : n <> 0) by (unfold n; lia).
    assert (Gp1 : parent_path n (forest_of t1) = Some (pq ++ [length c])).
    { unfold parent_path, node_path. apply Nat.eqb_neq in Nz. rewrite Nz. cbn [t1 forest_of set_all]. rewrite F1. now apply append_leaf_path. }
    destruct (append_leaf_ctx n inf pq (forest_of t) c Gc) as (Gc1 & Up). rewrite <- F1 in Gc1, Up.
    assert (N1 : next (put_tree (bump w 1) ti t1) = S (S m)) by (cbn [put_tree bump next]; lia).
    assert (Y := glue_items ch kids F IH ti n (put_tree (bump w 1) ti t1) t1 (pq ++ [length c]) [] used (S m) W1 Gt1 Ty Ca Gp1 Gc1 N1). change (map rdid []) with (@nil did) in Y.
    unfold Agree in Y |- *.
    destruct (seq_items (from_dict_item ti n) ch (put_tree (bump w 1) ti t1)) as [[r2|e2] w2],
             (DictList.fd_loop dd dcalc kids [] used) as [xs0|ez]; try contradiction; [|exact Y].
    destruct Y as (t1' & t2 & Gt1' & Gt2 & F2 & N2 & Ty2 & Ca2 & W2 & O2). assert (t1' = t1) by congruence. subst t1'.
    exists t, t2. cbn [DictList.renum_f]. rewrite DictListProofs.renum_unfold. cbn [fst snd].
    refine (conj Gt (conj Gt2 (conj _ (conj N2 (conj Ty2 (conj Ca2 (conj W2 _))))))).
    - rewrite F2. cbn [t1 forest_of set_all]. rewrite Up. cbn [app]. rewrite Ek. replace n with (S m) by (unfold n; now rewrite Nx). reflexivity.
    - intros tj Hj. rewrite (O2 tj Hj). rewrite get_put_other by congruence. reflexivity.
  Qed.
End Glue.

(* DictList.set_ch (by identity) is the path surgery of the machine *)
Lemma set_ch_absent p new : forall t, ~ In p (ids_t t) -> DictList.set_ch p new t = t.
Proof.
  induction t as [id i ch IH] using rt_ind'. intros H. cbn [DictList.set_ch].
  replace (Nat.eqb id p) with false by (symmetry; apply Nat.eqb_neq; intros ->; apply H; apply in_ids_t; now left).
  f_equal. assert (Hc : ~ In p (ids ch)) by (intros Y; apply H; apply in_ids_t; now right). clear H.
  induction ch as [|c ch IHch]; [reflexivity|]. inversion IH as [|? ? Hc1 Hcs]; subst. cbn [map]. f_equal.
  - apply Hc1. intros Y. apply Hc. apply in_ids_cons. now left.
  - apply IHch; [exact Hcs|]. intros Y. apply Hc. apply in_ids_cons. now right.
Qed.

Lemma set_ch_absent_f p new f : ~ In p (ids f) -> map (DictList.set_ch p new) f = f.
Proof.
  induction f as [|t f IH]; intros H; [reflexivity|]. cbn [map]. f_equal.
  - apply set_ch_absent. intros Y. apply H. apply in_ids_cons. now left.
  - apply IH. intros Y. apply H. apply in_ids_cons. now right.
Qed.

Lemma set_ch_path_t p new : forall r t, find_path p t = Some r -> NoDup (ids_t t) ->
  DictList.set_ch p new t = Surgery.set_ch (upd_ch r (fun _ => new)) t.
Proof.
  induction r as [|j rest IH]; intros [id i ch] H ND; rewrite find_path_unfold in H; cbn [Surgery.set_ch DictList.set_ch];
    destruct (Nat.eqb id p) eqn:E; try discriminate.
  - reflexivity.
  - destruct (find_in_inv p ch 0 [] H) as (a & t & b & r & _ & X & _). discriminate.
  - destruct (find_in_inv p ch 0 _ H) as (a & t & b & r & -> & X & Ht & Ha). cbn [Nat.add] in X. injection X as -> <-.
    cbn [upd_ch]. rewrite upd_nth_split, map_app. cbn [map]. f_equal.
    rewrite ids_t_unfold in ND. cbn [rid rch] in ND. apply NoDup_cons_iff in ND. destruct ND as [_ ND]. rewrite ids_app, ids_cons_t in ND.
    assert (Hn : In p (ids_t t)).
    { destruct (proj1 find_path_sound t p rest Ht) as (s & Hs & <-). destruct (sub_at_loc rest t s Hs) as (_ & _ & Hin & _). unfold ids_t. now apply in_map. }
    rewrite (set_ch_absent_f p new a), (set_ch_absent_f p new b), (IH t Ht); [reflexivity| | |].
    + apply NoDup_app_r in ND. now apply NoDup_app_l in ND.
    + intros Y. apply NoDup_app_r in ND. exact (NoDup_app_disj _ _ p ND Hn Y).
    + intros Y. apply (NoDup_app_disj _ _ p ND Y). apply in_or_app. now left.
Qed.

Lemma set_ch_path p new f pq : p <> 0 -> parent_path p f = Some pq -> NoDup (ids f) ->
  map (DictList.set_ch p new) f = upd_ch pq (fun _ => new) f.
Proof.
  intros Nz H ND. unfold parent_path, node_path in H. apply Nat.eqb_neq in Nz. rewrite Nz in H.
  destruct (find_in_inv p f 0 _ H) as (a & t & b & r & -> & -> & Ht & Ha). cbn [Nat.add upd_ch]. rewrite upd_nth_split, map_app. cbn [map].
  rewrite ids_app, ids_cons_t in ND.
  assert (Hn : In p (ids_t t)).
  { destruct (proj1 find_path_sound t p r Ht) as (s & Hs & <-). destruct (sub_at_loc r t s Hs) as (_ & _ & Hin & _). unfold ids_t. now apply in_map. }
  rewrite (set_ch_absent_f p new a), (set_ch_absent_f p new b), (set_ch_path_t p new r t Ht); [reflexivity| | |].
  - apply NoDup_app_r in ND. now apply NoDup_app_l in ND.
  - intros Y. apply NoDup_app_r in ND. exact (NoDup_app_disj _ _ p ND Hn Y).
  - intros Y. apply (NoDup_app_disj _ _ p ND Y). apply in_or_app. now left.
Qed.

(* ---- Node.from_dict on a node of an existing (plain) tree ---- *)
Theorem glue_node_from_dict dd dcalc w ti p items obj t m :
  WFw w -> get_tree w ti = Some t -> typed t = false -> next w = S m -> In p (ids (forest_of t)) ->
  Forall2 (enc dd dcalc (calc t)) items (map DictList.parse obj) ->
  match op_from_dict w ti p items, DictList.node_from_dict dd dcalc m (forest_of t) p obj with
  | (Ok _, w'), inl f' => exists t', get_tree w' ti = Some t' /\ forest_of t' = f' /\
                                     forall tj, tj <> ti -> get_tree w' tj = get_tree w tj
  | (Err e, w'), inr ez => ez = Z.of_nat e /\ trees w' = trees w
  | _, _ => False
  end.
Proof.
  intros W Gt Ty Nx Hp F. assert (Wt := WFw_tree w ti t W Gt). assert (ND := wf_nodup t Wt).
  assert (Nz : p <> 0) by (intros ->; now apply (wf_pos t Wt)).
  destruct (proj2 (parent_path_live p (forest_of t)) (or_intror Hp)) as (pq & Gp). destruct (parent_path_get p _ pq Gp) as (c & Gc).
  destruct (parent_path_spec p _ pq c 0 Gp Gc) as [(X & _)|(_ & s & Hs & Rs & Cs & _)]; [contradiction|].
  unfold op_from_dict, DictList.node_from_dict, children_of. rewrite Gt, Gp, Gc.
  destruct (SearchProofs.find_node_in (forest_of t) p Hp) as (s' & Ef & Rs' & Hs'). rewrite Ef.
  assert (s' = s) by (apply (node_unique (forest_of t)); auto; congruence). subst s'. destruct s as [sid si sch]. cbn [rch] in Cs. subst sch.
  destruct c as [|c0 c]; [|split; reflexivity].
  rewrite from_dict_items_eq. unfold DictList.from_dict.
  assert (Y := glue_items dd dcalc (calc t) items _ F (proj2 (Forall_forall _ _) (fun x _ => glue_item dd dcalc (calc t) x)) ti p w t pq [] [] m W Gt Ty eq_refl Gp Gc Nx).
  cbn [map] in Y. unfold Agree in Y.
  destruct (seq_items (from_dict_item ti p) items w) as [[r1|e1] w1], (DictList.fd_loop dd dcalc (map DictList.parse obj) [] []) as [f0|ez]; try contradiction.
  - destruct Y as (t0 & t' & Gt0 & Gt' & F' & _ & _ & _ & _ & O). exists t'. refine (conj Gt' (conj _ O)).
    rewrite F'. assert (t0 = t) by congruence. subst t0. rewrite (set_ch_path p _ _ pq Nz Gp ND). exact (upd_ch_const pq _ [] (fun c => c ++ _) Gc).
  - split; [exact Y|reflexivity].
Qed.

(* ---- Tree.from_dict: a new plain tree with the default calc_data_id ---- *)
Theorem glue_tree_from_dict dd w items obj m : WFw w -> next w = S m ->
  Forall2 (enc dd DictList.default_did None) items (map DictList.parse obj) ->
  match op_tree_from_dict w items, DictList.tree_from_dict dd m obj with
  | (Ok r, w'), inl f' => r = [length (trees w)] /\ exists t', get_tree w' (length (trees w)) = Some t' /\ forest_of t' = f' /\
                          forall tj, tj < length (trees w) -> get_tree w' tj = get_tree w tj
  | (Err e, w'), inr ez => ez = Z.of_nat e /\ trees w' = trees w
  | _, _ => False
  end.
Proof.
  intros Ww Nx F. unfold op_tree_from_dict, DictList.tree_from_dict, DictList.from_dict. rewrite from_dict_items_eq.
  set (ti := length (trees w)). set (w0 := W (trees w ++ [TS [] [] [] false None]) (next w)).
  assert (W0 : WFw w0) by (apply (WFw_new_tree w false None Ww)).
  assert (Gt : get_tree w0 ti = Some (TS [] [] [] false None)) by (unfold get_tree, w0, ti; cbn [trees]; apply nth_error_app_len).
  assert (Y := glue_items dd DictList.default_did None items _ F (proj2 (Forall_forall _ _) (fun x _ => glue_item dd DictList.default_did None x)) ti 0 w0 _ [] [] [] m W0 Gt eq_refl eq_refl eq_refl eq_refl Nx).
  cbn [map] in Y. unfold Agree in Y.
  destruct (seq_items (from_dict_item ti 0) items w0) as [[r1|e1] w1], (DictList.fd_loop dd DictList.default_did (map DictList.parse obj) [] []) as [f0|ez]; try contradiction.
  - destruct Y as (t0 & t' & Gt0 & Gt' & F' & _ & _ & _ & _ & O). split; [reflexivity|]. exists t'. refine (conj Gt' (conj _ _)).
    + rewrite F'. assert (t0 = TS [] [] [] false None) by congruence. subst t0. reflexivity.
    + intros tj Hj. rewrite O by (unfold ti; lia). unfold get_tree, w0. cbn [trees]. now apply nth_error_app1.
  - split; [exact Y|reflexivity].
Qed.
