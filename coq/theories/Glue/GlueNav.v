(* Glue C10 <-> C01: the relationship queries of the navigation model (Forest/Nav.v: a node is resolved to
   its context in the forest VALUE) read, on the forest a heap abstracts to, exactly the raw pointers of
   that heap (Mut/Heap.v: _parent, _children, the chain of _parent pointers). *)
From Coq Require Import List ZArith Bool Arith Lia Permutation.
From NT Require Import Sx Rose ListFacts RoseFacts Surgery SurgeryFacts Machine WF MachineFacts PreserveSteps PreserveKeepClones Invariant
  Heap HeapProofs HeapRemove HeapMore HeapCopy HeapRefine HeapFull.
From NT Require Import Nav NavProofs.
Import ListNotations.

Lemma path_in_pre f t anc : is_path f t anc -> In t (pre_f f) /\ Forall (fun a => In a (pre_f f)) anc.
Proof.
  induction 1 as [t Ht|t p anc Ht Hp IH].
  - split; [now apply in_pre_f_top|constructor].
  - destruct IH as [Ip Ia]. split; [now apply (pre_f_child_closed f p)|now constructor].
Qed.

Lemma path_size f t anc : is_path f t anc -> length anc + size t <= size_f f.
Proof.
  induction 1 as [t Ht|t p anc Ht Hp IH]; cbn [length].
  - now apply size_le_in.
  - assert (X := size_le_in t (rch p) Ht). destruct p as [id i ch]. rewrite size_unfold in IH. cbn [rch] in X. lia.
Qed.

Section OnRep.
  Variables (h : hstate) (t : tstate).
  Hypothesis W : WF t.
  Hypothesis R : Rep h t.
  Let f := forest_of t.

  Lemma path_parent s anc : is_path f s anc ->
    hpar h (rid s) = Some (match anc with p :: _ => rid p | [] => 0 end).
  Proof.
    intros H. destruct H as [s Hs|s p anc Hs Hp].
    - apply (rep_node h t R (0, rid s, rinfo s)). now apply rows_top.
    - destruct (path_in_pre f p anc Hp) as [Ip _].
      apply (rep_node h t R (rid p, rid s, rinfo s)). now apply (proj2 rows_child_of f 0 p s).
  Qed.

  Lemma path_chain : forall fuel s anc, is_path f s anc -> length anc < fuel ->
    anc_heap fuel h (rid s) = map rid anc.
  Proof.
    induction fuel as [|fuel IH]; intros s anc H L; [lia|]. cbn [anc_heap]. rewrite (path_parent s anc H).
    destruct H as [s Hs|s p anc Hs Hp]; [reflexivity|]. cbn [length map] in *.
    destruct (path_in_pre f p anc Hp) as [Ip _].
    replace (Nat.eqb (rid p) 0) with false.
    - f_equal. apply IH; [assumption|lia].
    - symmetry. apply Nat.eqb_neq. intros E. apply (wf_pos t W). rewrite <- E. unfold ids. now apply in_map.
  Qed.

  Theorem queries_are_pointers n c : locate_f n f = Some c ->
    hpar h n = Some (match q_parent c with Some p => rid p | None => 0 end) /\
    hch h n = map rid (q_children c) /\
    hch h (match q_parent c with Some p => rid p | None => 0 end) = map rid (q_siblings c true) /\
    anc_heap (h_fuel h) h n = map rid (c_anc c) /\
    q_depth c = S (length (anc_heap (h_fuel h) h n)) /\
    (forall o, q_is_descendant_of c o = memn o (anc_heap (h_fuel h) h n)) /\
    htr h n = true /\ hinf h n = rinfo (c_self c).
  Proof.
    intros L. destruct (locate_f_ok f n c L) as [Ok Rn]. assert (P := ctx_path f c Ok).
    destruct (path_in_pre f _ _ P) as [Is Ia]. assert (Sz := path_size f _ _ P).
    assert (Fu := fuel_enough h t f W R (wf_nodup t W) (incl_refl _)). fold f in Fu.
    assert (Ch : anc_heap (h_fuel h) h n = map rid (c_anc c)).
    { rewrite <- Rn. apply path_chain; [exact P|]. destruct (c_self c) as [i0 i1 ch0]. rewrite size_unfold in Sz. lia. }
    assert (Sb := ctx_sibs f c Ok).
    refine (conj _ (conj _ (conj _ (conj Ch (conj _ (conj _ _)))))).
    - rewrite <- Rn. rewrite (path_parent _ _ P). unfold q_parent. now destruct (c_anc c).
    - rewrite <- Rn. unfold q_children. now apply (rep_node_children h t).
    - unfold q_parent, q_siblings. rewrite Sb. destruct (c_anc c) as [|p anc]; cbn [hd_error].
      + apply (rep_children h t 0 [] f W R); reflexivity.
      + inversion Ia; subst. now apply (rep_node_children h t).
    - unfold q_depth. now rewrite Ch, map_length.
    - intros o. rewrite Ch. unfold q_is_descendant_of, memn.
      assert (E : forall l, existsb (is_self o) l = existsb (Nat.eqb o) (map rid l)).
      { induction l as [|a l IHl]; [reflexivity|]. cbn [existsb map]. rewrite IHl. f_equal. unfold is_self. apply Nat.eqb_sym. }
      apply E.
    - destruct (row_of_node f 0 _ Is) as (r & Hr & E1 & E2). destruct (rep_node h t R r Hr) as (_ & A & B). rewrite <- Rn, <- E1. split; [exact A|]. now rewrite B, E2.
  Qed.
End OnRep.

(* ... on every heap that any history of operations produces *)
Theorem queries_are_pointers_reachable ops h : In h (htrees (h_run ops h_empty_world)) ->
  exists f, abs_forest h = Some f /\ forall n c, locate_f n f = Some c ->
    hpar h n = Some (match q_parent c with Some p => rid p | None => 0 end) /\
    hch h n = map rid (q_children c) /\
    hch h (match q_parent c with Some p => rid p | None => 0 end) = map rid (q_siblings c true) /\
    anc_heap (h_fuel h) h n = map rid (c_anc c) /\
    q_depth c = S (length (anc_heap (h_fuel h) h n)) /\
    (forall o, q_is_descendant_of c o = memn o (anc_heap (h_fuel h) h n)) /\
    htr h n = true /\ hinf h n = rinfo (c_self c).
Proof.
  intros Hh. assert (W := WFw_run ops _ WFw_empty). assert (R := sim_run_all ops _ _ WFw_empty RepW_empty).
  destruct R as [_ F]. destruct W as [Wt _ _ _].
  induction F as [|h0 t hs ts Rh F IH]; [contradiction|]. inversion Wt as [|x xs Wx Wxs]; subst.
  destruct Hh as [->|Hh]; [|now apply IH].
  exists (forest_of t). split; [apply (abs_correct h t Wx Rh)|]. intros n c. now apply queries_are_pointers.
Qed.
