(* C16 x C10: the flags the pretty-printer model attaches to a node are the
   identity tests of the Python loop

       for p in self.get_parent_list():  ... _is_last(p) ...
       _is_last(p) = p is p._parent._children[-1]

   expressed with the relationship-query model of Nav.v ([q_is_last] of the
   ancestor's own context, [q_parent_list], [q_has_children]), whenever node
   identities are unique in the forest (C01).  This discharges the modelling
   assumption "is-last-sibling is positional" of Format.v. *)
From Coq Require Import List ZArith Bool Arith Lia.
From NT Require Import Sx Rose ListFacts RoseFacts Nav NavProofs Format FormatProofs FormatDecode.
Import ListNotations.

Lemma fpath_chain f anc fl sibs : fpath f anc fl sibs -> chain f anc sibs.
Proof.
  induction 1 as [|anc fl sibs l1 p l2 P IH E]; [constructor|].
  apply chain_down with (sibs := sibs); [exact IH|]. rewrite E. apply in_or_app. right. left. reflexivity.
Qed.

Lemma is_last_positional anc sibs l1 p l2 :
  NoDup (map rid sibs) -> sibs = l1 ++ p :: l2 -> q_is_last (anc, sibs, p) = is_nil l2.
Proof.
  intros ND E.
  assert (H1 : forall x, In x l1 -> rid x <> rid p).
  { intros x Hx Heq. rewrite E, map_app in ND. cbn [map] in ND.
    apply (NoDup_app_disj (map rid l1) (rid p :: map rid l2) (rid p) ND).
    - rewrite <- Heq. apply in_map. exact Hx.
    - left. reflexivity. }
  assert (H2 : forall x, In x l2 -> rid x <> rid p).
  { intros x Hx Heq. rewrite E, map_app in ND. cbn [map] in ND.
    apply NoDup_app_r in ND. inversion ND as [|a b Hn _]; subst. apply Hn. rewrite <- Heq. apply in_map. exact Hx. }
  destruct (sibling_positions (anc, sibs, p) l1 l2 E H1 H2) as (_ & _ & _ & _ & _ & _ & L & _).
  destruct l2 as [|y l2]; cbn [is_nil].
  - apply L. reflexivity.
  - destruct (q_is_last (anc, sibs, p)); [|reflexivity]. destruct L as [L _]. discriminate (L eq_refl).
Qed.

(* a descent whose flags are Nav's identity tests *)
Inductive npath (f : forest) : list rt -> list bool -> list rt -> Prop :=
| np_top : npath f [] [] f
| np_down anc fl sibs p :
    npath f anc fl sibs -> In p sibs ->
    npath f (p :: anc) (fl ++ [q_is_last (anc, sibs, p)]) (rch p).

Lemma fpath_npath f anc fl sibs : NoDup (ids f) -> fpath f anc fl sibs -> npath f anc fl sibs.
Proof.
  intros ND. induction 1 as [|anc fl sibs l1 p l2 P IH E]; [constructor|].
  rewrite <- (is_last_positional anc sibs l1 p l2).
  - apply np_down; [exact IH|]. rewrite E. apply in_or_app. right. left. reflexivity.
  - apply (chain_sibs_nodup f anc sibs ND). apply (fpath_chain f anc fl sibs P).
  - exact E.
Qed.

(* every context of the printer = a Nav context of the same node, with
   - the ancestors' flags = q_is_last of each ancestor in its own context,
     in the order of get_parent_list() (top-level ancestor first),
   - own flag = q_is_last, has-children = q_has_children, depth = q_depth *)
Definition nav_agrees (f : forest) (c : nctx) : Prop :=
  exists anc sibs,
    let nc : ctx := (anc, sibs, n_node c) in
    ctx_ok f nc
    /\ npath f anc (n_anc c) sibs
    /\ length (n_anc c) = length (q_parent_list nc false false)
    /\ q_depth nc = S (length (n_anc c))
    /\ n_last c = q_is_last nc
    /\ has_ch (n_node c) = q_has_children nc.

Theorem ctxs_nav_agree f : NoDup (ids f) -> Forall (nav_agrees f) (ctxs_l [] f).
Proof.
  intros ND. pose proof (ctxs_ok f) as H. rewrite Forall_forall in *. intros c Hc.
  destruct (H c Hc) as (anc & sibs & l1 & l2 & P & E & L).
  exists anc, sibs. cbv zeta.
  pose proof (fpath_chain f anc _ sibs P) as Ch.
  pose proof (fpath_length f anc _ sibs P) as Len.
  refine (conj _ (conj _ (conj _ (conj _ (conj _ _))))).
  - split; [exact Ch|]. cbn [c_sibs c_self fst snd]. rewrite E. apply in_or_app. right. left. reflexivity.
  - apply fpath_npath; assumption.
  - unfold q_parent_list. cbn [c_anc fst snd]. rewrite rev_length. exact Len.
  - unfold q_depth. cbn [c_anc fst snd]. rewrite Len. reflexivity.
  - rewrite L. symmetry. apply (is_last_positional anc sibs l1 (n_node c) l2); [|exact E].
    apply (chain_sibs_nodup f anc sibs ND Ch).
  - unfold q_has_children, q_is_leaf, has_ch, is_nil. cbn [c_self snd]. reflexivity.
Qed.
