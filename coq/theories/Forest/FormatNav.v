(* C16 x C10: the flags the pretty-printer model attaches to a node are the
   identity tests of the Python loop

       for p in self.get_parent_list():  ... _is_last(p) ...
       _is_last(p) = p is p._parent._children[-1]

   expressed with the relationship-query model of Nav.v ([q_is_last] of the
   ancestor's own context, [q_parent_list], [q_has_children]), whenever node
   identities are unique in the forest (C01).  This discharges the modelling
   assumption "is-last-sibling is positional" of Format.v. *)
From Coq Require Import List ZArith Bool Arith Lia.
From NT Require Import Sx Rose ListFacts RoseFacts Nav NavProofs Format FormatProofs FormatDecode.
Import ListNotations.

Lemma fpath_chain f anc fl sibs : fpath f anc fl sibs -> chain f anc sibs.
Proof.
  induction 1 as [|anc fl sibs l1 p l2 P IH E]; [constructor|].
  apply chain_down with (sibs := sibs); [exact IH|]. rewrite E. apply in_or_app. right. left. reflexivity.
Qed.

Lemma is_last_positional anc sibs l1 p l2 :
  NoDup (map rid sibs) -> sibs = l1 ++ p :: l2 -> q_is_last (anc, sibs, p) = is_nil l2.
Proof.
  intros ND E.
  assert (H1 : forall x, In x l1 -> rid x <> rid p).
  { intros x Hx Heq. rewrite E, map_app in ND. cbn [map] in ND.
    apply (NoDup_app_disj (map rid l1) (rid p :: map rid l2) (rid p) ND).
    - rewrite <- Heq. apply in_map. exact Hx.
    - left. reflexivity. }
  assert (H2 : forall x, In x l2 -> rid x <> rid p).
  { intros x Hx Heq. rewrite E, map_app in ND. cbn [map] in ND.
    apply NoDup_app_r in ND. inversion ND as [|a b Hn _]; subst. apply Hn. rewrite <- Heq. apply in_map. exact Hx. }
  destruct (sibling_positions (anc, sibs, p) l1 l2 E H1 H2) as (_ & _ & _ & _ & _ & _ & L & _).
  destruct l2 as [|y l2]; cbn [is_nil].
  - apply L. reflexivity.
  - destruct (q_is_last (anc, sibs, p)); [|reflexivity]. destruct L as [L _]. discriminate (L eq_refl).
Qed.

(* a descent whose flags are Nav's identity tests *)
Inductive npath (f : forest) : list rt -> list bool -> list rt -> Prop :=
| np_top : npath f [] [] f
| np_down anc fl sibs p :
    npath f anc fl sibs -> In p sibs ->
    npath f (p :: anc) (fl ++ [q_is_last (anc, sibs, p)]) (rch p).

Lemma fpath_npath f anc fl sibs : NoDup (ids f) -> fpath f anc fl sibs -> npath f anc fl sibs.
Proof.
  intros ND. induction 1 as [|anc fl sibs l1 p l2 P IH E]; [constructor|].
  rewrite <- (is_last_positional anc sibs l1 p l2).
  - apply np_down; [exact IH|]. rewrite E. apply in_or_app. right. left. reflexivity.
  - apply (chain_sibs_nodup f anc sibs ND). apply (fpath_chain f anc fl sibs P).
  - exact E.
Qed.

(* every context of the printer = a Nav context of the same node, with
   - the ancestors' flags = q_is_last of each ancestor in its own context,
     in the order of get_parent_list() (top-level ancestor first),
   - own flag = q_is_last, has-children = q_has_children, depth = q_depth *)
Definition nav_agrees (f : forest) (c : nctx) : Prop :=
  exists anc sibs,
    let nc : ctx := (anc, sibs, n_node c) in
    ctx_ok f nc
    /\ npath f anc (n_anc c) sibs
    /\ length (n_anc c) = length (q_parent_list nc false false)
    /\ q_depth nc = S (length (n_anc c))
    /\ n_last c = q_is_last nc
    /\ has_ch (n_node c) = q_has_children nc.

Theorem ctxs_nav_agree f : NoDup (ids f) -> Forall (nav_agrees f) (ctxs_l [] f).
Proof.
  intros ND. pose proof (ctxs_ok f) as H. rewrite Forall_forall in *. intros c Hc.
  destruct (H c Hc) as (anc & sibs & l1 & l2 & P & E & L).
  exists anc, sibs. cbv zeta.
  pose proof (fpath_chain f anc _ sibs P) as Ch.
  pose proof (fpath_length f anc _ sibs P) as Len.
  refine (conj _ (conj _ (conj _ (conj _ (conj _ _))))).
  - split; [exact Ch|]. cbn [c_sibs c_self fst snd]. rewrite E. apply in_or_app. right. left. reflexivity.
  - apply fpath_npath; assumption.
  - unfold q_parent_list. cbn [c_anc fst snd]. rewrite rev_length. exact Len.
  - unfold q_depth. cbn [c_anc fst snd]. rewrite Len. reflexivity.
  - rewrite L. symmetry. apply (is_last_positional anc sibs l1 (n_node c) l2); [|exact E].
    apply (chain_sibs_nodup f anc sibs ND Ch).
  - unfold q_has_children, q_is_leaf, has_ch, is_nil. cbn [c_self snd]. reflexivity.
Qed.

(* ------------------------------------------------------------------ *)
(* the same with functions only: the contexts [locate_f] computes       *)
(* ------------------------------------------------------------------ *)
(* all structural contexts of a forest, in pre-order *)
Fixpoint nav_t (anc sibs : list rt) (t : rt) {struct t} : list ctx :=
  match t with T _ _ ch => (anc, sibs, t) :: flat_map (nav_t (t :: anc) ch) ch end.
Definition nav_l (anc sibs l : list rt) : list ctx := flat_map (nav_t anc sibs) l.

Lemma nav_t_unfold anc sibs t : nav_t anc sibs t = (anc, sibs, t) :: nav_l (t :: anc) (rch t) (rch t).
Proof. destruct t; reflexivity. Qed.

Lemma find_app' {X} (p : X -> bool) (a b : list X) :
  find p (a ++ b) = match find p a with Some x => Some x | None => find p b end.
Proof. induction a as [|x a IH]; [reflexivity|]. cbn [app find]. destruct (p x); [reflexivity|exact IH]. Qed.

(* [locate] is "first context in pre-order whose node has the identity" *)
Lemma locate_in_find_of (l : list rt) :
  Forall (fun t => forall n anc sibs,
            locate n anc sibs t = find (fun c => is_self n (c_self c)) (nav_t anc sibs t)) l ->
  forall n anc sibs, locate_in n anc sibs l = find (fun c => is_self n (c_self c)) (nav_l anc sibs l).
Proof.
  induction 1 as [|c l Hc _ IHl]; intros n anc sibs; [reflexivity|].
  unfold nav_l. cbn [locate_in flat_map]. rewrite find_app', <- Hc.
  destruct (locate n anc sibs c); [reflexivity|]. apply IHl.
Qed.

Lemma locate_find : forall t n anc sibs,
  locate n anc sibs t = find (fun c => is_self n (c_self c)) (nav_t anc sibs t).
Proof.
  induction t as [id i ch IH] using rt_ind'. intros n anc sibs.
  rewrite locate_unfold, nav_t_unfold. cbn [find c_self snd rch]. unfold is_self at 1. cbn [rid].
  destruct (Nat.eqb id n); [reflexivity|]. apply locate_in_find_of. exact IH.
Qed.

Lemma locate_in_find n anc sibs l :
  locate_in n anc sibs l = find (fun c => is_self n (c_self c)) (nav_l anc sibs l).
Proof. apply locate_in_find_of. apply Forall_forall. intros t _. apply locate_find. Qed.

Lemma nav_selfs_t : forall t anc sibs, map c_self (nav_t anc sibs t) = pre t.
Proof.
  induction t as [id i ch IH] using rt_ind'. intros anc sibs.
  rewrite nav_t_unfold. cbn [map c_self snd rch pre]. f_equal.
  unfold nav_l. generalize (T id i ch :: anc) as a. generalize ch at 1 as s.
  induction IH as [|c l Hc _ IHl]; intros s a; [reflexivity|].
  cbn [flat_map]. rewrite map_app, Hc, IHl. reflexivity.
Qed.

Lemma nav_selfs_l l anc sibs : map c_self (nav_l anc sibs l) = pre_f l.
Proof.
  unfold nav_l. induction l as [|c l IH]; [reflexivity|].
  cbn [flat_map]. rewrite map_app, nav_selfs_t, IH. reflexivity.
Qed.

Lemma find_key_nodup {X} (key : X -> nat) (l : list X) x :
  NoDup (map key l) -> In x l -> find (fun y => Nat.eqb (key y) (key x)) l = Some x.
Proof.
  induction l as [|a l IH]; intros ND Hin; [contradiction|].
  cbn [map] in ND. inversion ND as [|k r Hn ND']; subst. cbn [find].
  destruct Hin as [->|Hin]; [rewrite Nat.eqb_refl; reflexivity|].
  destruct (Nat.eqb (key a) (key x)) eqn:E.
  - apply Nat.eqb_eq in E. exfalso. apply Hn. rewrite E. apply in_map. exact Hin.
  - apply IH; assumption.
Qed.

Lemma in_nav_located f nc : NoDup (ids f) -> In nc (nav_l [] f f) ->
  locate_f (rid (c_self nc)) f = Some nc.
Proof.
  intros ND Hin. unfold locate_f. rewrite locate_in_find.
  apply (find_key_nodup (fun c => rid (c_self c))); [|exact Hin].
  rewrite <- (map_map c_self rid), nav_selfs_l. exact ND.
Qed.

Lemma nav_heads anc sibs l t : In t l -> In (anc, sibs, t) (nav_l anc sibs l).
Proof.
  intros Ht. unfold nav_l. apply in_flat_map. exists t. split; [exact Ht|].
  rewrite nav_t_unfold. left. reflexivity.
Qed.

Lemma nav_child_closed_t : forall t A S a s p q,
  In (a, s, p) (nav_t A S t) -> In q (rch p) -> In (p :: a, rch p, q) (nav_t A S t).
Proof.
  induction t as [id i ch IH] using rt_ind'. intros A S a s p q Hin Hq.
  rewrite nav_t_unfold in *. cbn [rch] in *. destruct Hin as [E|Hin].
  - injection E as <- <- <-. right. apply nav_heads. exact Hq.
  - right. unfold nav_l in *. apply in_flat_map in Hin as (c & Hc & Hin).
    apply in_flat_map. exists c. split; [exact Hc|].
    rewrite Forall_forall in IH. apply (IH c Hc _ _ a s p q Hin Hq).
Qed.

Lemma nav_child_closed_l A S l a s p q :
  In (a, s, p) (nav_l A S l) -> In q (rch p) -> In (p :: a, rch p, q) (nav_l A S l).
Proof.
  unfold nav_l. intros Hin Hq. apply in_flat_map in Hin as (c & Hc & Hin).
  apply in_flat_map. exists c. split; [exact Hc|]. apply (nav_child_closed_t c A S a s p q Hin Hq).
Qed.

Lemma fpath_in_nav f anc fl sibs : fpath f anc fl sibs ->
  forall p, In p sibs -> In (anc, sibs, p) (nav_l [] f f).
Proof.
  induction 1 as [|anc fl sibs l1 p l2 P IH E]; intros q Hq; [apply nav_heads; exact Hq|].
  apply (nav_child_closed_l [] f f anc sibs p q); [|exact Hq].
  apply IH. rewrite E. apply in_or_app. right. left. reflexivity.
Qed.

(* the context [locate_f] finds for a node IS the context of the descent *)
Lemma fpath_located f anc fl sibs p : NoDup (ids f) -> fpath f anc fl sibs -> In p sibs ->
  locate_f (rid p) f = Some (anc, sibs, p).
Proof.
  intros ND P Hp. apply (in_nav_located f (anc, sibs, p) ND). apply (fpath_in_nav f anc fl sibs P p Hp).
Qed.

(* _is_last(p) of the code, for a node object p of the tree *)
Definition is_last_located (f : forest) (a : rt) : bool :=
  match locate_f (rid a) f with Some ca => q_is_last ca | None => false end.

Lemma fpath_flags_located f anc fl sibs : NoDup (ids f) -> fpath f anc fl sibs ->
  fl = map (is_last_located f) (rev anc).
Proof.
  intros ND. induction 1 as [|anc fl sibs l1 p l2 P IH E]; [reflexivity|].
  cbn [rev]. rewrite map_app, <- IH. cbn [map]. f_equal. f_equal.
  assert (Hp : In p sibs) by (rewrite E; apply in_or_app; right; left; reflexivity).
  unfold is_last_located. rewrite (fpath_located f anc fl sibs p ND P Hp).
  symmetry. apply (is_last_positional anc sibs l1 p l2); [|exact E].
  apply (chain_sibs_nodup f anc sibs ND). apply (fpath_chain f anc fl sibs P).
Qed.

(* every printer context, in terms of the functions of the query model only:
     for p in self.get_parent_list(): _is_last(p)   /   _is_last(self)   /   bool(self._children) *)
Definition located_agrees (f : forest) (c : nctx) : Prop :=
  exists nc, locate_f (rid (n_node c)) f = Some nc
    /\ c_self nc = n_node c
    /\ n_anc c = map (is_last_located f) (q_parent_list nc false false)
    /\ n_last c = q_is_last nc
    /\ has_ch (n_node c) = q_has_children nc
    /\ q_depth nc = S (length (n_anc c)).

Theorem ctxs_located f : NoDup (ids f) -> Forall (located_agrees f) (ctxs_l [] f).
Proof.
  intros ND. pose proof (ctxs_ok f) as H. rewrite Forall_forall in *. intros c Hc.
  destruct (H c Hc) as (anc & sibs & l1 & l2 & P & E & L).
  assert (Hp : In (n_node c) sibs) by (rewrite E; apply in_or_app; right; left; reflexivity).
  exists (anc, sibs, n_node c).
  refine (conj _ (conj eq_refl (conj _ (conj _ (conj _ _))))).
  - apply (fpath_located f anc (n_anc c) sibs (n_node c) ND P Hp).
  - unfold q_parent_list. cbn [c_anc fst snd]. apply (fpath_flags_located f anc (n_anc c) sibs ND P).
  - rewrite L. symmetry. apply (is_last_positional anc sibs l1 (n_node c) l2); [|exact E].
    apply (chain_sibs_nodup f anc sibs ND). apply (fpath_chain f anc _ sibs P).
  - unfold q_has_children, q_is_leaf, has_ch, is_nil. cbn [c_self snd]. reflexivity.
  - unfold q_depth. cbn [c_anc fst snd]. rewrite (fpath_length f anc _ sibs P). reflexivity.
Qed.

(* ------------------------------------------------------------------ *)
(* the property sentence, end to end: under a title line, the prefix of *)
(* every node encodes the code-level facts about that node              *)
(* ------------------------------------------------------------------ *)
Lemma Forall2_map_same {X Y Z} (R : Y -> Z -> Prop) (F : X -> Y) (G : X -> Z) (l : list X) :
  Forall (fun x => R (F x) (G x)) l -> Forall2 R (map F l) (map G l).
Proof. induction 1 as [|x l Hx _ IH]; cbn [map]; constructor; assumption. Qed.

Definition prefix_encodes (f : forest) (g : seg6) (p : text) (t : rt) : Prop :=
  exists nc, locate_f (rid t) f = Some nc /\ c_self nc = t
    /\ decode_depth g p = q_depth nc
    /\ (anc_distinct g = true ->
        decode_anc g p = map (fun a => Some (is_last_located f a)) (q_parent_list nc false false))
    /\ (last_distinct g = true -> dec_last g (own_part g p) = Some (q_is_last nc))
    /\ (hc_distinct g = true -> dec_hc g (own_part g p) = Some (q_has_children nc)).

Theorem tree_prefixes_encode f g : NoDup (ids f) -> style_okb g = true ->
  Forall2 (prefix_encodes f g) (rel_prefixes g true f) (pre_f f).
Proof.
  intros ND OK. unfold rel_prefixes. rewrite <- (ctxs_nodes_l f []).
  apply Forall2_map_same. pose proof (ctxs_located f ND) as H.
  rewrite Forall_forall in *. intros c Hc.
  destruct (H c Hc) as (nc & Lc & Sf & An & La & Hc' & Dp).
  assert (D : 1 <= rdepth true c) by (unfold rdepth; lia).
  exists nc. refine (conj Lc (conj Sf (conj _ (conj _ (conj _ _))))).
  - rewrite (decode_depth_pfx g true c OK), Dp. unfold rdepth. reflexivity.
  - intros DA. rewrite (decode_anc_pfx g true c OK D DA). cbn [rel_flags].
    rewrite An, map_map. reflexivity.
  - intros DL. rewrite (decode_last_pfx g true c OK D DL), La. reflexivity.
  - intros DH. rewrite (decode_hc_pfx g true c OK D DH), Hc'. reflexivity.
Qed.
