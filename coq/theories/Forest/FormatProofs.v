(* Specification and proofs for the pretty-printer model (C16). *)
From Coq Require Import List ZArith Bool Arith Lia.
From NT Require Import Sx Rose ListFacts RoseFacts Format.
Import ListNotations.

(* ------------------------------------------------------------------ *)
(* contexts                                                             *)
(* ------------------------------------------------------------------ *)
Lemma ctxs_t_unfold anc last t :
  ctxs_t anc last t = (anc, last, t) :: ctxs_l (anc ++ [last]) (rch t).
Proof.
  destruct t as [id i ch]. cbn [ctxs_t rch]. f_equal.
  induction ch as [|c l IH]; [reflexivity|].
  cbn [ctxs_l]. rewrite <- IH. reflexivity.
Qed.

Lemma ctxs_l_cons anc t l :
  ctxs_l anc (t :: l) = ctxs_t anc (is_nil l) t ++ ctxs_l anc l.
Proof. reflexivity. Qed.

(* a property of all trees extends to sibling lists *)
Lemma ctxs_nodes_t : forall t anc last, map n_node (ctxs_t anc last t) = pre t.
Proof.
  induction t as [id i ch IH] using rt_ind'. intros anc last.
  rewrite ctxs_t_unfold. cbn [map n_node snd rch pre]. f_equal.
  generalize (anc ++ [last]) as a. induction IH as [|c l Hc _ IHl]; intros a; [reflexivity|].
  rewrite ctxs_l_cons, map_app, Hc, IHl. reflexivity.
Qed.

Lemma ctxs_nodes_l : forall l anc, map n_node (ctxs_l anc l) = pre_f l.
Proof.
  induction l as [|c l IH]; intros anc; [reflexivity|].
  rewrite ctxs_l_cons, map_app, ctxs_nodes_t, IH. reflexivity.
Qed.

Definition shift (a : list bool) (c : nctx) : nctx := (a ++ n_anc c, n_last c, n_node c).

Lemma ctxs_l_shift_of (l : list rt) :
  Forall (fun t => forall a anc last, ctxs_t (a ++ anc) last t = map (shift a) (ctxs_t anc last t)) l ->
  forall a anc, ctxs_l (a ++ anc) l = map (shift a) (ctxs_l anc l).
Proof.
  induction 1 as [|c l Hc _ IHl]; intros a anc; [reflexivity|].
  rewrite !ctxs_l_cons, map_app, Hc, IHl. reflexivity.
Qed.

Lemma ctxs_t_shift : forall t a anc last,
  ctxs_t (a ++ anc) last t = map (shift a) (ctxs_t anc last t).
Proof.
  induction t as [id i ch IH] using rt_ind'. intros a anc last.
  rewrite !ctxs_t_unfold. cbn [map rch]. f_equal.
  rewrite <- app_assoc. apply ctxs_l_shift_of. exact IH.
Qed.

Lemma ctxs_l_shift a l : ctxs_l a l = map (shift a) (ctxs_l [] l).
Proof.
  rewrite <- (app_nil_r a) at 1. apply ctxs_l_shift_of.
  apply Forall_forall. intros t _. apply ctxs_t_shift.
Qed.

(* ------------------------------------------------------------------ *)
(* the prefix in closed form                                            *)
(* ------------------------------------------------------------------ *)
Definition seg_anc (g : seg6) (last : bool) : text := if last then g0 g else g1 g.
Definition seg_self (g : seg6) (last hc : bool) : text :=
  if hc then (if last then g4 g else g5 g) else (if last then g2 g else g3 g).
Definition full_prefix (g : seg6) (fl : list bool) (last hc : bool) : text :=
  concat (map (seg_anc g) fl) ++ seg_self g last hc.

Lemma prefix_loop_spec g lstrip : forall ps k parts,
  prefix_loop g lstrip k parts ps
  = (k + length ps, parts ++ map (seg_anc g) (skipn (lstrip - k) ps)).
Proof.
  induction ps as [|p ps IH]; intros k parts.
  - cbn [prefix_loop length]. rewrite skipn_nil. cbn [map]. rewrite app_nil_r, Nat.add_0_r. reflexivity.
  - cbn [prefix_loop]. destruct (S k <=? lstrip) eqn:E.
    + apply Nat.leb_le in E. rewrite IH.
      replace (lstrip - k) with (S (lstrip - S k)) by lia.
      cbn [skipn length]. f_equal. lia.
    + apply Nat.leb_gt in E. rewrite IH.
      replace (lstrip - k) with 0 by lia. replace (lstrip - S k) with 0 by lia.
      cbn [skipn map length]. rewrite <- app_assoc. cbn [app]. f_equal. lia.
Qed.

(* Theorem 2, loop level: what the Python loop computes, as a function of
   the node's absolute context and lstrip *)
Lemma get_prefix_spec style g lstrip c :
  unpack style = Some g ->
  get_prefix style lstrip c
  = Some (if lstrip <=? length (n_anc c)
          then full_prefix g (skipn lstrip (n_anc c)) (n_last c) (has_ch (n_node c))
          else []).
Proof.
  intros U. unfold get_prefix. rewrite U, prefix_loop_spec.
  cbn [Nat.add app]. rewrite Nat.sub_0_r.
  destruct (lstrip <=? length (n_anc c)) eqn:E.
  - rewrite concat_app. cbn [concat]. rewrite app_nil_r. reflexivity.
  - apply Nat.leb_gt in E. rewrite skipn_all2 by lia. reflexivity.
Qed.

Lemma get_prefix_none style lstrip c : unpack style = None -> get_prefix style lstrip c = None.
Proof. intros U. unfold get_prefix. rewrite U. reflexivity. Qed.

(* relative form: [c] is a context relative to the sibling list [roots] the
   rendered branch consists of; [top] = the roots carry their own connector
   (start node rendered / title present) *)
Definition rel_flags (top : bool) (c : nctx) : list bool := if top then n_anc c else tl (n_anc c).
Definition rdepth (top : bool) (c : nctx) : nat := (if top then 1 else 0) + length (n_anc c).

Definition pfx_rel (g : seg6) (top : bool) (c : nctx) : text :=
  match rdepth top c with
  | 0 => []
  | S _ => full_prefix g (rel_flags top c) (n_last c) (has_ch (n_node c))
  end.

Lemma rel_flags_length top c : length (rel_flags top c) = rdepth top c - 1.
Proof.
  unfold rel_flags, rdepth. destruct top; [cbn; lia|].
  destruct (n_anc c); cbn; lia.
Qed.

Lemma get_prefix_shift style g a c (top : bool) :
  unpack style = Some g ->
  get_prefix style (length a + (if top then 0 else 1)) (shift a c) = Some (pfx_rel g top c).
Proof.
  intros U. rewrite (get_prefix_spec _ g) by exact U.
  destruct c as [[fl last] t]. unfold shift, pfx_rel, rdepth, rel_flags.
  cbn [n_anc n_last n_node fst snd]. rewrite app_length. destruct top.
  - rewrite Nat.add_0_r. replace (length a <=? length a + length fl) with true
      by (symmetry; apply Nat.leb_le; lia).
    rewrite skipn_app_len. reflexivity.
  - destruct fl as [|x fl].
    + replace (length a + 1 <=? length a + length (@nil bool)) with false
        by (symmetry; apply Nat.leb_gt; cbn; lia). reflexivity.
    + replace (length a + 1 <=? length a + length (x :: fl)) with true
        by (symmetry; apply Nat.leb_le; cbn; lia).
      rewrite Nat.add_1_r, skipn_S_app_len. reflexivity.
Qed.

Lemma collect_some {X Y} (F : X -> Y) (l : list X) :
  collect (map (fun c => Some (F c)) l) = Ok (map F l).
Proof. induction l as [|x l IH]; [reflexivity|]. cbn [map collect]. rewrite IH. reflexivity. Qed.

Lemma collect_none {X Y} (l : list X) : l <> [] ->
  collect (map (fun _ => @None Y) l) = Err EValue.
Proof. destruct l; [congruence|reflexivity]. Qed.

Section Lines.
  Variable table : list (text * segs).
  Variable default_style : text.
  Variable rend : rt -> text.

  Definition lines_rel (g : seg6) (top : bool) (roots : list rt) : list text :=
    map (fun c => pfx_rel g top c ++ rend (n_node c)) (ctxs_l [] roots).

  Lemma lines_of_ctxs style g a (top : bool) l :
    unpack style = Some g ->
    collect (map (fun c => option_map (fun p => p ++ rend (n_node c))
                                      (get_prefix style (length a + (if top then 0 else 1)) c))
                 (ctxs_l a l))
    = Ok (lines_rel g top l).
  Proof.
    intros U. rewrite (ctxs_l_shift a l), map_map. unfold lines_rel.
    rewrite <- collect_some. f_equal. apply map_ext. intros c.
    rewrite (get_prefix_shift _ g) by exact U. reflexivity.
  Qed.

  Notation RL := (render_lines table default_style rend).
  Notation FI := (format_iter table default_style rend).
  Notation TFI := (tree_format_iter table default_style rend).

  Lemma render_node_self a style g f anc last t :
    resolve_style table default_style a = Ok style -> unpack style = Some g ->
    RL f (SNode (anc, last, t)) a true = Ok (rend t :: lines_rel g true (rch t)).
  Proof.
    intros R U. unfold render_lines. rewrite R.
    cbn [start_depth iter_ctxs n_anc n_last n_node fst snd].
    rewrite ctxs_t_unfold. cbn [map].
    rewrite (get_prefix_spec _ g) by exact U. cbn [n_anc n_last n_node fst snd].
    replace (S (length anc) + 0 <=? length anc) with false by (symmetry; apply Nat.leb_gt; lia).
    cbn [option_map collect app].
    replace (S (length anc) + 0) with (length (anc ++ [last]) + 0)
      by (rewrite app_length; cbn [length]; lia).
    rewrite (lines_of_ctxs style g (anc ++ [last]) true (rch t) U). reflexivity.
  Qed.

  Lemma render_node_noself a style g f anc last t :
    resolve_style table default_style a = Ok style -> unpack style = Some g ->
    RL f (SNode (anc, last, t)) a false = Ok (lines_rel g false (rch t)).
  Proof.
    intros R U. unfold render_lines. rewrite R.
    cbn [start_depth iter_ctxs n_anc n_last n_node fst snd].
    replace (S (length anc) + 1) with (length (anc ++ [last]) + 1)
      by (rewrite app_length; cbn [length]; lia).
    exact (lines_of_ctxs style g (anc ++ [last]) false (rch t) U).
  Qed.

  Lemma render_root a style g f add_self :
    resolve_style table default_style a = Ok style -> unpack style = Some g ->
    RL f SRoot a add_self = Ok (lines_rel g add_self f).
  Proof.
    intros R U. unfold render_lines. rewrite R. cbn [start_depth iter_ctxs].
    exact (lines_of_ctxs style g [] add_self f U).
  Qed.

  (* ---------------- theorem 1: lines = prefixes zipped with the pre-order ---------------- *)
  Definition zip_lines (pfx : list text) (ns : list rt) : list text :=
    map (fun pn => fst pn ++ rend (snd pn)) (combine pfx ns).

  Lemma zip_lines_map {X} (F : X -> text) (N : X -> rt) (l : list X) :
    map (fun c => F c ++ rend (N c)) l = zip_lines (map F l) (map N l).
  Proof.
    unfold zip_lines. induction l as [|x l IH]; [reflexivity|].
    cbn [map combine fst snd]. rewrite IH. reflexivity.
  Qed.

  Definition rel_prefixes (g : seg6) (top : bool) (roots : list rt) : list text :=
    map (pfx_rel g top) (ctxs_l [] roots).

  Lemma lines_rel_zip g top roots :
    lines_rel g top roots = zip_lines (rel_prefixes g top roots) (pre_f roots).
  Proof. unfold lines_rel, rel_prefixes. rewrite zip_lines_map, ctxs_nodes_l. reflexivity. Qed.

  Lemma rel_prefixes_length g top roots : length (rel_prefixes g top roots) = length (pre_f roots).
  Proof. unfold rel_prefixes. rewrite map_length, <- (ctxs_nodes_l roots []), map_length. reflexivity. Qed.

  (* prefixes / nodes of Node.format *)
  Definition node_prefixes (g : seg6) (add_self : bool) (t : rt) : list text :=
    if add_self then [] :: rel_prefixes g true (rch t) else rel_prefixes g false (rch t).
  Definition node_branch (add_self : bool) (t : rt) : list rt :=
    if add_self then pre t else pre_f (rch t).

  (* title logic of Tree.format, restated *)
  Definition title_lines (trepr : text) (is_list : bool) (ti : title_arg) : list text :=
    match ti with
    | TiDefault => if is_list then [] else [trepr]
    | TiFalse => []
    | TiTrue => [trepr]
    | TiText [] => []
    | TiText t => [t]
    end.
  Definition has_title (is_list : bool) (ti : title_arg) : bool :=
    match ti with TiFalse => false | TiDefault => negb is_list | _ => true end.

  Theorem node_format_lines a style g f anc last t add_self :
    is_list_style a = false ->
    resolve_style table default_style a = Ok style -> unpack style = Some g ->
    FI f (SNode (anc, last, t)) a add_self
      = Ok (zip_lines (node_prefixes g add_self t) (node_branch add_self t))
    /\ length (node_prefixes g add_self t) = length (node_branch add_self t).
  Proof.
    intros NL R U. unfold format_iter. rewrite NL. destruct add_self.
    - rewrite (render_node_self _ style g) by assumption. split.
      + unfold node_prefixes, node_branch. rewrite pre_unfold, lines_rel_zip. reflexivity.
      + unfold node_prefixes, node_branch. rewrite pre_unfold. cbn [length].
        rewrite rel_prefixes_length. reflexivity.
    - rewrite (render_node_noself _ style g) by assumption. split.
      + unfold node_prefixes, node_branch. rewrite lines_rel_zip. reflexivity.
      + apply rel_prefixes_length.
  Qed.

  Theorem tree_format_lines a style g trepr f ti :
    is_list_style a = false ->
    resolve_style table default_style a = Ok style -> unpack style = Some g ->
    TFI trepr f a ti
      = Ok (title_lines trepr false ti ++
            zip_lines (rel_prefixes g (has_title false ti) f) (pre_f f))
    /\ length (rel_prefixes g (has_title false ti) f) = length (pre_f f).
  Proof.
    intros NL R U. split; [|apply rel_prefixes_length].
    unfold tree_format_iter, format_iter. rewrite NL.
    destruct ti as [| | |[|x r]]; cbn [has_title title_lines negb];
      rewrite (render_root _ style g) by assumption; rewrite lines_rel_zip; reflexivity.
  Qed.

  (* Node.format_iter called on the system root itself: it is never a line;
     its children carry a connector iff add_self *)
  Theorem root_format_lines a style g f add_self :
    is_list_style a = false ->
    resolve_style table default_style a = Ok style -> unpack style = Some g ->
    FI f SRoot a add_self = Ok (zip_lines (rel_prefixes g add_self f) (pre_f f))
    /\ length (rel_prefixes g add_self f) = length (pre_f f).
  Proof.
    intros NL R U. split; [|apply rel_prefixes_length].
    unfold format_iter. rewrite NL. rewrite (render_root _ style g) by assumption.
    rewrite lines_rel_zip. reflexivity.
  Qed.

  Theorem root_list_style_lines a f add_self :
    is_list_style a = true -> FI f SRoot a add_self = Ok (map rend (pre_f f)).
  Proof.
    intros IL. unfold format_iter. rewrite IL. cbn [iter_ctxs].
    rewrite <- map_map, ctxs_nodes_l. reflexivity.
  Qed.

  Theorem list_style_lines a f anc last t add_self trepr ti :
    is_list_style a = true ->
    FI f (SNode (anc, last, t)) a add_self = Ok (map rend (node_branch add_self t))
    /\ TFI trepr f a ti = Ok (title_lines trepr true ti ++ map rend (pre_f f)).
  Proof.
    intros IL. split.
    - unfold format_iter. rewrite IL. cbn [iter_ctxs n_anc n_last n_node fst snd].
      rewrite <- map_map. destruct add_self; cbn [node_branch].
      + rewrite ctxs_nodes_t. reflexivity.
      + rewrite ctxs_nodes_l. reflexivity.
    - unfold tree_format_iter, format_iter. rewrite IL. cbn [iter_ctxs].
      rewrite <- map_map, ctxs_nodes_l.
      destruct ti as [| | |[|x r]]; reflexivity.
  Qed.

  (* errors: unknown style name; tuple length not 4/6 and something to render *)
  Theorem format_errors a f st add_self :
    is_list_style a = false ->
    (resolve_style table default_style a = Err EValue -> FI f st a add_self = Err EValue)
    /\ (forall style, resolve_style table default_style a = Ok style -> unpack style = None ->
        FI f st a add_self
        = if is_nil (iter_ctxs f st (match st with SRoot => false | SNode _ => add_self end))
          then Ok [] else Err EValue).
  Proof.
    intros NL. unfold format_iter, render_lines. rewrite NL. split.
    - intros R. rewrite R. reflexivity.
    - intros style R U. rewrite R.
      erewrite map_ext by (intros c; rewrite get_prefix_none by exact U; reflexivity).
      destruct (iter_ctxs f st _) as [|c l]; reflexivity.
  Qed.
End Lines.
