(* Round trip when data_ids do NOT survive a rebuild (identity-hashed data: plain objects,
   DictWrapper, FileSystemEntry): the loaded ids are a renaming rho of the stored ones; if rho is
   injective on the tree's ids, shape, data, kinds and the clone partition are reproduced.
   [ids_stable] is the special case rho = id.  Known finding D40 is exactly a tree for which no
   such rho exists (one data_id is materialised twice, with two fresh ids). *)
From Coq Require Import List ZArith Bool Arith Lia Permutation.
From NT Require Import Sx Rose ListFacts RoseFacts Serialize SerializeSpec SerDictFacts SerCompressProofs
     SerLayFacts SerWriterProofs SerReaderProofs SerUnflatProofs SerIsoProofs SerializeProofs SerTheorems.
From NTGen Require Import Generated.
Import ListNotations.

Fixpoint map_info (g : info -> info) (t : rt) : rt := match t with T _ i ch => T 0 (g i) (map (map_info g) ch) end.

Lemma map_info_obs t : map_info obs_info t = erase t.
Proof.
  induction t as [id i ch IH] using rt_ind'. cbn. f_equal. induction ch as [|c ch IHc]; [reflexivity|].
  inversion IH as [|? ? Hc Hch]; subst. cbn. now rewrite Hc, IHc.
Qed.

Lemma pre_map_info g : forall t, map rinfo (pre (map_info g t)) = map g (map rinfo (pre t)).
Proof.
  induction t as [id i ch IH] using rt_ind'. cbn [map_info pre map rinfo]. f_equal.
  induction ch as [|c ch IHc]; [reflexivity|]. inversion IH as [|? ? Hc Hch]; subst.
  cbn [map flat_map]. rewrite !map_app, Hc, IHc; auto.
Qed.

Lemma relabel_map_info infos g : forall t pp p,
  (forall q, In q (lay pp p t) -> obs_info (infos (q_pos q)) = g (rinfo (q_node q))) ->
  erase (relabel infos p t) = map_info g t.
Proof.
  induction t as [id i ch IH] using rt_ind'. intros pp p H. rewrite relabel_unfold, lay_unfold in *. cbn [rch] in *.
  cbn [erase map_info]. f_equal.
  - apply (H (pp, p, T id i ch)). now left.
  - assert (H' : forall q, In q (lay_f p (S p) ch) -> obs_info (infos (q_pos q)) = g (rinfo (q_node q))).
    { intros q Hq. apply H. now right. }
    clear H. revert H'. generalize (S p) as p0. induction ch as [|c ch IHc]; intros p0 H'; [reflexivity|].
    inversion IH as [|? ? Hc Hch]; subst. cbn [relabel_f map lay_f] in *. f_equal.
    + apply (Hc p p0). intros q Hq. apply H'. apply in_or_app. now left.
    + apply IHc; [exact Hch|]. intros q Hq. apply H'. apply in_or_app. now right.
Qed.

Lemma relabel_f_map_info infos g : forall f pp p0,
  (forall q, In q (lay_f pp p0 f) -> obs_info (infos (q_pos q)) = g (rinfo (q_node q))) ->
  map erase (relabel_f infos p0 f) = map (map_info g) f.
Proof.
  induction f as [|c f IH]; intros pp p0 H; [reflexivity|]. cbn [relabel_f map lay_f] in *. f_equal.
  - apply (relabel_map_info infos g c pp p0). intros q Hq. apply H. apply in_or_app. now left.
  - apply (IH pp). intros q Hq. apply H. apply in_or_app. now right.
Qed.

Section Renamed.
  Variable c : cls.
  Variable ser : info -> dict -> dict.
  Variable deser : nat -> dict -> res dval.
  Variable shash : text -> Z.
  Variable f : forest.
  Variable rho : did -> did.

  Notation RB := (rb_info c ser deser shash).
  Let L := lay_f 0 1 f.

  Definition src_at (A : list (nat * nat * rt)) (q : nat * nat * rt) : nat * rt :=
    src_of (prev3 A) (q_pos q) (q_node q).

  (* the id of the node materialised for an entry is rho of the stored id *)
  Definition ids_renamed : Prop := forall A q B, L = A ++ q :: B ->
    i_did (RB (fst (src_at A q)) (snd (src_at A q))) = rho (rdid (q_node q)).
  Definition rho_inj : Prop := forall x y, In x (pre_f f) -> In y (pre_f f) -> rho (rdid x) = rho (rdid y) -> rdid x = rdid y.

  Definition obs_rho (i : info) : info := I 0 0 0 (i_isstr i) (i_name i) (rho (i_did i)) (i_kind i) [].
  (* same shape, order, rebuilt data, kinds; data_ids renamed by rho *)
  Definition iso_upto (f1 f2 : forest) : Prop := map (map_info obs_rho) f1 = map erase f2.

  Lemma L_in_nodes q : In q L -> In (q_node q) (pre_f f).
  Proof. intros Hq. rewrite <- (lay_f_nodes f 0 1). now apply in_map. Qed.

  Lemma DN_pardid_rho : ids_renamed -> forall l A, L = A ++ l ->
    map (fun e => (ln_par e, i_did (ln_info e))) (described_nodes c ser deser shash (prev3 A) l)
    = map (fun q => (q_ppos q, rho (rdid (q_node q)))) l.
  Proof.
    intros Hr. induction l as [|[[ppos pos] t] l IH]; intros A E; [reflexivity|].
    cbn [described_nodes map]. f_equal.
    - cbn [ln_par ln_info fst snd q_ppos q_node]. f_equal. exact (Hr A (ppos, pos, t) l E).
    - assert (E' : L = (A ++ [(ppos, pos, t)]) ++ l) by (rewrite E; la).
      specialize (IH _ E'). unfold prev3 in IH. rewrite map_app in IH. exact IH.
  Qed.

  Theorem described_unique_renamed : ids_renamed -> rho_inj -> sib_unique f -> described_unique c ser deser shash f.
  Proof.
    intros Hr Hi [Hn Hs]. unfold described_unique. fold L. pose proof (DN_pardid_rho Hr L [] eq_refl) as P. cbn [prev3 map] in P. rewrite P. clear P.
    assert (E : map (fun q => (q_ppos q, rho (rdid (q_node q)))) L = map (fun pd => (fst pd, rho (snd pd))) (map pardid L))
      by (rewrite map_map; reflexivity).
    rewrite E. apply NoDup_map_inj_in; [|apply lay_f_pardid_nodup; [lia|exact Hn|exact Hs]].
    intros [a d] [a' d'] H1 H2 Heq. cbn [fst snd] in Heq. injection Heq as -> Hd.
    apply in_map_iff in H1 as (q1 & E1 & Hq1). apply in_map_iff in H2 as (q2 & E2 & Hq2).
    unfold pardid in E1, E2. injection E1 as _ <-. injection E2 as _ <-.
    f_equal. apply Hi; [now apply L_in_nodes|now apply L_in_nodes|exact Hd].
  Qed.

  Lemma rb_fields p t : mapper_rebuilds c ser deser f -> kinds_ok c f -> In t (pre_f f) ->
    i_isstr (RB p t) = i_isstr (rinfo t) /\ i_name (RB p t) = i_name (rinfo t) /\ i_kind (RB p t) = i_kind (rinfo t).
  Proof.
    intros Hmr Hk Ht. pose proof (Hk t Ht) as Hkt. unfold rb_info, rkind in *. destruct (bare_str c (rinfo t)) eqn:Eb.
    - unfold bare_str in Eb. apply andb_true_iff in Eb as [Eb _]. apply andb_true_iff in Eb as [Ety Estr].
      apply negb_true_iff in Ety. rewrite Ety in Hkt. cbn [i_isstr i_name i_kind]. unfold default_kind. rewrite Ety, Estr, Hkt. auto.
    - destruct (Hmr p t Ht Eb) as [H1 H2]. cbn zeta in *. cbn [i_isstr i_name i_kind]. rewrite H1, H2. split; [reflexivity|]. split; [reflexivity|].
      destruct (is_typed c); [destruct (i_kind (rinfo t)); [reflexivity|contradiction]|now rewrite Hkt].
  Qed.

  Theorem described_iso_renamed : ids_renamed -> mapper_rebuilds c ser deser f -> kinds_ok c f -> clones_consistent f ->
    iso_upto f (described c ser deser shash f).
  Proof.
    intros Hr Hmr Hk Hcc. unfold iso_upto, described. symmetry. apply (relabel_f_map_info _ obs_rho f 0 1).
    fold L. intros q Hq. pose proof Hq as Hq0.
    apply in_split in Hq as (A & B & E).
    set (es := described_nodes c ser deser shash [] L).
    assert (Hnd : NoDup (map ln_idx es)).
    { unfold es. rewrite (DN_idx c ser deser shash). unfold L. rewrite lay_f_positions. apply seq_NoDup. }
    pose proof (Hr A q B E) as Hdid.
    destruct q as [[ppos pos] t]. unfold src_at in Hdid. cbn [q_pos q_node fst snd] in *.
    set (s := src_of (prev3 A) pos t) in *.
    assert (He : In (pos, ppos, RB (fst s) (snd s)) es).
    { unfold es. rewrite E. rewrite (DN_app c ser deser shash). apply in_or_app. right. cbn [app described_nodes]. now left. }
    unfold info_at.
    pose proof (find_ln_unique es _ Hnd He) as Hf. cbn [ln_idx fst] in Hf. rewrite Hf. cbn [ln_info snd].
    assert (Ht : In t (pre_f f)) by (apply (L_in_nodes (ppos, pos, t)); exact Hq0).
    assert (HA : forall e, In e (prev3 A) -> In (snd e) (pre_f f)).
    { intros e Hein. unfold prev3 in Hein. apply in_map_iff in Hein as (y & <- & Hy). cbn [snd]. apply L_in_nodes. rewrite E. apply in_or_app. now left. }
    destruct (src_of_in f (prev3 A) pos t HA Ht) as [Hs Hd]. fold s in Hs, Hd.
    destruct (rb_fields (fst s) (snd s) Hmr Hk Hs) as (F1 & F2 & F3).
    destruct (Hcc (snd s) t Hs Ht Hd) as [C1 C2].
    unfold obs_info, obs_rho. rewrite F1, F2, F3, Hdid, C1, C2. unfold rdid. f_equal.
    unfold s, src_of. destruct (first_same (rdid t) (prev3 A)) as [[j x]|]; [|reflexivity].
    destruct (kind_eqb (rkind t) (rkind x)) eqn:Ek; [|reflexivity]. apply kind_eqb_eq in Ek. cbn [snd]. unfold rkind in Ek. now rewrite Ek.
  Qed.

  (* loaded data_ids in pre-order = rho of the stored ones: with rho injective, the same clone partition *)
  Lemma iso_upto_dids f' : iso_upto f f' -> map rdid (pre_f f') = map rho (map rdid (pre_f f)).
  Proof.
    unfold iso_upto. intros E.
    assert (G : forall g : forest, map rdid (pre_f (map erase g)) = map rdid (pre_f g)).
    { induction g as [|t g IH]; [reflexivity|]. cbn [map flat_map]. now rewrite !map_app, pre_erase, IH. }
    rewrite <- (G f'), <- E. clear.
    induction f as [|t g IH]; [reflexivity|]. cbn [map flat_map]. rewrite !map_app, IH. f_equal.
    unfold rdid. rewrite <- (map_map rinfo i_did), pre_map_info, !map_map. reflexivity.
  Qed.

  Theorem roundtrip_renamed ko vo meta :
    tree_ok c f -> opts_ok c ser ko vo meta f -> mapper_ok c ser deser f -> ids_renamed -> rho_inj ->
    exists j f', save_doc c ser ko vo meta f = Ok j /\
                 load_doc c deser shash j = Ok (header_spec (resolve_km c ko) (resolve_vm c vo f) meta, f') /\
                 iso_upto f f' /\ map rdid (pre_f f') = map rho (map rdid (pre_f f)) /\ ids f' = seq 1 (size_f f).
  Proof.
    intros (Hids & Hsib & Hk & Hcc) Ho (Hm & Hmr) Hr Hi.
    pose proof (described_unique_renamed Hr Hi Hsib) as Hu.
    destruct (load_save_described c ser deser shash f ko vo meta Hids Ho Hm Hu) as (j & Hs & Hl).
    exists j, (described c ser deser shash f). split; [exact Hs|]. split; [exact Hl|].
    pose proof (described_iso_renamed Hr Hmr Hk Hcc) as Hiso. split; [exact Hiso|]. split; [now apply iso_upto_dids|apply ids_relabel_f].
  Qed.
End Renamed.

(* ---- the canonical renaming: the id rebuilt for the FIRST occurrence of a data_id.  It works
   whenever every later occurrence has the kind of the first one (always, in a plain Tree): then each
   data_id is materialised exactly once.  D40 = a tree where this fails. *)
Section Canonical.
  Variable c : cls.
  Variable ser : info -> dict -> dict.
  Variable deser : nat -> dict -> res dval.
  Variable shash : text -> Z.
  Variable f : forest.

  Definition rho_of (d : did) : did :=
    match first_same d (prev3 (lay_f 0 1 f)) with
    | Some (j, x) => i_did (rb_info c ser deser shash j x)
    | None => d
    end.

  (* every later node with an already seen data_id has the kind of the first one *)
  Definition clones_same_kind : Prop := forall A q B x j, lay_f 0 1 f = A ++ q :: B ->
    first_same (rdid (q_node q)) (prev3 A) = Some (j, x) -> rkind (q_node q) = rkind x.

  Lemma ids_renamed_canonical : clones_same_kind -> ids_renamed c ser deser shash f rho_of.
  Proof.
    intros Hk A q B E. unfold rho_of, src_at, src_of. rewrite E.
    assert (Ep : prev3 (A ++ q :: B) = prev3 A ++ (q_pos q, q_node q) :: prev3 B) by (unfold prev3; now rewrite map_app).
    rewrite Ep. clear Ep.
    destruct q as [[ppos pos] t]. cbn [q_pos q_node fst snd].
    destruct (first_same (rdid t) (prev3 A)) as [[j x]|] eqn:Ef.
    - pose proof (Hk A (ppos, pos, t) B x j E Ef) as Hkk. cbn [q_node snd] in Hkk.
      assert (Eke : kind_eqb (rkind t) (rkind x) = true) by (apply kind_eqb_eq; exact Hkk). rewrite Eke. cbn [fst snd].
      unfold first_same in *. now rewrite (find_app_some _ _ _ _ Ef).
    - cbn [fst snd]. unfold first_same in *. rewrite (find_app_none _ _ _ Ef). cbn [find snd]. now rewrite did_eqb_refl.
  Qed.

  (* in a plain tree all kinds are None *)
  Lemma plain_clones_same_kind : is_typed c = false -> kinds_ok c f -> clones_same_kind.
  Proof.
    intros Ety Hk A q B x j E Ef.
    assert (HL : forall y, In y (lay_f 0 1 f) -> In (q_node y) (pre_f f)).
    { intros y Hy. rewrite <- (lay_f_nodes f 0 1). now apply in_map. }
    assert (H1 : rkind (q_node q) = None).
    { pose proof (Hk (q_node q)) as H. rewrite Ety in H. apply H. apply HL. rewrite E. apply in_or_app. right. now left. }
    assert (H2 : rkind x = None).
    { destruct (first_same_in _ _ _ _ Ef) as [Hi _]. unfold prev3 in Hi. apply in_map_iff in Hi as (y & [= _ <-] & Hy).
      pose proof (Hk (q_node y)) as H. rewrite Ety in H. apply H. apply HL. rewrite E. apply in_or_app. now left. }
    now rewrite H1, H2.
  Qed.

  Theorem roundtrip_any_data ko vo meta :
    tree_ok c f -> opts_ok c ser ko vo meta f -> mapper_ok c ser deser f ->
    clones_same_kind -> rho_inj f rho_of ->
    exists j f', save_doc c ser ko vo meta f = Ok j /\
                 load_doc c deser shash j = Ok (header_spec (resolve_km c ko) (resolve_vm c vo f) meta, f') /\
                 iso_upto rho_of f f' /\ map rdid (pre_f f') = map rho_of (map rdid (pre_f f)) /\ ids f' = seq 1 (size_f f).
  Proof.
    intros Ht Ho Hm Hk Hi. apply roundtrip_renamed; auto. now apply ids_renamed_canonical.
  Qed.
End Canonical.
