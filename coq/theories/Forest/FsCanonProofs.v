(* C19 -- the loaded tree, read back as a directory, IS the scanned directory up to
   the order of each listing (an explicit bijection that keeps the parent relation);
   with sort=True it is the unique canonical tree with that property. *)
From Coq Require Import List ZArith Bool Lia Permutation Sorted.
From NT Require Import Sx Rose FsLoad FsLoadProofs.
Import ListNotations.
Open Scope Z_scope.

(* a tree of FileSystemEntry nodes read as a directory value *)
Fixpoint dir_of_t (t : ft) : fsn :=
  match t with
  | FN e ch =>
      if e_isdir e then Dir (e_name e) (map dir_of_t ch)
      else File (e_name e) (e_size e) (match e_mdate e with Some m => m | None => (0, 1) end)
  end.
Definition dir_of (f : list ft) : list fsn := map dir_of_t f.

(* the directory without the entries the scan skips *)
Fixpoint strip (x : fsn) : list fsn :=
  match x with
  | File n s m => [File n s m]
  | Other _ => []
  | Dir n l => [Dir n (flat_map strip l)]
  end.
Definition strip_l (l : list fsn) : list fsn := flat_map strip l.

Lemma Forall2_flat_map {X Y} (R : Y -> Y -> Prop) (g h : X -> list Y) l :
  Forall (fun x => Forall2 R (g x) (h x)) l -> Forall2 R (flat_map g l) (flat_map h l).
Proof.
  induction 1 as [|x l Hx Hl IH]; cbn; [constructor|]. apply Forall2_app; assumption.
Qed.

Lemma conv_strip s x : Forall2 fperm (strip x) (dir_of (conv s x)).
Proof.
  induction x as [n sz m|n|n l IH] using fsn_ind'.
  - cbn. repeat constructor.
  - constructor.
  - rewrite conv_dir. cbn [strip dir_of map dir_of_t entry_dir e_isdir e_name]. constructor; [|constructor].
    apply FP_dir with (l1 := dir_of (flat_map (conv s) l)).
    + unfold dir_of.
      assert (E : map dir_of_t (flat_map (conv s) l) = flat_map (fun x => map dir_of_t (conv s x)) l).
      { clear. induction l as [|x l IHl]; cbn; [reflexivity|]. rewrite map_app, IHl. reflexivity. }
      rewrite E. apply Forall2_flat_map. exact IH.
    + apply Permutation_map. symmetry. apply kids_perm.
Qed.

(* the tree is the directory, up to the order of each listing *)
Theorem load_is_directory s l : lperm (strip_l l) (dir_of (load s l)).
Proof.
  exists (dir_of (flat_map (conv s) l)). split.
  - assert (E : dir_of (flat_map (conv s) l) = flat_map (fun x => dir_of (conv s x)) l).
    { unfold dir_of. induction l as [|x l IHl]; cbn; [reflexivity|]. rewrite map_app, IHl. reflexivity. }
    rewrite E. apply Forall2_flat_map. rewrite Forall_forall. intros x _. apply conv_strip.
  - unfold load. apply Permutation_map. symmetry. apply kids_perm.
Qed.

(* skipped entries do not influence the result *)
Lemma conv_strip_same s x : flat_map (conv s) (strip x) = conv s x.
Proof.
  induction x as [n sz m|n|n l IH] using fsn_ind'.
  - reflexivity.
  - reflexivity.
  - cbn [strip flat_map]. rewrite app_nil_r, !conv_dir. do 3 f_equal.
    rewrite flat_map_flat_map. apply flat_map_eq_pointwise. exact IH.
Qed.

Theorem load_strip s l : load s (strip_l l) = load s l.
Proof.
  unfold load, strip_l. f_equal. rewrite flat_map_flat_map. apply flat_map_eq_pointwise.
  rewrite Forall_forall. intros x _. apply conv_strip_same.
Qed.

(* ------------------------------------------------------------------ *)
(* canonical trees                                                      *)
Fixpoint subtrees (t : ft) : list ft := match t with FN _ ch => t :: flat_map subtrees ch end.

Definition node_ok (t : ft) : Prop :=
  match t with
  | FN e ch =>
      (e_isdir e = true -> e_size e = 0 /\ e_mdate e = None) /\
      (e_isdir e = false -> ch = [] /\ exists m, e_mdate e = Some m) /\
      ordered ch /\ NoDup (map ft_name ch)
  end.

Definition canon (f : list ft) : Prop :=
  ordered f /\ NoDup (map ft_name f) /\ Forall node_ok (flat_map subtrees f).

Lemma filter_all_true {X} (f : X -> bool) l : Forall (fun x => f x = true) l -> filter f l = l.
Proof. induction 1 as [|x l Hx Hl IH]; cbn; [reflexivity|]. rewrite Hx, IH. reflexivity. Qed.

Lemma filter_all_false {X} (f : X -> bool) l : Forall (fun x => f x = false) l -> filter f l = [].
Proof. induction 1 as [|x l Hx Hl IH]; cbn; [reflexivity|]. rewrite Hx. exact IH. Qed.

Lemma sort_by_sorted_id {X} (key : X -> text) l :
  Sorted (key_le key) l -> NoDup (map key l) -> sort_by key l = l.
Proof.
  intros S ND. apply (sorted_perm_eq key).
  - apply sort_by_strongly_sorted.
  - apply Sorted_StronglySorted; [apply key_le_trans|exact S].
  - apply sort_by_perm.
  - eapply Permutation_NoDup; [|exact ND]. apply Permutation_map. symmetry. apply sort_by_perm.
Qed.

Lemma kids_fix ch : ordered ch -> NoDup (map ft_name ch) -> kids true ch = ch.
Proof.
  intros (fs & ds & -> & Hf & Hd & Sf & Sd) ND. unfold kids.
  rewrite map_app in ND. rewrite !filter_app.
  rewrite (filter_all_true (fun t => negb (ft_isdir t)) fs)
    by (eapply Forall_impl; [|exact Hf]; cbn; intros t ->; reflexivity).
  rewrite (filter_all_false (fun t => negb (ft_isdir t)) ds)
    by (eapply Forall_impl; [|exact Hd]; cbn; intros t ->; reflexivity).
  rewrite (filter_all_false ft_isdir fs) by exact Hf.
  rewrite (filter_all_true ft_isdir ds) by exact Hd.
  rewrite app_nil_r. cbn [app].
  rewrite (sort_by_sorted_id ft_name fs Sf) by (eapply NoDup_app_l; exact ND).
  rewrite (sort_by_sorted_id ft_name ds Sd) by (eapply NoDup_app_r; exact ND).
  reflexivity.
Qed.

Lemma flat_map_singleton {X Y} (g : X -> Y) (h : X -> list Y) l :
  Forall (fun x => h x = [g x]) l -> flat_map h l = map g l.
Proof. induction 1 as [|x l Hx Hl IH]; cbn; [reflexivity|]. rewrite Hx, IH. reflexivity. Qed.

Lemma conv_dir_of_t t : Forall node_ok (subtrees t) -> conv true (dir_of_t t) = [t].
Proof.
  induction t as [e ch IH] using ft_ind'. intros H. cbn [subtrees] in H.
  inversion H as [|x xs Hn Hsub]; subst. destruct Hn as (Hd & Hf & Hord & Hnd).
  destruct e as [n isdir sz md]. cbn [e_isdir e_name e_size e_mdate] in *. cbn [dir_of_t e_isdir e_name e_size e_mdate].
  destruct isdir.
  - destruct (Hd eq_refl) as [-> ->]. rewrite conv_dir. do 2 f_equal.
    assert (E : flat_map (conv true) (map dir_of_t ch) = ch).
    { rewrite flat_map_concat_map, map_map, <- flat_map_concat_map.
      rewrite (flat_map_singleton (fun c => c) (fun c => conv true (dir_of_t c))); [apply map_id|].
      apply Forall_flat_map' in Hsub. rewrite Forall_forall in *. intros c Hc. apply IH; [exact Hc|]. apply Hsub; exact Hc. }
    rewrite E. apply kids_fix; assumption.
  - destruct (Hf eq_refl) as [-> [m ->]]. reflexivity.
Qed.

(* a canonical tree is the sorted load of itself read as a directory *)
Theorem load_dir_of f : canon f -> load true (dir_of f) = f.
Proof.
  intros (Hord & Hnd & Hsub). unfold load, dir_of.
  assert (E : flat_map (conv true) (map dir_of_t f) = f).
  { rewrite flat_map_concat_map, map_map, <- flat_map_concat_map.
    rewrite (flat_map_singleton (fun c => c) (fun c => conv true (dir_of_t c))); [apply map_id|].
    apply Forall_flat_map' in Hsub. rewrite Forall_forall in *. intros c Hc. apply conv_dir_of_t. apply Hsub; exact Hc. }
  rewrite E. apply kids_fix; assumption.
Qed.

(* the sorted load of a directory with distinct names per folder is canonical *)
Lemma kids_names s ts : Permutation (map ft_name (kids s ts)) (map ft_name ts).
Proof. apply Permutation_map, kids_perm. Qed.

Lemma conv_canon x : wf_names x -> Forall node_ok (flat_map subtrees (conv true x)).
Proof.
  induction x as [n sz m|n|n l IH] using fsn_ind'; intros W.
  - cbn. constructor; [|constructor]. refine (conj _ (conj _ (conj _ _))).
    + intros H; discriminate H.
    + intros _. split; [reflexivity|exists m; reflexivity].
    + exists [], []. repeat constructor.
    + constructor.
  - constructor.
  - rewrite conv_dir. cbn [flat_map subtrees]. rewrite app_nil_r.
    apply wf_names_dir in W as [ND Wl]. apply wf_names_l_forall in Wl.
    constructor.
    + refine (conj _ (conj _ (conj _ _))).
      * intros _. split; reflexivity.
      * intros H; discriminate H.
      * apply kids_ordered.
      * eapply Permutation_NoDup; [symmetry; apply kids_names|]. rewrite conv_names. exact ND.
    + apply Forall_flat_map'. eapply Permutation_Forall; [symmetry; apply kids_perm|].
      apply Forall_flat_map'. rewrite Forall_forall in *. intros x Hx.
      apply Forall_flat_map'. apply IH; [exact Hx|apply Wl; exact Hx].
Qed.

Theorem load_canon l : wf_listing l -> canon (load true l).
Proof.
  intros [ND W]. apply wf_names_l_forall in W. unfold load. refine (conj _ (conj _ _)).
  - apply kids_ordered.
  - eapply Permutation_NoDup; [symmetry; apply kids_names|]. rewrite conv_names. exact ND.
  - apply Forall_flat_map'. eapply Permutation_Forall; [symmetry; apply kids_perm|].
    apply Forall_flat_map'. rewrite Forall_forall in *. intros x Hx.
    apply Forall_flat_map'. apply conv_canon. apply W; exact Hx.
Qed.

(* uniqueness: the sorted load is THE canonical tree that is the directory up to listing order *)
Theorem load_unique l g :
  wf_listing l -> lperm l (dir_of g) -> canon g -> load true l = g.
Proof.
  intros W P C. rewrite (load_order_independent l (dir_of g) P W). apply load_dir_of; exact C.
Qed.
