(* C08 — proofs about the filter model (Filter.v). *)
From Coq Require Import List ZArith Bool Arith Lia Permutation.
From NT Require Import Sx Rose ListFacts RoseFacts Filter.
Import ListNotations.

(* ------------------------------------------------------------------ *)
(* returned vs raised signals                                          *)
Lemma classify_same r : classify_ip (call_predicate r) = classify_cp (call_predicate r).
Proof. destruct r as [[|]| |[a| |]|[a| |]|]; reflexivity. Qed.

Lemma returned_raised_same c : call_predicate (RRet c) = call_predicate (RRaise c).
Proof. reflexivity. Qed.

Lemma stop_iteration_is_stop : call_predicate RRaiseStopIteration = call_predicate (RRaise CStop).
Proof. reflexivity. Qed.

Lemma ids_cons' x xs : ids (x :: xs) = ids_t x ++ ids xs.
Proof. rewrite ids_cons, ids_t_unfold. reflexivity. Qed.

(* ------------------------------------------------------------------ *)
(* sub-forests                                                          *)
Lemma sublist_refl {X} (l : list X) : sublist l l.
Proof. induction l; constructor; assumption. Qed.

Lemma sublist_in {X} (a b : list X) x : sublist a b -> In x a -> In x b.
Proof.
  induction 1 as [b|a y b _ IH|y a b _ IH]; intros H.
  - destruct H.
  - right; apply IH, H.
  - destruct H as [->|H]; [left; reflexivity|right; apply IH, H].
Qed.

Lemma sublist_app {X} (a b c d : list X) : sublist a b -> sublist c d -> sublist (a ++ c) (b ++ d).
Proof.
  induction 1 as [b|a y b _ IH|y a b _ IH]; intros H; cbn.
  - induction b; cbn; [exact H|constructor; assumption].
  - constructor; apply IH, H.
  - constructor; apply IH, H.
Qed.

Lemma sublist_NoDup {X} (a b : list X) : sublist a b -> NoDup b -> NoDup a.
Proof.
  induction 1 as [b|a y b _ IH|y a b S IH]; intros H.
  - constructor.
  - inversion H; subst; apply IH; assumption.
  - inversion H as [|? ? Hn Hb]; subst. constructor; [|apply IH, Hb].
    intros Hin; apply Hn. eapply sublist_in; eassumption.
Qed.

Lemma sublist_map {X Y} (g : X -> Y) (a b : list X) : sublist a b -> sublist (map g a) (map g b).
Proof. induction 1; cbn; constructor; assumption. Qed.

Lemma emb_refl : forall f, emb f f.
Proof.
  assert (H : forall t a b, emb a b -> emb (t :: a) (t :: b)).
  { induction t as [id i ch IH] using rt_ind'. intros a b E. apply emb_keep; [|exact E].
    induction IH as [|c ch Hc _ IHch]; [constructor|]. apply Hc. exact IHch. }
  induction f as [|t f IH]; [constructor|]. apply H. exact IH.
Qed.

Lemma emb_ids a b : emb a b -> sublist (ids a) (ids b).
Proof.
  induction 1 as [b|a t b _ IH|id i ch' ch a b _ IH1 _ IH2].
  - constructor.
  - rewrite (ids_cons t b). apply sub_drop. apply (sublist_app [] _ _ _ (sub_nil _) IH).
  - rewrite !ids_cons. cbn [rid rch]. apply sub_keep. apply sublist_app; assumption.
Qed.

Lemma emb_top a b : emb a b -> sublist (map rid a) (map rid b).
Proof. induction 1; cbn; constructor; assumption. Qed.

(* every node of the sub-forest is a node of the forest: same identity, same
   payload, and its child list is a sub-forest of the original child list *)
Lemma emb_node a b : emb a b -> forall t', In t' (pre_f a) ->
  exists t, In t (pre_f b) /\ rid t = rid t' /\ rinfo t = rinfo t' /\ emb (rch t') (rch t).
Proof.
  induction 1 as [b|a t b _ IH|id i ch' ch a b E1 IH1 E2 IH2]; intros t' Hin.
  - destruct Hin.
  - destruct (IH t' Hin) as [t0 [H1 H2]]. exists t0. split; [|exact H2].
    cbn [flat_map]. apply in_or_app. right. exact H1.
  - cbn [flat_map pre] in Hin. destruct Hin as [<-|Hin].
    + exists (T id i ch). cbn [flat_map pre rid rinfo rch].
      refine (conj (or_introl eq_refl) (conj eq_refl (conj eq_refl E1))).
    + apply in_app_or in Hin. destruct Hin as [Hin|Hin].
      * destruct (IH1 t' Hin) as [t0 [H1 H2]]. exists t0. split; [|exact H2].
        cbn [flat_map pre]. right. apply in_or_app. left. exact H1.
      * destruct (IH2 t' Hin) as [t0 [H1 H2]]. exists t0. split; [|exact H2].
        cbn [flat_map]. apply in_or_app. right. exact H1.
Qed.

(* parent links of the sub-forest are parent links of the forest *)
Lemma emb_child a b p c : emb a b -> child_in a p c -> child_in b p c.
Proof.
  intros E [t' [Hin [Hp Hc]]]. destruct (emb_node a b E t' Hin) as [t [H1 [H2 [_ H4]]]].
  exists t. refine (conj H1 (conj _ _)); [congruence|].
  eapply sublist_in; [apply emb_top; exact H4|exact Hc].
Qed.

Lemma desc_closed0 l p t : In p (pre_f l) -> In t (pre_f (rch p)) -> In t (pre_f l).
Proof.
  intros Hp Ht. destruct (pre_f_segment l p Hp) as [a [b E]]. rewrite E.
  apply in_or_app. right. apply in_or_app. left. rewrite pre_unfold. right. exact Ht.
Qed.

(* ------------------------------------------------------------------ *)
(* branch starts: [upd_at n g] replaces the child list of node n         *)
Lemma upd_at_ext n g g' : forall t, (forall p, In p (pre t) -> rid p = n -> g (rch p) = g' (rch p)) ->
  upd_at n g t = upd_at n g' t.
Proof.
  induction t as [id i ch IH] using rt_ind'. intros H. cbn [upd_at].
  destruct (Nat.eqb id n) eqn:E.
  - apply Nat.eqb_eq in E. pose proof (H (T id i ch) (pre_in_self _) E) as Hg. cbn [rch] in Hg. rewrite Hg. reflexivity.
  - f_equal. apply map_ext_in. intros c Hc. rewrite Forall_forall in IH. apply (IH c Hc).
    intros p Hp. apply H. rewrite pre_unfold. right. cbn [rch]. apply in_flat_map. exists c. split; assumption.
Qed.

Lemma ids_t_incl_ids c l : In c l -> incl (ids_t c) (ids l).
Proof.
  intros Hc m Hm. unfold ids. unfold ids_t in Hm. apply in_map_iff in Hm. destruct Hm as [t [E Ht]].
  apply in_map_iff. exists t. split; [exact E|]. apply in_flat_map. exists c. split; assumption.
Qed.

Lemma upd_at_absent n g : forall t, ~ In n (ids_t t) -> upd_at n g t = t.
Proof.
  induction t as [id i ch IH] using rt_ind'. intros H. cbn [upd_at]. rewrite ids_t_unfold in H. cbn [rid rch] in H.
  destruct (Nat.eqb id n) eqn:E; [apply Nat.eqb_eq in E; exfalso; apply H; left; exact E|].
  f_equal. rewrite <- (map_id ch) at 2. apply map_ext_in. intros c Hc. rewrite Forall_forall in IH.
  apply (IH c Hc). intros Hin. apply H. right. exact (ids_t_incl_ids c ch Hc n Hin).
Qed.

Lemma upd_at_absent_f n g l : ~ In n (ids l) -> map (upd_at n g) l = l.
Proof.
  intros H. rewrite <- (map_id l) at 2. apply map_ext_in. intros c Hc. apply upd_at_absent.
  intros Hin. apply H. exact (ids_t_incl_ids c l Hc n Hin).
Qed.

Lemma ids_rch_incl t x : In t (pre x) -> incl (ids (rch t)) (ids_t x).
Proof.
  intros Ht m Hm. unfold ids in Hm. apply in_map_iff in Hm. destruct Hm as [c [E Hc]]. subst m.
  unfold ids_t. apply in_map. rewrite <- (app_nil_r (pre x)). change (pre x ++ []) with (pre_f [x]).
  apply (desc_closed0 [x] t c); [cbn [flat_map]; rewrite app_nil_r; exact Ht|exact Hc].
Qed.

Definition upd_ids_ok n g (t0 : rt) : Prop := NoDup (ids_t t0) -> forall t, In t (pre t0) -> rid t = n ->
  forall m, In m (ids_t (upd_at n g t0)) <-> (In m (ids_t t0) /\ ~ In m (ids (rch t))) \/ In m (ids (g (rch t))).

Lemma ids_map_cons (h : rt -> rt) x xs : ids (map h (x :: xs)) = ids_t (h x) ++ ids (map h xs).
Proof. cbn [map]. rewrite ids_cons, ids_t_unfold. reflexivity. Qed.

Lemma upd_ids_f n g l : Forall (upd_ids_ok n g) l -> NoDup (ids l) -> forall t, In t (pre_f l) -> rid t = n ->
  forall m, In m (ids (map (upd_at n g) l)) <-> (In m (ids l) /\ ~ In m (ids (rch t))) \/ In m (ids (g (rch t))).
Proof.
  induction 1 as [|x xs Hx _ IH]; intros ND t Ht Hn m; [destruct Ht|].
  assert (E0 : ids (x :: xs) = ids_t x ++ ids xs) by (rewrite ids_cons, ids_t_unfold; reflexivity).
  assert (NDx : NoDup (ids_t x)) by (rewrite E0 in ND; exact (NoDup_app_l _ _ ND)).
  assert (NDxs : NoDup (ids xs)) by (rewrite E0 in ND; exact (NoDup_app_r _ _ ND)).
  assert (Dj : forall k, In k (ids_t x) -> In k (ids xs) -> False) by (intros k; rewrite E0 in ND; exact (NoDup_app_disj _ _ k ND)).
  rewrite ids_map_cons, E0, !in_app_iff. cbn [flat_map] in Ht. apply in_app_or in Ht. destruct Ht as [Ht|Ht].
  - assert (Hnx : ~ In n (ids xs)).
    { intros Hin. apply (Dj n); [|exact Hin]. rewrite <- Hn. unfold ids_t. apply in_map. exact Ht. }
    rewrite (upd_at_absent_f n g xs Hnx). rewrite (Hx NDx t Ht Hn m).
    pose proof (ids_rch_incl t x Ht) as Hsub. split.
    + intros [[[H1 H2]|H]|H]; [left; split; [left; exact H1|exact H2]|right; exact H|].
      left. split; [right; exact H|]. intros Hin. exact (Dj m (Hsub m Hin) H).
    + intros [[[H1|H1] H2]|H]; [left; left; split; assumption|right; exact H1|left; right; exact H].
  - assert (Hnx : ~ In n (ids_t x)).
    { intros Hin. apply (Dj n Hin). rewrite <- Hn. unfold ids. apply in_map. exact Ht. }
    rewrite (upd_at_absent n g x Hnx). rewrite (IH NDxs t Ht Hn m).
    assert (Hsub : incl (ids (rch t)) (ids xs)).
    { intros k Hk. unfold ids in Hk. apply in_map_iff in Hk. destruct Hk as [c [E Hc]]. subst k.
      unfold ids. apply in_map. exact (desc_closed0 xs t c Ht Hc). }
    split.
    + intros [H|[[H1 H2]|H]]; [|left; split; [right; exact H1|exact H2]|right; exact H].
      left. split; [left; exact H|]. intros Hin. exact (Dj m H (Hsub m Hin)).
    + intros [[[H1|H1] H2]|H]; [left; exact H1|right; left; split; assumption|right; right; exact H].
Qed.

Lemma upd_ids_t n g : forall t0, upd_ids_ok n g t0.
Proof.
  induction t0 as [id i ch IH] using rt_ind'. intros ND t Ht Hn m.
  rewrite ids_t_unfold in ND. cbn [rid rch] in ND. inversion ND as [|? ? Hnot NDc]; subst.
  cbn [upd_at]. rewrite pre_unfold in Ht. cbn [rch] in Ht.
  destruct (Nat.eqb id (rid t)) eqn:E.
  - apply Nat.eqb_eq in E. destruct Ht as [<-|Ht].
    + rewrite !ids_t_unfold. cbn [rid rch In]. split.
      * intros [H|H]; [left; split; [left; exact H|]|right; exact H]. rewrite <- H. exact Hnot.
      * intros [[[H|H] H2]|H]; [left; exact H|contradiction|right; exact H].
    + exfalso. apply Hnot. rewrite E. unfold ids. apply in_map. exact Ht.
  - destruct Ht as [<-|Ht]; [cbn [rid] in E; rewrite Nat.eqb_refl in E; discriminate E|].
    rewrite !ids_t_unfold. cbn [rid rch In]. rewrite (upd_ids_f (rid t) g ch IH NDc t Ht eq_refl m). split.
    + intros [H|[[H1 H2]|H]]; [left; split; [left; exact H|]|left; split; [right; exact H1|exact H2]|right; exact H].
      intros Hin. apply Hnot. rewrite H. unfold ids in *. apply in_map_iff in Hin. destruct Hin as [c [Ec Hc]].
      rewrite <- Ec. apply in_map. exact (desc_closed0 ch t c Ht Hc).
    + intros [[[H|H] H2]|H]; [left; exact H|right; left; split; assumption|right; right; exact H].
Qed.

Theorem upd_at_ids n g f t : NoDup (ids f) -> In t (pre_f f) -> rid t = n ->
  forall m, In m (ids (map (upd_at n g) f)) <-> (In m (ids f) /\ ~ In m (ids (rch t))) \/ In m (ids (g (rch t))).
Proof.
  intros ND Ht Hn. apply upd_ids_f; try assumption. apply Forall_forall. intros t0 _. apply upd_ids_t.
Qed.

(* ... and conversely: a kept node keeps its place (top level, or below its
   original parent), given unique identities *)
Lemma child_in_ids l p c : child_in l p c -> In c (ids l).
Proof.
  intros [q [Hq [_ Hc]]]. apply in_map_iff in Hc. destruct Hc as [t [E Ht]]. subst c.
  unfold ids. apply in_map. exact (pre_f_child_closed l q t Hq Ht).
Qed.

Lemma emb_ids_incl a b : emb a b -> incl (ids a) (ids b).
Proof. intros E m Hm. exact (sublist_in _ _ m (emb_ids a b E) Hm). Qed.

Lemma emb_top_conv a b : emb a b -> NoDup (ids b) -> forall c, In c (map rid b) -> In c (ids a) -> In c (map rid a).
Proof.
  induction 1 as [b|a t b E IH|id i ch' ch a b E1 IH1 E2 IH2]; intros ND c Hb Ha.
  - destruct Ha.
  - rewrite ids_cons' in ND. cbn [map] in Hb. destruct Hb as [Hb|Hb].
    + exfalso. apply (NoDup_app_disj _ _ c ND); [rewrite ids_t_unfold; left; exact Hb|exact (emb_ids_incl a b E c Ha)].
    + exact (IH (NoDup_app_r _ _ ND) c Hb Ha).
  - cbn [map rid]. cbn [map rid] in Hb. destruct Hb as [Hb|Hb]; [left; exact Hb|right].
    rewrite ids_cons' in Ha, ND. apply in_app_or in Ha. destruct Ha as [Ha|Ha].
    + exfalso. apply (NoDup_app_disj _ _ c ND); [|apply incl_top_ids, Hb].
      rewrite ids_t_unfold in *. cbn [rid rch] in *. destruct Ha as [Ha|Ha]; [left; exact Ha|right; exact (emb_ids_incl _ _ E1 c Ha)].
    + exact (IH2 (NoDup_app_r _ _ ND) c Hb Ha).
Qed.

Lemma child_in_cons x xs p c : child_in (x :: xs) p c <-> child_in [x] p c \/ child_in xs p c.
Proof.
  unfold child_in. split.
  - intros [q [Hq H]]. cbn [flat_map] in Hq. apply in_app_or in Hq. destruct Hq as [Hq|Hq].
    + left. exists q. split; [cbn [flat_map]; rewrite app_nil_r; exact Hq|exact H].
    + right. exists q. split; assumption.
  - intros [[q [Hq H]]|[q [Hq H]]]; exists q; (split; [|exact H]); cbn [flat_map]; apply in_or_app.
    + left. cbn [flat_map] in Hq. rewrite app_nil_r in Hq. exact Hq.
    + right. exact Hq.
Qed.

Lemma child_in_node id i ch p c :
  child_in [T id i ch] p c <-> (p = id /\ In c (map rid ch)) \/ child_in ch p c.
Proof.
  unfold child_in. cbn [flat_map pre]. rewrite app_nil_r. split.
  - intros [q [[<-|Hq] [Hp Hc]]]; [left; cbn [rid rch] in *; split; [symmetry; exact Hp|exact Hc]|].
    right. exists q. exact (conj Hq (conj Hp Hc)).
  - intros [[Hp Hc]|[q [Hq H]]].
    + exists (T id i ch). cbn [rid rch]. exact (conj (or_introl eq_refl) (conj (eq_sym Hp) Hc)).
    + exists q. exact (conj (or_intror Hq) H).
Qed.

Lemma emb_child_conv a b : emb a b -> NoDup (ids b) -> forall p c, child_in b p c -> In c (ids a) -> child_in a p c.
Proof.
  induction 1 as [b|a t b E IH|id i ch' ch a b E1 IH1 E2 IH2]; intros ND p c Hb Ha.
  - destruct Ha.
  - rewrite ids_cons' in ND. apply child_in_cons in Hb. destruct Hb as [Hb|Hb].
    + exfalso. apply (NoDup_app_disj _ _ c ND); [|exact (emb_ids_incl a b E c Ha)].
      apply child_in_ids in Hb. rewrite ids_cons', ids_nil, app_nil_r in Hb. exact Hb.
    + exact (IH (NoDup_app_r _ _ ND) p c Hb Ha).
  - rewrite ids_cons' in ND, Ha. pose proof (NoDup_app_l _ _ ND) as NDt. pose proof (NoDup_app_r _ _ ND) as NDb.
    rewrite ids_t_unfold in NDt, Ha. cbn [rid rch] in NDt, Ha. inversion NDt as [|? ? Hnot NDc]; subst.
    assert (Dj : forall k, In k (id :: ids ch) -> In k (ids b) -> False).
    { intros k. rewrite ids_t_unfold in ND. cbn [rid rch] in ND. exact (NoDup_app_disj _ _ k ND). }
    apply child_in_cons. apply child_in_cons in Hb. destruct Hb as [Hb|Hb].
    + left. apply child_in_node. apply child_in_node in Hb.
      assert (Hc : In c (ids ch)).
      { destruct Hb as [[_ Hb]|Hb]; [apply incl_top_ids, Hb|exact (child_in_ids _ _ _ Hb)]. }
      assert (Ha' : In c (ids ch')).
      { apply in_app_or in Ha. destruct Ha as [[Ha|Ha]|Ha]; [subst c; contradiction|exact Ha|].
        exfalso. exact (Dj c (or_intror Hc) (emb_ids_incl _ _ E2 c Ha)). }
      destruct Hb as [[Hp Hb]|Hb].
      * left. split; [exact Hp|]. exact (emb_top_conv _ _ E1 NDc c Hb Ha').
      * right. exact (IH1 NDc p c Hb Ha').
    + right. assert (Hc : In c (ids b)) by (apply child_in_ids in Hb; exact Hb).
      apply (IH2 NDb p c Hb). apply in_app_or in Ha. destruct Ha as [[Ha|Ha]|Ha]; [| |exact Ha].
      * exfalso. exact (Dj c (or_introl Ha) Hc).
      * exfalso. exact (Dj c (or_intror (emb_ids_incl _ _ E1 c Ha)) Hc).
Qed.

(* replacing a child list by a sub-forest of it gives a sub-forest of the whole *)
Lemma emb_cons_same t a b : emb a b -> emb (t :: a) (t :: b).
Proof. intros E. destruct t as [id i ch]. apply emb_keep; [apply emb_refl|exact E]. Qed.

Lemma upd_at_emb_of n g l : (forall ch, emb (g ch) ch) ->
  Forall (fun t => forall a b, emb a b -> emb (upd_at n g t :: a) (t :: b)) l -> emb (map (upd_at n g) l) l.
Proof.
  intros Hg. induction 1 as [|x l Hx _ IH]; [constructor|]. cbn [map]. apply Hx. exact IH.
Qed.

Lemma upd_at_emb_t n g : (forall ch, emb (g ch) ch) -> forall t a b, emb a b -> emb (upd_at n g t :: a) (t :: b).
Proof.
  intros Hg. induction t as [id i ch IH] using rt_ind'. intros a b E. cbn [upd_at].
  destruct (Nat.eqb id n); apply emb_keep; try exact E; [apply Hg|exact (upd_at_emb_of n g ch Hg IH)].
Qed.

Lemma upd_at_emb n g f : (forall ch, emb (g ch) ch) -> emb (map (upd_at n g) f) f.
Proof.
  intros Hg. apply upd_at_emb_of; [exact Hg|]. apply Forall_forall. intros t _. apply upd_at_emb_t. exact Hg.
Qed.

Section P.
Variable v : nat -> verdict.
Variable mk : info -> info.

(* ------------------------------------------------------------------ *)
(* unfolding the nested fixpoints                                      *)
Lemma F_go l : forall s,
  (fix go (l : list rt) (s : bool) {struct l} : list rt * bool :=
     match l with
     | [] => ([], s)
     | x :: xs => let a := F_t v s x in
                  let b := go xs (snd a) in
                  (ocons (fst a) (fst b), snd b)
     end) l s = F_f v s l.
Proof. induction l as [|x l IH]; intros s; [reflexivity|]. cbn [F_f]. rewrite IH. reflexivity. Qed.

Lemma F_t_unfold s id i ch :
  F_t v s (T id i ch) =
  if s then (None, true) else
  let kids := F_f v false ch in
  match v id with
  | VStop => (None, true)
  | VSkip => (None, false)
  | VSkipKeepSelf => (Some (T id i []), false)
  | VSelect => (Some (T id i ch), false)
  | VTrue => (Some (T id i (fst kids)), snd kids)
  | VFalse => (if is_nil (fst kids) then None else Some (T id i (fst kids)), snd kids)
  end.
Proof. cbn [F_t]. rewrite F_go. reflexivity. Qed.

Lemma F_f_cons s x xs :
  F_f v s (x :: xs) = (ocons (fst (F_t v s x)) (fst (F_f v (snd (F_t v s x)) xs)), snd (F_f v (snd (F_t v s x)) xs)).
Proof. reflexivity. Qed.

Lemma F_f_true l : F_f v true l = ([], true).
Proof.
  induction l as [|[id i ch] l IH]; [reflexivity|].
  cbn [F_f]. rewrite F_t_unfold. cbn [fst snd ocons]. rewrite IH. reflexivity.
Qed.

Lemma ip_go l : forall s,
  (fix go (l : list rt) (s : bool) {struct l} : list rt * list nat * bool * bool :=
     match l with
     | [] => ([], [], false, s)
     | x :: xs =>
         let a := ip_node v s x in
         let b := go xs (snd a) in
         (fst (fst (fst a)) :: fst (fst (fst b)),
          (if snd (fst (fst a)) then rid x :: snd (fst (fst b)) else snd (fst (fst b))),
          snd (fst a) || snd (fst b),
          snd b)
     end) l s = ip_children v s l.
Proof. induction l as [|x l IH]; intros s; [reflexivity|]. cbn [ip_children]. rewrite IH. reflexivity. Qed.

Lemma ip_node_unfold s id i ch :
  ip_node v s (T id i ch) =
  if s then (T id i ch, true, false, true) else
  let r := ip_visit v false ch in
  match v id with
  | VFalse => (T id i (fst (fst r)), negb (snd (fst r)), snd (fst r), snd r)
  | VTrue => (T id i (fst (fst r)), false, true, snd r)
  | VSelect => (T id i ch, false, true, false)
  | VSkipKeepSelf => (T id i [], false, true, false)
  | VSkip => (T id i ch, true, false, false)
  | VStop => (T id i ch, true, false, true)
  end.
Proof. cbn [ip_node]. rewrite ip_go. reflexivity. Qed.

(* ------------------------------------------------------------------ *)
(* the in-place filter computes F                                      *)
Lemma existsb_eqb_in n l : existsb (Nat.eqb n) l = true <-> In n l.
Proof.
  rewrite existsb_exists. split.
  - intros [x [Hx E]]. apply Nat.eqb_eq in E. subst. exact Hx.
  - intros H. exists n. split; [exact H|apply Nat.eqb_refl].
Qed.

Lemma remove_ids_in rm a l : In (rid a) rm -> remove_ids rm (a :: l) = remove_ids rm l.
Proof.
  intros H. unfold remove_ids. cbn [filter].
  apply existsb_eqb_in in H. rewrite H. reflexivity.
Qed.

Lemma remove_ids_notin rm a l : ~ In (rid a) rm -> remove_ids rm (a :: l) = a :: remove_ids rm l.
Proof.
  intros H. unfold remove_ids. cbn [filter].
  destruct (existsb (Nat.eqb (rid a)) rm) eqn:E; [apply existsb_eqb_in in E; contradiction|reflexivity].
Qed.

Lemma remove_ids_extra n rm l : ~ In n (map rid l) -> remove_ids (n :: rm) l = remove_ids rm l.
Proof.
  intros H. unfold remove_ids. apply filter_ext_in'. intros c Hc. cbn [existsb].
  destruct (Nat.eqb (rid c) n) eqn:E; [|reflexivity].
  apply Nat.eqb_eq in E. exfalso. apply H. rewrite <- E. apply in_map. exact Hc.
Qed.

Lemma NoDup_ids_cons x l : NoDup (ids (x :: l)) ->
  NoDup (ids_t x) /\ NoDup (ids l) /\ ~ In (rid x) (map rid l).
Proof.
  intros H. change (ids (x :: l)) with (ids ([x] ++ l)) in H. rewrite ids_app in H.
  assert (E : ids [x] = ids_t x) by (unfold ids, ids_t; cbn [flat_map]; rewrite app_nil_r; reflexivity).
  rewrite E in H. refine (conj (NoDup_app_l _ _ H) (conj (NoDup_app_r _ _ H) _)).
  intros Hin. apply (NoDup_app_disj _ _ (rid x) H).
  - rewrite ids_t_unfold. left. reflexivity.
  - apply incl_top_ids. exact Hin.
Qed.

Definition ip_ok (t : rt) : Prop := forall s, NoDup (ids_t t) ->
  let r := ip_node v s t in
  F_t v s t = ((if snd (fst (fst r)) then None else Some (fst (fst (fst r)))), snd r)
  /\ rid (fst (fst (fst r))) = rid t
  /\ snd (fst r) = negb (snd (fst (fst r))).

Lemma ip_children_ok l : Forall ip_ok l -> forall s, NoDup (ids l) ->
  let r := ip_children v s l in
  map rid (fst (fst (fst r))) = map rid l
  /\ incl (snd (fst (fst r))) (map rid l)
  /\ F_f v s l = (remove_ids (snd (fst (fst r))) (fst (fst (fst r))), snd r)
  /\ snd (fst r) = negb (is_nil (remove_ids (snd (fst (fst r))) (fst (fst (fst r))))).
Proof.
  induction 1 as [|x l Hx Hl IH]; intros s ND.
  - cbn. refine (conj eq_refl (conj _ (conj eq_refl eq_refl))). intros a Ha; exact Ha.
  - destruct (NoDup_ids_cons _ _ ND) as [NDx [NDl Hnot]].
    cbn [ip_children]. cbv zeta.
    destruct (Hx s NDx) as [E1 [E2 E3]]. cbv zeta in E1, E2, E3.
    destruct (ip_node v s x) as [[[x' rx] mx] sx]. cbn [fst snd] in *.
    destruct (IH sx NDl) as [I1 [I2 [I3 I4]]]. cbv zeta in I1, I2, I3, I4.
    destruct (ip_children v sx l) as [[[l' rl] ml] sl]. cbn [fst snd] in *.
    rewrite F_f_cons. rewrite E1. cbn [fst snd]. rewrite I3. cbn [fst snd map].
    assert (Hnot' : ~ In (rid x') rl) by (rewrite E2; intros Hin; apply Hnot, I2, Hin).
    destruct rx.
    + subst mx. cbn [ocons negb orb].
      rewrite remove_ids_in by (left; symmetry; exact E2).
      rewrite remove_ids_extra by (rewrite I1; exact Hnot).
      refine (conj _ (conj _ (conj eq_refl I4))).
      * rewrite E2, I1; reflexivity.
      * intros a [Ha|Ha]; [left; exact Ha|right; apply I2, Ha].
    + subst mx. cbn [ocons negb orb].
      rewrite remove_ids_notin by exact Hnot'.
      refine (conj _ (conj _ (conj eq_refl eq_refl))).
      * rewrite E2, I1; reflexivity.
      * intros a Ha; right; apply I2, Ha.
Qed.

Lemma ip_node_ok : forall t, ip_ok t.
Proof.
  induction t as [id i ch IH] using rt_ind'. intros s ND. cbv zeta.
  rewrite ip_node_unfold, F_t_unfold. destruct s; [cbn; auto|].
  assert (NDc : NoDup (ids ch)) by (rewrite ids_t_unfold in ND; cbn [rch] in ND; inversion ND; assumption).
  destruct (ip_children_ok ch IH false NDc) as [I1 [I2 [I3 I4]]]. cbv zeta in I1, I2, I3, I4.
  unfold ip_visit. rewrite I3. cbn [fst snd].
  destruct (v id); cbn [fst snd negb rid]; try (refine (conj eq_refl (conj eq_refl eq_refl))).
  rewrite I4. rewrite negb_involutive.
  destruct (is_nil _); refine (conj eq_refl (conj eq_refl eq_refl)).
Qed.

Theorem filter_inplace_is_F f : NoDup (ids f) -> filter_inplace v f = F v f.
Proof.
  intros ND. unfold filter_inplace, ip_visit, F.
  assert (H : Forall ip_ok f) by (apply Forall_forall; intros t _; apply ip_node_ok).
  destruct (ip_children_ok f H false ND) as [_ [_ [I3 _]]]. cbv zeta in I3.
  rewrite I3. reflexivity.
Qed.

(* must_keep of the top-level call, and the stopped flag, agree with F as well *)
Lemma ip_visit_is_F s f : NoDup (ids f) ->
  ip_visit v s f = (fst (F_f v s f), negb (is_nil (fst (F_f v s f))), snd (F_f v s f)).
Proof.
  intros ND. unfold ip_visit.
  assert (H : Forall ip_ok f) by (apply Forall_forall; intros t _; apply ip_node_ok).
  destruct (ip_children_ok f H s ND) as [_ [_ [I3 I4]]]. cbv zeta in I3, I4.
  rewrite I3, I4. reflexivity.
Qed.

(* ------------------------------------------------------------------ *)
(* F yields an order- and ancestry-preserving sub-forest                *)
Definition F_emb_ok (t : rt) : Prop := forall s, emb (ocons (fst (F_t v s t)) []) [t].

Lemma F_f_emb_of l : Forall F_emb_ok l -> forall s, emb (fst (F_f v s l)) l.
Proof.
  induction 1 as [|x l Hx _ IH]; intros s; [constructor|].
  rewrite F_f_cons. cbn [fst]. specialize (Hx s). specialize (IH (snd (F_t v s x))).
  destruct (fst (F_t v s x)) as [x'|]; cbn [ocons] in *.
  - inversion Hx as [| ? ? ? Hd|? ? ? ? ? ? Hc _]; subst.
    + inversion Hd.
    + apply emb_keep; assumption.
  - apply emb_drop. exact IH.
Qed.

Lemma F_t_emb : forall t, F_emb_ok t.
Proof.
  induction t as [id i ch IH] using rt_ind'. intros s. rewrite F_t_unfold.
  destruct s; [cbn; constructor|]. cbv zeta.
  pose proof (F_f_emb_of ch IH false) as Hk.
  destruct (v id); cbn [fst ocons]; try (apply emb_drop; constructor).
  - apply emb_keep; [exact Hk|constructor].
  - destruct (is_nil _); cbn [ocons]; [apply emb_drop; constructor|apply emb_keep; [exact Hk|constructor]].
  - apply emb_keep; constructor.
  - apply emb_keep; [apply emb_refl|constructor].
Qed.

Lemma F_f_emb s l : emb (fst (F_f v s l)) l.
Proof. apply F_f_emb_of. apply Forall_forall. intros t _. apply F_t_emb. Qed.

Theorem F_emb f : emb (F v f) f.
Proof. apply F_f_emb. Qed.

Theorem F_order f : sublist (ids (F v f)) (ids f).
Proof. apply emb_ids, F_emb. Qed.

Theorem F_NoDup f : NoDup (ids f) -> NoDup (ids (F v f)).
Proof. intros H. eapply sublist_NoDup; [apply F_order|exact H]. Qed.

(* ------------------------------------------------------------------ *)
(* the copying form: F plus the D24 leaves, modulo node identity        *)
Lemma copy_go l : forall nx,
  (fix go (l : list rt) (nx : nat) {struct l} : list rt * nat :=
     match l with
     | [] => ([], nx)
     | x :: xs => let a := copy_t x nx in
                  let b := go xs (snd a) in
                  (fst a :: fst b, snd b)
     end) l nx = copy_f l nx.
Proof. induction l as [|x l IH]; intros nx; [reflexivity|]. cbn [copy_f]. rewrite IH. reflexivity. Qed.

Lemma copy_t_unfold id i ch nx :
  copy_t (T id i ch) nx = (T nx i (fst (copy_f ch (S nx))), snd (copy_f ch (S nx))).
Proof. cbn [copy_t]. rewrite copy_go. reflexivity. Qed.

Lemma copy_f_cons x xs nx :
  copy_f (x :: xs) nx = (fst (copy_t x nx) :: fst (copy_f xs (snd (copy_t x nx))), snd (copy_f xs (snd (copy_t x nx)))).
Proof. reflexivity. Qed.

Lemma copy_f_erase_of l : Forall (fun t => forall nx, erase (fst (copy_t t nx)) = erase t) l ->
  forall nx, map erase (fst (copy_f l nx)) = map erase l.
Proof.
  induction 1 as [|x l Hx _ IH]; intros nx; [reflexivity|].
  rewrite copy_f_cons. cbn [fst map]. rewrite Hx, IH. reflexivity.
Qed.

Lemma copy_t_erase : forall t nx, erase (fst (copy_t t nx)) = erase t.
Proof.
  induction t as [id i ch IH] using rt_ind'. intros nx. rewrite copy_t_unfold. cbn [fst erase].
  rewrite (copy_f_erase_of ch IH). reflexivity.
Qed.

Lemma copy_f_erase l nx : map erase (fst (copy_f l nx)) = map erase l.
Proof. apply copy_f_erase_of. apply Forall_forall. intros t _. apply copy_t_erase. Qed.

Definition is_ex (fr : frame) : Prop := match fr with Existing _ _ _ => True | Virtual _ => False end.
Definition all_ex (stk : list frame) : Prop := Forall is_ex stk.

Lemma mat_all_ex stk : all_ex stk -> forall nx, materialise mk stk nx = (stk, nx).
Proof.
  induction 1 as [|fr stk Hfr _ IH]; intros nx; cbn [materialise]; [reflexivity|].
  rewrite IH. destruct fr; [reflexivity|destruct Hfr].
Qed.

Lemma mat_is_ex stk nx : all_ex (fst (materialise mk stk nx)).
Proof.
  induction stk as [|fr stk IH]; cbn [materialise]; [constructor|].
  destruct fr; cbn [fst]; constructor; try exact IH; exact Logic.I.
Qed.

Lemma mat_virtual src stk nx :
  materialise mk (Virtual src :: stk) nx =
  (Existing (snd (materialise mk stk nx)) (mk (rinfo src)) [] :: fst (materialise mk stk nx), S (snd (materialise mk stk nx))).
Proof. reflexivity. Qed.

Lemma add_top_ex c stk : all_ex stk -> all_ex (add_top c stk).
Proof.
  destruct stk as [|[id i rc|src] below]; cbn [add_top]; intros H; try exact H.
  inversion H; subst. constructor; [exact Logic.I|assumption].
Qed.

Lemma add_tops_ex cs : forall id i rc below,
  add_tops cs (Existing id i rc :: below) = Existing id i (rev cs ++ rc) :: below.
Proof.
  unfold add_tops. induction cs as [|c cs IH]; intros id i rc below; cbn [fold_left add_top rev]; [reflexivity|].
  rewrite IH. rewrite <- app_assoc. reflexivity.
Qed.

Lemma add_tops_cons c cs stk : add_tops (c :: cs) stk = add_tops cs (add_top c stk).
Proof. reflexivity. Qed.

Lemma af_go l : forall st,
  (fix go (l : list rt) (st : afst) {struct l} : afst :=
     match l with
     | [] => st
     | x :: xs => go xs (af_node v mk x st)
     end) l st = af_children v mk l st.
Proof. induction l as [|x l IH]; intros st; [reflexivity|]. cbn [af_children]. rewrite IH. reflexivity. Qed.

Lemma af_node_unfold id i ch stk nx s :
  af_node v mk (T id i ch) (stk, nx, s) =
  if s then (stk, nx, s) else
  let stk1 := Virtual (T id i ch) :: stk in
  match v id with
  | VSkipKeepSelf =>
      let m := materialise mk stk1 nx in
      (pop (add_top (T (snd m) (mk i) []) (fst m)), S (snd m), false)
  | VStop => (pop stk1, nx, true)
  | VSelect =>
      let m := materialise mk stk1 nx in
      let c := copy_f ch (snd m) in
      (pop (add_tops (fst c) (fst m)), snd c, false)
  | VFalse =>
      let r := af_children v mk ch (stk1, nx, false) in
      (pop (fst (fst r)), snd (fst r), snd r)
  | VTrue =>
      let m := materialise mk stk1 nx in
      let r := af_children v mk ch (add_top (T (snd m) (mk i) []) (fst m), S (snd m), false) in
      (pop (fst (fst r)), snd (fst r), snd r)
  | VSkip => (pop stk1, nx, false)
  end.
Proof.
  cbn [af_node fst snd]. destruct s; [reflexivity|].
  destruct (v id); try reflexivity; rewrite af_go; reflexivity.
Qed.

(* allocation indices of plain copies: consecutive, pre-order *)
Lemma ids_t_length_pos t : length (ids_t t) = S (length (ids (rch t))).
Proof. rewrite ids_t_unfold. reflexivity. Qed.

Definition copy_ids_ok (t : rt) : Prop := forall nx,
  ids_t (fst (copy_t t nx)) = seq nx (length (ids_t t)) /\ snd (copy_t t nx) = nx + length (ids_t t).

Lemma copy_f_ids_of l : Forall copy_ids_ok l -> forall nx,
  ids (fst (copy_f l nx)) = seq nx (length (ids l)) /\ snd (copy_f l nx) = nx + length (ids l).
Proof.
  induction 1 as [|x l Hx _ IH]; intros nx.
  - cbn. split; [reflexivity|lia].
  - rewrite copy_f_cons. cbn [fst snd]. destruct (Hx nx) as [E1 E2]. destruct (IH (snd (copy_t x nx))) as [I1 I2].
    rewrite !ids_cons', !app_length, I1, I2, E1, E2, seq_app. split; [reflexivity|lia].
Qed.

Lemma copy_t_ids : forall t, copy_ids_ok t.
Proof.
  induction t as [id i ch IH] using rt_ind'. intros nx. rewrite copy_t_unfold. cbn [fst snd].
  destruct (copy_f_ids_of ch IH (S nx)) as [E1 E2]. rewrite !ids_t_unfold. cbn [rid rch length seq].
  rewrite E1, E2. split; [reflexivity|lia].
Qed.

Lemma copy_f_ids l nx :
  ids (fst (copy_f l nx)) = seq nx (length (ids l)) /\ snd (copy_f l nx) = nx + length (ids l).
Proof. apply copy_f_ids_of. apply Forall_forall. intros t _. apply copy_t_ids. Qed.

(* what one call of the loop body does to the open spine: nothing, or it
   materialises the pending parents and hangs one finished branch below the
   innermost of them; the new nodes get the next allocation indices in
   pre-order *)
Definition af_ok (t : rt) : Prop := forall stk nx s, exists c' nx',
  af_node v mk t (stk, nx, s) =
    (match c' with None => stk | Some c => add_top c (fst (materialise mk stk nx)) end, nx', snd (F_t v s t))
  /\ option_map erase c' = option_map (fun x => erase (dbl_t v mk x)) (fst (F_t v s t))
  /\ match c' with
     | None => nx' = nx
     | Some c => ids_t c = seq (snd (materialise mk stk nx)) (length (ids_t c)) /\
                 nx' = snd (materialise mk stk nx) + length (ids_t c)
     end.

Lemma af_children_ok l : Forall af_ok l -> forall stk nx s, exists cs' nx',
  af_children v mk l (stk, nx, s) =
    (match cs' with [] => stk | _ => add_tops cs' (fst (materialise mk stk nx)) end, nx', snd (F_f v s l))
  /\ map erase cs' = map (fun x => erase (dbl_t v mk x)) (fst (F_f v s l))
  /\ ids cs' = seq (snd (materialise mk stk nx)) (length (ids cs'))
  /\ nx' = match cs' with [] => nx | _ => snd (materialise mk stk nx) + length (ids cs') end.
Proof.
  induction 1 as [|x l Hx _ IH]; intros stk nx s.
  - exists [], nx. cbn. auto.
  - cbn [af_children]. destruct (Hx stk nx s) as [c' [nx1 [E1 [E2 E3]]]]. rewrite E1.
    rewrite F_f_cons. cbn [fst snd].
    destruct c' as [c|].
    + destruct (fst (F_t v s x)) as [x0|]; [|discriminate E2]. cbn [option_map] in E2. injection E2 as E2.
      destruct E3 as [E3 E4].
      set (M := fst (materialise mk stk nx)) in *. set (k := snd (materialise mk stk nx)) in *.
      assert (HM : all_ex (add_top c M)) by (apply add_top_ex, mat_is_ex).
      destruct (IH (add_top c M) nx1 (snd (F_t v s x))) as [cs' [nx2 [I1 [I2 [I3 I4]]]]].
      rewrite (mat_all_ex _ HM) in I1, I3, I4. cbn [fst snd] in I1, I3, I4.
      exists (c :: cs'), nx2. rewrite I1. refine (conj _ (conj _ (conj _ _))).
      * rewrite add_tops_cons. destruct cs'; reflexivity.
      * cbn [ocons map]. rewrite E2, I2. reflexivity.
      * rewrite ids_cons', app_length, seq_app, <- E3, <- E4, <- I3. reflexivity.
      * rewrite I4, ids_cons', app_length. destruct cs'; [cbn [ids flat_map map length]|]; lia.
    + destruct (fst (F_t v s x)) as [x0|]; [discriminate E2|]. subst nx1.
      destruct (IH stk nx (snd (F_t v s x))) as [cs' [nx2 [I1 [I2 I3]]]].
      exists cs', nx2. rewrite I1. cbn [ocons]. auto.
Qed.

Lemma match_add_tops cs S0 nx : all_ex S0 ->
  match cs with [] => S0 | _ => add_tops cs (fst (materialise mk S0 nx)) end = add_tops cs S0.
Proof. intros H. rewrite (mat_all_ex _ H). destruct cs; reflexivity. Qed.

Lemma af_node_ok : forall t, af_ok t.
Proof.
  induction t as [id i ch IH] using rt_ind'. intros stk nx s.
  rewrite af_node_unfold, F_t_unfold. destruct s.
  { exists None, nx. cbn. auto. }
  cbv zeta. rewrite mat_virtual. cbn [fst snd rinfo].
  pose proof (mat_is_ex stk nx) as HM.
  destruct (materialise mk stk nx) as [M k] eqn:Em. cbn [fst snd] in *.
  destruct (v id) eqn:Ev.
  - (* True *)
    cbn [add_top].
    assert (H0 : all_ex (Existing k (mk i) [T (S k) (mk i) []] :: M)) by (constructor; [exact Logic.I|exact HM]).
    destruct (af_children_ok ch IH (Existing k (mk i) [T (S k) (mk i) []] :: M) (S (S k)) false) as [cs' [nx' [E1 [E2 [E3 E4]]]]].
    rewrite (mat_all_ex _ H0) in E3, E4. cbn [snd] in E3, E4.
    rewrite E1. cbn [fst snd]. rewrite (match_add_tops _ _ _ H0), add_tops_ex. cbn [pop].
    exists (Some (T k (mk i) (T (S k) (mk i) [] :: cs'))), nx'. refine (conj _ (conj _ (conj _ _))).
    + rewrite rev_app_distr, rev_involutive. reflexivity.
    + cbn [option_map erase dbl_t map]. rewrite Ev. cbn [erase map]. rewrite E2, map_map. reflexivity.
    + rewrite ids_t_unfold. cbn [rid rch]. rewrite ids_cons'. rewrite ids_t_unfold. cbn [rid rch].
      rewrite ids_nil. cbn [app length seq]. rewrite <- E3. reflexivity.
    + rewrite E4, ids_t_unfold. cbn [rid rch]. rewrite ids_cons', ids_t_unfold. cbn [rid rch]. rewrite ids_nil. cbn [app length].
      destruct cs'; [cbn [ids flat_map map length]|]; lia.
  - (* False *)
    destruct (af_children_ok ch IH (Virtual (T id i ch) :: stk) nx false) as [cs' [nx' [E1 [E2 [E3 E4]]]]].
    rewrite mat_virtual, Em in E3, E4. cbn [fst snd] in E3, E4.
    rewrite E1. cbn [fst snd]. destruct cs' as [|c cs'].
    + exists None, nx'. cbn [pop].
      destruct (fst (F_f v false ch)); [|discriminate E2]. cbn. auto.
    + rewrite mat_virtual, Em. cbn [fst snd rinfo]. rewrite add_tops_ex. cbn [pop].
      exists (Some (T k (mk i) (c :: cs'))), nx'.
      destruct (fst (F_f v false ch)) as [|y ys] eqn:Ek; [discriminate E2|]. cbn [is_nil fst].
      refine (conj _ (conj _ (conj _ _))).
      * rewrite app_nil_r, rev_involutive. reflexivity.
      * cbn [option_map erase dbl_t]. rewrite Ev. cbn [erase]. rewrite E2, map_map. reflexivity.
      * rewrite ids_t_unfold. cbn [rid rch length seq]. rewrite <- E3. reflexivity.
      * rewrite E4, ids_t_unfold. cbn [rid rch length]. lia.
  - (* Skip *)
    exists None, nx. cbn. auto.
  - (* SkipBranch(and_self=False) *)
    cbn [add_top pop rev].
    exists (Some (T k (mk i) [T (S k) (mk i) []])), (S (S k)). refine (conj eq_refl (conj _ (conj _ _))).
    + cbn [option_map erase dbl_t map fst]. rewrite Ev. reflexivity.
    + reflexivity.
    + cbn. lia.
  - (* SelectBranch *)
    rewrite add_tops_ex. cbn [pop]. destruct (copy_f_ids ch (S k)) as [C1 C2].
    exists (Some (T k (mk i) (fst (copy_f ch (S k))))), (snd (copy_f ch (S k))). refine (conj _ (conj _ (conj _ _))).
    + rewrite app_nil_r, rev_involutive. reflexivity.
    + cbn [option_map erase dbl_t fst]. rewrite Ev. cbn [erase]. rewrite copy_f_erase. reflexivity.
    + rewrite ids_t_unfold. cbn [rid rch length seq]. rewrite C1, seq_length. reflexivity.
    + rewrite C2, ids_t_unfold. cbn [rid rch length]. rewrite C1, seq_length. lia.
  - (* Stop *)
    exists None, nx. cbn. auto.
Qed.

Theorem add_filtered_is_dbl_F f nx : same_modulo_ids (fst (add_filtered v mk f nx)) (dbl v mk (F v f)).
Proof.
  unfold same_modulo_ids, add_filtered, dbl, F.
  assert (H : Forall af_ok f) by (apply Forall_forall; intros t _; apply af_node_ok).
  set (root := Existing 0 (I 0 0 0 false [] (DInt 0) None []) []).
  assert (H0 : all_ex [root]) by (constructor; [exact Logic.I|constructor]).
  destruct (af_children_ok f H [root] nx false) as [cs' [nx' [E1 [E2 _]]]].
  rewrite E1. cbn [fst snd]. rewrite (match_add_tops _ _ _ H0). unfold root. rewrite add_tops_ex.
  cbn [fst]. rewrite app_nil_r, rev_involutive, map_map. exact E2.
Qed.

(* the nodes of the copy are new: consecutive allocation indices in pre-order,
   hence every node of the copy exactly once *)
Theorem add_filtered_ids f nx :
  ids (fst (add_filtered v mk f nx)) = seq nx (length (ids (fst (add_filtered v mk f nx)))) /\
  snd (add_filtered v mk f nx) = nx + length (ids (fst (add_filtered v mk f nx))).
Proof.
  unfold add_filtered.
  assert (H : Forall af_ok f) by (apply Forall_forall; intros t _; apply af_node_ok).
  set (root := Existing 0 (I 0 0 0 false [] (DInt 0) None []) []).
  assert (H0 : all_ex [root]) by (constructor; [exact Logic.I|constructor]).
  destruct (af_children_ok f H [root] nx false) as [cs' [nx' [E1 [_ [E3 E4]]]]].
  rewrite (mat_all_ex _ H0) in E3, E4. cbn [snd] in E3, E4.
  rewrite E1. cbn [fst snd]. rewrite (match_add_tops _ _ _ H0). unfold root. rewrite add_tops_ex.
  cbn [fst snd]. rewrite app_nil_r, rev_involutive. split; [exact E3|].
  rewrite E4. destruct cs'; [cbn; lia|reflexivity].
Qed.

Theorem filtered_fresh f : NoDup (ids (filtered v mk f)) /\ ids (filtered v mk f) = seq 1 (length (ids (filtered v mk f))).
Proof.
  unfold filtered. destruct (add_filtered_ids f 1) as [E _]. split; [|exact E].
  rewrite E. apply seq_NoDup.
Qed.

Theorem filtered_is_dbl_F f : same_modulo_ids (filtered v mk f) (dbl v mk (F v f)).
Proof. apply add_filtered_is_dbl_F. Qed.

(* the stop flag of the copying scan is F's *)
Lemma af_children_stop f stk nx s : snd (af_children v mk f (stk, nx, s)) = snd (F_f v s f).
Proof.
  assert (H : Forall af_ok f) by (apply Forall_forall; intros t _; apply af_node_ok).
  destruct (af_children_ok f H stk nx s) as [cs' [nx' [E1 _]]]. rewrite E1. reflexivity.
Qed.

(* ------------------------------------------------------------------ *)
(* the node set of F is exactly the set characterisation [kept]         *)
Definition has_stop (l : list nat) : bool := existsb (fun n => is_stop (v n)) l.

Lemma has_stop_app a b : has_stop (a ++ b) = has_stop a || has_stop b.
Proof. apply existsb_app. Qed.

Lemma before_stop_app a b :
  before_stop v (a ++ b) = if has_stop a then before_stop v a else a ++ before_stop v b.
Proof.
  induction a as [|x a IH]; [reflexivity|].
  cbn [app before_stop]. unfold has_stop. cbn [existsb]. fold (has_stop a).
  destruct (is_stop (v x)); cbn [orb]; [reflexivity|].
  rewrite IH. destruct (has_stop a); reflexivity.
Qed.

Lemma before_stop_incl l : incl (before_stop v l) l.
Proof.
  induction l as [|x l IH]; cbn [before_stop]; [intros a Ha; exact Ha|].
  destruct (is_stop (v x)); [intros a []|].
  intros a [Ha|Ha]; [left; exact Ha|right; apply IH, Ha].
Qed.

Lemma before_stop_nostop a : has_stop a = false -> before_stop v a = a.
Proof.
  induction a as [|x a IH]; [reflexivity|]. unfold has_stop. cbn [existsb before_stop]. fold (has_stop a).
  destruct (is_stop (v x)); cbn [orb]; [discriminate|]. intros H. rewrite (IH H). reflexivity.
Qed.

Lemma reach_t_unfold id i ch : reach_t v (T id i ch) = id :: (if opens (v id) then reach v ch else []).
Proof. reflexivity. Qed.

Lemma reach_cons x xs : reach v (x :: xs) = reach_t v x ++ reach v xs.
Proof. reflexivity. Qed.

Lemma reach_single x : reach v [x] = reach_t v x.
Proof. unfold reach. cbn [flat_map]. apply app_nil_r. Qed.

Lemma pre_f_single x : pre_f [x] = pre x.
Proof. cbn [flat_map]. apply app_nil_r. Qed.

Lemma reach_f_incl_of l : Forall (fun t => incl (reach_t v t) (ids_t t)) l -> incl (reach v l) (ids l).
Proof.
  induction 1 as [|x l Hx _ IH]; [intros a Ha; exact Ha|].
  rewrite reach_cons, ids_cons'. intros a Ha. apply in_or_app. apply in_app_or in Ha.
  destruct Ha as [Ha|Ha]; [left; apply Hx, Ha|right; apply IH, Ha].
Qed.

Lemma reach_t_incl : forall t, incl (reach_t v t) (ids_t t).
Proof.
  induction t as [id i ch IH] using rt_ind'. rewrite reach_t_unfold, ids_t_unfold. cbn [rid rch].
  intros a [Ha|Ha]; [left; exact Ha|right].
  destruct (opens (v id)); [|destruct Ha]. apply (reach_f_incl_of ch IH), Ha.
Qed.

Lemma reach_incl l : incl (reach v l) (ids l).
Proof. apply reach_f_incl_of. apply Forall_forall. intros t _. apply reach_t_incl. Qed.

Lemma visited_incl l : incl (visited v l) (ids l).
Proof. intros a Ha. apply reach_incl, before_stop_incl, Ha. Qed.

(* the stop flag of F: a stop answer among the reached nodes *)
Definition stop_ok (t : rt) : Prop := forall s, snd (F_t v s t) = s || has_stop (reach_t v t).

Lemma F_f_stop_of l : Forall stop_ok l -> forall s, snd (F_f v s l) = s || has_stop (reach v l).
Proof.
  induction 1 as [|x l Hx _ IH]; intros s; [cbn; rewrite orb_false_r; reflexivity|].
  rewrite F_f_cons. cbn [snd]. rewrite IH, Hx, reach_cons, has_stop_app, orb_assoc. reflexivity.
Qed.

Lemma F_t_stop : forall t, stop_ok t.
Proof.
  induction t as [id i ch IH] using rt_ind'. intros s. rewrite F_t_unfold, reach_t_unfold.
  destruct s; [reflexivity|]. cbv zeta. pose proof (F_f_stop_of ch IH false) as Hk. cbn [orb] in *.
  unfold has_stop. cbn [existsb]. fold (has_stop (if opens (v id) then reach v ch else [])).
  destruct (v id); cbn [snd is_stop opens orb]; try reflexivity; exact Hk.
Qed.

Lemma F_f_stop s l : snd (F_f v s l) = s || has_stop (reach v l).
Proof. apply F_f_stop_of. apply Forall_forall. intros t _. apply F_t_stop. Qed.

Lemma desc_closed l p t : In p (pre_f l) -> In t (pre_f (rch p)) -> In t (pre_f l).
Proof.
  intros Hp Ht. destruct (pre_f_segment l p Hp) as [a [b E]]. rewrite E.
  apply in_or_app. right. apply in_or_app. left. rewrite pre_unfold. right. exact Ht.
Qed.

Lemma disj_ids x xs m : NoDup (ids (x :: xs)) -> In m (ids_t x) -> In m (ids xs) -> False.
Proof. rewrite ids_cons'. intros ND H1 H2. exact (NoDup_app_disj _ _ m ND H1 H2). Qed.

Lemma in_ids_t t x : In t (pre x) -> In (rid t) (ids_t x).
Proof. intros H. unfold ids_t. apply in_map. exact H. Qed.

Lemma in_ids t l : In t (pre_f l) -> In (rid t) (ids l).
Proof. intros H. unfold ids. apply in_map. exact H. Qed.

Lemma kept_cons x xs n : NoDup (ids (x :: xs)) ->
  (kept v (x :: xs) n <-> kept v [x] n \/ (has_stop (reach_t v x) = false /\ kept v xs n)).
Proof.
  intros ND. unfold kept, visited. split.
  - intros [t [Ht [Hv [Ha Hr]]]]. cbn [flat_map] in Ht. apply in_app_or in Ht.
    rewrite reach_cons, before_stop_app in Hv. destruct Ht as [Ht|Ht].
    + left. exists t. rewrite pre_f_single, reach_single. refine (conj Ht (conj _ (conj Ha _))).
      * destruct (has_stop (reach_t v x)) eqn:Es; [exact Hv|].
        apply in_app_or in Hv. destruct Hv as [Hv|Hv]; [rewrite (before_stop_nostop _ Es); exact Hv|].
        exfalso. apply (disj_ids x xs (rid t) ND); [apply in_ids_t, Ht|apply visited_incl, Hv].
      * destruct Hr as [Hr|[[p [Hp [Hpn Htp]]]|Hr]]; [left; exact Hr| |right; right; exact Hr].
        right; left. exists p. refine (conj _ (conj Hpn Htp)).
        cbn [flat_map] in Hp. apply in_app_or in Hp. destruct Hp as [Hp|Hp]; [exact Hp|].
        exfalso. apply (disj_ids x xs (rid t) ND); [apply in_ids_t, Ht|].
        apply in_ids. exact (desc_closed xs p t Hp Htp).
    + right. destruct (has_stop (reach_t v x)) eqn:Es.
      { exfalso. apply (disj_ids x xs (rid t) ND); [apply reach_t_incl, before_stop_incl, Hv|apply in_ids, Ht]. }
      split; [reflexivity|]. apply in_app_or in Hv. destruct Hv as [Hv|Hv].
      { exfalso. apply (disj_ids x xs (rid t) ND); [apply reach_t_incl, Hv|apply in_ids, Ht]. }
      exists t. refine (conj Ht (conj Hv (conj Ha _))).
      destruct Hr as [Hr|[[p [Hp [Hpn Htp]]]|Hr]]; [left; exact Hr| |right; right; exact Hr].
      right; left. exists p. refine (conj _ (conj Hpn Htp)).
      cbn [flat_map] in Hp. apply in_app_or in Hp. destruct Hp as [Hp|Hp]; [|exact Hp].
      exfalso. apply (disj_ids x xs (rid t) ND); [|apply in_ids, Ht].
      apply in_ids_t. rewrite <- pre_f_single. apply (desc_closed [x] p t); [rewrite pre_f_single; exact Hp|exact Htp].
  - intros [[t [Ht [Hv [Ha Hr]]]]|[Es [t [Ht [Hv [Ha Hr]]]]]].
    + rewrite pre_f_single in Ht. rewrite reach_single in Hv. exists t.
      refine (conj _ (conj _ (conj Ha _))).
      * cbn [flat_map]. apply in_or_app. left. exact Ht.
      * rewrite reach_cons, before_stop_app. destruct (has_stop (reach_t v x)) eqn:Es; [exact Hv|].
        apply in_or_app. left. apply (before_stop_incl _ _ Hv).
      * destruct Hr as [Hr|[[p [Hp [Hpn Htp]]]|Hr]]; [left; exact Hr| |right; right; exact Hr].
        right; left. exists p. refine (conj _ (conj Hpn Htp)).
        rewrite pre_f_single in Hp. cbn [flat_map]. apply in_or_app. left. exact Hp.
    + exists t. refine (conj _ (conj _ (conj Ha _))).
      * cbn [flat_map]. apply in_or_app. right. exact Ht.
      * rewrite reach_cons, before_stop_app, Es. apply in_or_app. right. exact Hv.
      * destruct Hr as [Hr|[[p [Hp [Hpn Htp]]]|Hr]]; [left; exact Hr| |right; right; exact Hr].
        right; left. exists p. refine (conj _ (conj Hpn Htp)).
        cbn [flat_map]. apply in_or_app. right. exact Hp.
Qed.

Lemma accepts_not_stop x : accepts x = true -> is_stop x = false.
Proof. destruct x; cbn; congruence. Qed.

Lemma opens_not_stop x : opens x = true -> is_stop x = false.
Proof. destruct x; cbn; congruence. Qed.

Lemma kept_node id i ch n : NoDup (id :: ids ch) ->
  (kept v [T id i ch] n <->
     (accepts (v id) = true /\ (n = id \/ (v id = VSelect /\ In n (ids ch))))
     \/ (opens (v id) = true /\ (kept v ch n \/ (n = id /\ exists m, kept v ch m)))).
Proof.
  intros ND. inversion ND as [|? ? Hnot NDc]; subst.
  assert (N1 : forall t, In t (pre_f ch) -> rid t <> id).
  { intros t Ht E. apply Hnot. rewrite <- E. apply in_ids, Ht. }
  assert (N2 : forall p, In p (pre (T id i ch)) -> ~ In (T id i ch) (pre_f (rch p))).
  { intros p Hp Hin. rewrite pre_unfold in Hp. cbn [rch] in Hp. destruct Hp as [<-|Hp].
    - cbn [rch] in Hin. exact (N1 _ Hin eq_refl).
    - exact (N1 _ (desc_closed ch p _ Hp Hin) eq_refl). }
  unfold kept, visited. rewrite pre_f_single, reach_single, reach_t_unfold. split.
  - intros [t [Ht [Hv [Ha Hr]]]]. rewrite pre_unfold in Ht. cbn [rch] in Ht. destruct Ht as [<-|Ht].
    + cbn [rid rch] in *. left. split; [exact Ha|].
      destruct Hr as [Hr|[[p [Hp [Hpn Htp]]]|Hr]]; [left; exact Hr| |right; exact Hr].
      exfalso. exact (N2 p Hp Htp).
    + right. cbn [before_stop] in Hv. destruct (is_stop (v id)); [destruct Hv|].
      destruct Hv as [Hv|Hv]; [exfalso; exact (N1 t Ht (eq_sym Hv))|].
      destruct (opens (v id)); [|destruct Hv]. split; [reflexivity|].
      assert (Kt : forall m, (m = rid t \/ (exists p, In p (pre_f ch) /\ rid p = m /\ In t (pre_f (rch p)))
                              \/ (v (rid t) = VSelect /\ In m (ids (rch t)))) ->
                   exists t0, In t0 (pre_f ch) /\ In (rid t0) (before_stop v (reach v ch)) /\ accepts (v (rid t0)) = true /\
                     (m = rid t0 \/ (exists p, In p (pre_f ch) /\ rid p = m /\ In t0 (pre_f (rch p)))
                      \/ (v (rid t0) = VSelect /\ In m (ids (rch t0))))).
      { intros m Hm. exists t. exact (conj Ht (conj Hv (conj Ha Hm))). }
      destruct Hr as [Hr|[[p [Hp [Hpn Htp]]]|Hr]].
      * left. apply Kt. left. exact Hr.
      * rewrite pre_unfold in Hp. cbn [rch] in Hp. destruct Hp as [<-|Hp].
        { right. cbn [rid] in Hpn. split; [symmetry; exact Hpn|]. exists (rid t). apply Kt. left. reflexivity. }
        { left. apply Kt. right; left. exists p. exact (conj Hp (conj Hpn Htp)). }
      * left. apply Kt. right; right. exact Hr.
  - intros [[Ha Hn]|[Ho Hk]].
    + exists (T id i ch). cbn [rid rch]. refine (conj _ (conj _ (conj Ha _))).
      * rewrite pre_unfold. left. reflexivity.
      * cbn [before_stop]. rewrite (accepts_not_stop _ Ha). left. reflexivity.
      * destruct Hn as [Hn|Hn]; [left; exact Hn|right; right; exact Hn].
    + rewrite Ho. cbn [before_stop]. rewrite (opens_not_stop _ Ho).
      assert (Up : forall m, (exists t0, In t0 (pre_f ch) /\ In (rid t0) (before_stop v (reach v ch)) /\ accepts (v (rid t0)) = true /\
                     (m = rid t0 \/ (exists p, In p (pre_f ch) /\ rid p = m /\ In t0 (pre_f (rch p)))
                      \/ (v (rid t0) = VSelect /\ In m (ids (rch t0))))) ->
                exists t0, In t0 (pre (T id i ch)) /\ In (rid t0) (id :: before_stop v (reach v ch)) /\ accepts (v (rid t0)) = true /\
                     (m = rid t0 \/ (exists p, In p (pre (T id i ch)) /\ rid p = m /\ In t0 (pre_f (rch p)))
                      \/ (v (rid t0) = VSelect /\ In m (ids (rch t0))))).
      { intros m [t [Ht [Hv [Ha Hr]]]]. exists t. rewrite pre_unfold. cbn [rch].
        refine (conj (or_intror Ht) (conj (or_intror Hv) (conj Ha _))).
        destruct Hr as [Hr|[[p [Hp [Hpn Htp]]]|Hr]]; [left; exact Hr| |right; right; exact Hr].
        right; left. exists p. exact (conj (or_intror Hp) (conj Hpn Htp)). }
      destruct Hk as [Hk|[Hn [m [t [Ht [Hv [Ha _]]]]]]]; [apply Up, Hk|].
      exists t. rewrite pre_unfold. cbn [rch].
      refine (conj (or_intror Ht) (conj (or_intror Hv) (conj Ha _))).
      right; left. exists (T id i ch). cbn [rid rch].
      exact (conj (or_introl eq_refl) (conj (eq_sym Hn) Ht)).
Qed.

Definition KP (l : forest) : Prop := forall n, In n (ids (fst (F_f v false l))) <-> kept v l n.

Lemma ids_ocons o r : ids (ocons o r) = ids (ocons o []) ++ ids r.
Proof. destruct o as [t|]; cbn [ocons]; [|reflexivity]. rewrite !ids_cons'. rewrite ids_nil, app_nil_r. reflexivity. Qed.

Lemma KP_cons x xs : NoDup (ids (x :: xs)) -> KP [x] -> KP xs -> KP (x :: xs).
Proof.
  intros ND H1 H2 n. rewrite (kept_cons x xs n ND), <- (H1 n), <- (H2 n).
  rewrite !F_f_cons. cbn [fst]. rewrite (ids_ocons _ (fst (F_f v (snd (F_t v false x)) xs))).
  rewrite in_app_iff. rewrite F_t_stop. cbn [orb F_f fst].
  destruct (has_stop (reach_t v x)).
  - rewrite F_f_true. cbn [fst]. rewrite ids_nil. split; [intros [H|[]]; left; exact H|].
    intros [H|[H _]]; [left; exact H|discriminate H].
  - split; [intros [H|H]; [left; exact H|right; split; [reflexivity|exact H]]|].
    intros [H|[_ H]]; [left; exact H|right; exact H].
Qed.

Lemma KP_node id i ch : NoDup (id :: ids ch) -> KP ch -> KP [T id i ch].
Proof.
  intros ND Hc n. rewrite (kept_node id i ch n ND). rewrite F_f_cons, F_t_unfold. cbv zeta. cbn [F_f fst].
  assert (Hex : (exists m, kept v ch m) <-> fst (F_f v false ch) <> []).
  { split.
    - intros [m Hm] E. apply Hc in Hm. rewrite E in Hm. exact Hm.
    - intros Hne. destruct (fst (F_f v false ch)) as [|y ys] eqn:E; [contradiction|].
      exists (rid y). apply Hc. rewrite E, ids_cons. left. reflexivity. }
  destruct (v id) eqn:Ev; cbn [fst ocons accepts opens].
  - (* True *) rewrite ids_cons', ids_nil, app_nil_r, ids_t_unfold. cbn [rid rch In]. rewrite (Hc n).
    split.
    + intros [H|H]; [left; split; [reflexivity|left; symmetry; exact H]|right; split; [reflexivity|left; exact H]].
    + intros [[_ [H|[H _]]]|[_ [H|[H _]]]]; try discriminate H; [left; symmetry; exact H|right; exact H|left; symmetry; exact H].
  - (* False *) destruct (fst (F_f v false ch)) as [|y ys] eqn:E; cbn [is_nil ocons].
    + rewrite ids_nil. split; [intros []|].
      intros [[H _]|[_ [H|[_ H]]]]; [discriminate H| |].
      * apply Hc in H. rewrite E in H. exact H.
      * apply Hex in H. apply H. reflexivity.

    + rewrite ids_cons', ids_nil, app_nil_r, ids_t_unfold. cbn [rid rch In]. rewrite <- E, (Hc n).
      split.
      * intros [H|H]; right; (split; [reflexivity|]); [right; split; [symmetry; exact H|]|left; exact H].
        apply Hex. discriminate.
      * intros [[H _]|[_ [H|[H _]]]]; [discriminate H|right; exact H|left; symmetry; exact H].
  - (* Skip *) rewrite ids_nil. split; [intros []|]. intros [[H _]|[H _]]; discriminate H.
  - (* keep self *) rewrite ids_cons', ids_nil, app_nil_r, ids_t_unfold. cbn [rid rch ids flat_map map In app].
    split.
    + intros [H|[]]. left; split; [reflexivity|left; symmetry; exact H].
    + intros [[_ [H|[H _]]]|[H _]]; try discriminate H. left; symmetry; exact H.
  - (* Select *) rewrite ids_cons', ids_nil, app_nil_r, ids_t_unfold. cbn [rid rch In].
    split.
    + intros [H|H]; left; (split; [reflexivity|]); [left; symmetry; exact H|right; split; [reflexivity|exact H]].
    + intros [[_ [H|[_ H]]]|[H _]]; try discriminate H; [left; symmetry; exact H|right; exact H].
  - (* Stop *) rewrite ids_nil. split; [intros []|]. intros [[H _]|[H _]]; discriminate H.
Qed.

Lemma KP_nil : KP [].
Proof. intros n. cbn. split; [intros []|]. intros [t [[] _]]. Qed.

Lemma KP_forest_of l : Forall (fun t => NoDup (ids_t t) -> KP [t]) l -> NoDup (ids l) -> KP l.
Proof.
  induction 1 as [|x l Hx _ IH]; intros ND; [exact KP_nil|].
  destruct (NoDup_ids_cons _ _ ND) as [NDx [NDl _]].
  apply KP_cons; [exact ND|apply Hx, NDx|apply IH, NDl].
Qed.

Lemma KP_tree : forall t, NoDup (ids_t t) -> KP [t].
Proof.
  induction t as [id i ch IH] using rt_ind'. intros ND. rewrite ids_t_unfold in ND. cbn [rid rch] in ND.
  apply KP_node; [exact ND|]. apply KP_forest_of; [exact IH|]. inversion ND; assumption.
Qed.

Theorem F_ids_kept f : NoDup (ids f) -> forall n, In n (ids (F v f)) <-> kept v f n.
Proof.
  intros ND. apply KP_forest_of; [|exact ND]. apply Forall_forall. intros t _. apply KP_tree.
Qed.

(* in place = copying, modulo the D24 leaves *)
Theorem inplace_vs_copy f : NoDup (ids f) -> same_modulo_ids (filtered v mk f) (dbl v mk (filter_inplace v f)).
Proof. intros ND. rewrite (filter_inplace_is_F f ND). apply filtered_is_dbl_F. Qed.



(* ------------------------------------------------------------------ *)
(* [reach] and [visited], declaratively                                 *)
(* reached: no proper ancestor answered anything but True / False(None) *)
Definition all_open (l : forest) (t : rt) : Prop :=
  forall p, In p (pre_f l) -> In t (pre_f (rch p)) -> opens (v (rid p)) = true.

Definition RD (l : forest) : Prop :=
  forall n, In n (reach v l) <-> exists t, In t (pre_f l) /\ rid t = n /\ all_open l t.

Lemma RD_cons x xs : NoDup (ids (x :: xs)) -> RD [x] -> RD xs -> RD (x :: xs).
Proof.
  intros ND H1 H2 n. rewrite reach_cons, in_app_iff, <- reach_single, (H1 n), (H2 n). split.
  - intros [[t [Ht [Hn Ho]]]|[t [Ht [Hn Ho]]]]; exists t.
    + rewrite pre_f_single in Ht. refine (conj _ (conj Hn _)); [cbn [flat_map]; apply in_or_app; left; exact Ht|].
      intros p Hp Htp. cbn [flat_map] in Hp. apply in_app_or in Hp. destruct Hp as [Hp|Hp].
      * apply Ho; [rewrite pre_f_single; exact Hp|exact Htp].
      * exfalso. apply (disj_ids x xs (rid t) ND); [apply in_ids_t, Ht|apply in_ids; exact (desc_closed xs p t Hp Htp)].
    + refine (conj _ (conj Hn _)); [cbn [flat_map]; apply in_or_app; right; exact Ht|].
      intros p Hp Htp. cbn [flat_map] in Hp. apply in_app_or in Hp. destruct Hp as [Hp|Hp].
      * exfalso. apply (disj_ids x xs (rid t) ND); [|apply in_ids, Ht].
        apply in_ids_t. rewrite <- pre_f_single. apply (desc_closed [x] p t); [rewrite pre_f_single; exact Hp|exact Htp].
      * apply Ho; assumption.
  - intros [t [Ht [Hn Ho]]]. cbn [flat_map] in Ht. apply in_app_or in Ht. destruct Ht as [Ht|Ht]; [left|right]; exists t.
    + rewrite pre_f_single. refine (conj Ht (conj Hn _)). intros p Hp Htp. apply Ho; [|exact Htp].
      rewrite pre_f_single in Hp. cbn [flat_map]. apply in_or_app. left. exact Hp.
    + refine (conj Ht (conj Hn _)). intros p Hp Htp. apply Ho; [|exact Htp].
      cbn [flat_map]. apply in_or_app. right. exact Hp.
Qed.

Lemma RD_node id i ch : NoDup (id :: ids ch) -> RD ch -> RD [T id i ch].
Proof.
  intros ND Hc n. inversion ND as [|? ? Hnot NDc]; subst.
  assert (N1 : forall t, In t (pre_f ch) -> rid t <> id).
  { intros t Ht E. apply Hnot. rewrite <- E. apply in_ids, Ht. }
  rewrite reach_single, reach_t_unfold, pre_f_single. unfold all_open. rewrite pre_f_single. split.
  - intros [<-|Hn].
    + exists (T id i ch). refine (conj (pre_in_self _) (conj eq_refl _)).
      intros p Hp Htp. exfalso. rewrite pre_unfold in Hp. cbn [rch] in Hp. destruct Hp as [<-|Hp].
      * cbn [rch] in Htp. exact (N1 _ Htp eq_refl).
      * exact (N1 _ (desc_closed ch p _ Hp Htp) eq_refl).
    + destruct (opens (v id)) eqn:Eo; [|destruct Hn]. apply (Hc n) in Hn. destruct Hn as [t [Ht [Hn Ho]]].
      exists t. rewrite pre_unfold. cbn [rch]. refine (conj (or_intror Ht) (conj Hn _)).
      intros p [<-|Hp] Htp; [exact Eo|apply Ho; assumption].
  - intros [t [Ht [Hn Ho]]]. rewrite pre_unfold in Ht. cbn [rch] in Ht. destruct Ht as [<-|Ht]; [left; exact Hn|right].
    assert (Eo : opens (v id) = true) by (apply (Ho (T id i ch) (pre_in_self _)); exact Ht).
    rewrite Eo. apply (Hc n). exists t. refine (conj Ht (conj Hn _)).
    intros p Hp Htp. apply Ho; [|exact Htp]. rewrite pre_unfold. right. exact Hp.
Qed.

Lemma RD_forest_of l : Forall (fun t => NoDup (ids_t t) -> RD [t]) l -> NoDup (ids l) -> RD l.
Proof.
  induction 1 as [|x l Hx _ IH]; intros ND.
  - intros n. cbn. split; [intros []|intros [t [[] _]]].
  - destruct (NoDup_ids_cons _ _ ND) as [NDx [NDl _]].
    apply RD_cons; [exact ND|apply Hx, NDx|apply IH, NDl].
Qed.

Lemma RD_tree : forall t, NoDup (ids_t t) -> RD [t].
Proof.
  induction t as [id i ch IH] using rt_ind'. intros ND. rewrite ids_t_unfold in ND. cbn [rid rch] in ND.
  apply RD_node; [exact ND|]. apply RD_forest_of; [exact IH|]. inversion ND; assumption.
Qed.

Theorem reach_decl f : NoDup (ids f) ->
  forall n, In n (reach v f) <-> exists t, In t (pre_f f) /\ rid t = n /\ all_open f t.
Proof. intros ND. apply RD_forest_of; [|exact ND]. apply Forall_forall. intros t _. apply RD_tree. Qed.

(* the reached nodes are listed in pre-order *)
Lemma reach_f_sublist_of l : Forall (fun t => sublist (reach_t v t) (ids_t t)) l -> sublist (reach v l) (ids l).
Proof.
  induction 1 as [|x l Hx _ IH]; [constructor|]. rewrite reach_cons, ids_cons'. apply sublist_app; assumption.
Qed.

Lemma reach_t_sublist : forall t, sublist (reach_t v t) (ids_t t).
Proof.
  induction t as [id i ch IH] using rt_ind'. rewrite reach_t_unfold, ids_t_unfold. cbn [rid rch]. apply sub_keep.
  destruct (opens (v id)); [exact (reach_f_sublist_of ch IH)|constructor].
Qed.

Theorem reach_order f : sublist (reach v f) (ids f).
Proof. apply reach_f_sublist_of. apply Forall_forall. intros t _. apply reach_t_sublist. Qed.

(* visited: the part of that list before the first stop answer *)
Lemma before_stop_spec l n :
  In n (before_stop v l) <-> exists a b, l = a ++ n :: b /\ has_stop (a ++ [n]) = false.
Proof.
  split.
  - induction l as [|x l IH]; cbn [before_stop]; [intros []|].
    destruct (is_stop (v x)) eqn:Ex; [intros []|]. intros [<-|H].
    + exists [], l. split; [reflexivity|]. unfold has_stop. cbn. rewrite Ex. reflexivity.
    + destruct (IH H) as [a [b [E Hs]]]. exists (x :: a), b. split; [rewrite E; reflexivity|].
      unfold has_stop in *. cbn [app existsb]. rewrite Ex. exact Hs.
  - intros [a [b [E Hs]]]. subst l. rewrite has_stop_app in Hs. apply orb_false_iff in Hs. destruct Hs as [H1 H2].
    rewrite before_stop_app, H1. apply in_or_app. right. cbn [before_stop].
    unfold has_stop in H2. cbn in H2. rewrite orb_false_r in H2. rewrite H2. left. reflexivity.
Qed.

Theorem visited_decl f n :
  In n (visited v f) <-> exists a b, reach v f = a ++ n :: b /\ has_stop (a ++ [n]) = false.
Proof. apply before_stop_spec. Qed.

(* ------------------------------------------------------------------ *)
(* the clauses of the statement, one by one, from the characterisation  *)
Lemma visited_reached f n : In n (visited v f) -> In n (reach v f).
Proof. apply before_stop_incl. Qed.

(* ancestors of one node are comparable *)
Lemma comparable_of l : Forall (fun t0 => NoDup (ids_t t0) -> forall s t u, In s (pre t0) -> In t (pre t0) ->
    In u (pre_f (rch s)) -> In u (pre_f (rch t)) -> s = t \/ In s (pre_f (rch t)) \/ In t (pre_f (rch s))) l ->
  NoDup (ids l) -> forall s t u, In s (pre_f l) -> In t (pre_f l) ->
    In u (pre_f (rch s)) -> In u (pre_f (rch t)) -> s = t \/ In s (pre_f (rch t)) \/ In t (pre_f (rch s)).
Proof.
  induction 1 as [|x xs Hx _ IH]; intros ND s t u Hs Ht Hus Hut; [destruct Hs|].
  destruct (NoDup_ids_cons _ _ ND) as [NDx [NDxs _]].
  cbn [flat_map] in Hs, Ht. apply in_app_or in Hs. apply in_app_or in Ht.
  assert (Hin : forall q, In q (pre x) -> In u (pre_f (rch q)) -> In (rid u) (ids_t x)).
  { intros q Hq Hu. apply in_ids_t. rewrite <- (app_nil_r (pre x)). change (pre x ++ []) with (pre_f [x]).
    apply (desc_closed [x] q u); [cbn [flat_map]; rewrite app_nil_r; exact Hq|exact Hu]. }
  assert (Hin2 : forall q, In q (pre_f xs) -> In u (pre_f (rch q)) -> In (rid u) (ids xs)).
  { intros q Hq Hu. apply in_ids. exact (desc_closed xs q u Hq Hu). }
  destruct Hs as [Hs|Hs], Ht as [Ht|Ht].
  - exact (Hx NDx s t u Hs Ht Hus Hut).
  - exfalso. exact (disj_ids x xs (rid u) ND (Hin s Hs Hus) (Hin2 t Ht Hut)).
  - exfalso. exact (disj_ids x xs (rid u) ND (Hin t Ht Hut) (Hin2 s Hs Hus)).
  - exact (IH NDxs s t u Hs Ht Hus Hut).
Qed.

Lemma comparable_t : forall t0, NoDup (ids_t t0) -> forall s t u, In s (pre t0) -> In t (pre t0) ->
    In u (pre_f (rch s)) -> In u (pre_f (rch t)) -> s = t \/ In s (pre_f (rch t)) \/ In t (pre_f (rch s)).
Proof.
  induction t0 as [id i ch IH] using rt_ind'. intros ND s t u Hs Ht Hus Hut.
  rewrite ids_t_unfold in ND. cbn [rid rch] in ND. inversion ND as [|? ? _ NDc]; subst.
  rewrite pre_unfold in Hs, Ht. cbn [rch] in Hs, Ht. destruct Hs as [<-|Hs], Ht as [<-|Ht].
  - left. reflexivity.
  - right; right. exact Ht.
  - right; left. exact Hs.
  - exact (comparable_of ch IH NDc s t u Hs Ht Hus Hut).
Qed.

Lemma comparable f : NoDup (ids f) -> forall s t u, In s (pre_f f) -> In t (pre_f f) ->
    In u (pre_f (rch s)) -> In u (pre_f (rch t)) -> s = t \/ In s (pre_f (rch t)) \/ In t (pre_f (rch s)).
Proof. apply comparable_of. apply Forall_forall. intros t0 _. apply comparable_t. Qed.

(* a kept node is reached, or lies below a visited node answered select *)
Lemma kept_open_or_selected f n : NoDup (ids f) -> kept v f n ->
  exists u, In u (pre_f f) /\ rid u = n /\
    (all_open f u \/ exists s, In s (pre_f f) /\ In (rid s) (visited v f) /\ v (rid s) = VSelect /\ In u (pre_f (rch s))).
Proof.
  intros ND [t [Ht [Hv [Ha Hr]]]].
  assert (Ho : all_open f t).
  { apply visited_reached in Hv. apply (reach_decl f ND) in Hv. destruct Hv as [t' [Ht' [E Ho]]].
    rewrite (node_unique f t t' ND Ht Ht' (eq_sym E)). exact Ho. }
  destruct Hr as [Hr|[[p [Hp [Hpn Htp]]]|[Hs Hn]]].
  - exists t. refine (conj Ht (conj (eq_sym Hr) (or_introl Ho))).
  - exists p. refine (conj Hp (conj Hpn (or_introl _))).
    intros q Hq Hpq. apply Ho; [exact Hq|]. exact (desc_closed (rch q) p t Hpq Htp).
  - unfold ids in Hn. apply in_map_iff in Hn. destruct Hn as [u [E Hu]].
    exists u. refine (conj (desc_closed f t u Ht Hu) (conj E (or_intror _))).
    exists t. exact (conj Ht (conj Hv (conj Hs Hu))).
Qed.

(* nothing strictly below a visited node whose answer closes the branch
   (skip, skip-but-keep-self, stop) is kept *)
Theorem closed_drops_below f t n : NoDup (ids f) -> In t (pre_f f) -> In (rid t) (reach v f) ->
  opens (v (rid t)) = false -> v (rid t) <> VSelect -> In n (ids (rch t)) -> ~ In n (ids (F v f)).
Proof.
  intros ND Ht Hreach Hclosed Hns Hn Hin. apply (F_ids_kept f ND) in Hin.
  destruct (kept_open_or_selected f n ND Hin) as [u [Hu [Eu Hcase]]].
  unfold ids in Hn. apply in_map_iff in Hn. destruct Hn as [u' [Eu' Hu']].
  assert (Huu : u' = u).
  { apply (node_unique f u' u ND (desc_closed f t u' Ht Hu') Hu). congruence. }
  subst u'. destruct Hcase as [Ho|[s [Hs [Hvs [Hsel Hus]]]]].
  - rewrite (Ho t Ht Hu') in Hclosed. discriminate Hclosed.
  - assert (Hos : all_open f s).
    { apply visited_reached in Hvs. apply (reach_decl f ND) in Hvs. destruct Hvs as [s' [Hs' [E Ho]]].
      rewrite (node_unique f s s' ND Hs Hs' (eq_sym E)). exact Ho. }
    assert (Hot : all_open f t).
    { apply (reach_decl f ND) in Hreach. destruct Hreach as [t' [Ht' [E Ho]]].
      rewrite (node_unique f t t' ND Ht Ht' (eq_sym E)). exact Ho. }
    destruct (comparable f ND s t u Hs Ht Hus Hu') as [E|[H|H]].
    + subst s. contradiction.
    + rewrite (Hos t Ht H) in Hclosed. discriminate Hclosed.
    + pose proof (Hot s Hs H) as Hopen. rewrite Hsel in Hopen. discriminate Hopen.
Qed.

(* a visited node answered skip (and_self None/True) or stop is dropped itself *)
Theorem rejected_dropped f t : NoDup (ids f) -> In t (pre_f f) -> In (rid t) (reach v f) ->
  v (rid t) = VSkip \/ v (rid t) = VStop -> ~ In (rid t) (ids (F v f)).
Proof.
  intros ND Ht Hreach Hv Hin. apply (F_ids_kept f ND) in Hin.
  assert (Hot : all_open f t).
  { apply (reach_decl f ND) in Hreach. destruct Hreach as [t' [Ht' [E Ho]]].
    rewrite (node_unique f t t' ND Ht Ht' (eq_sym E)). exact Ho. }
  destruct Hin as [a [Ha [Hva [Hacc Hr]]]].
  assert (Hoa : all_open f a).
  { apply visited_reached in Hva. apply (reach_decl f ND) in Hva. destruct Hva as [a' [Ha' [E Ho]]].
    rewrite (node_unique f a a' ND Ha Ha' (eq_sym E)). exact Ho. }
  destruct Hr as [Hr|[[p [Hp [Hpn Hap]]]|[Hs Hn]]].
  - rewrite <- Hr in Hacc. destruct Hv as [Hv|Hv]; rewrite Hv in Hacc; discriminate Hacc.
  - rewrite (node_unique f p t ND Hp Ht Hpn) in Hap. pose proof (Hoa t Ht Hap) as Hopen.
    destruct Hv as [Hv|Hv]; rewrite Hv in Hopen; discriminate Hopen.
  - unfold ids in Hn. apply in_map_iff in Hn. destruct Hn as [u [E Hu]].
    rewrite (node_unique f u t ND (desc_closed f a u Ha Hu) Ht E) in Hu.
    pose proof (Hot a Ha Hu) as Hopen. rewrite Hs in Hopen. discriminate Hopen.
Qed.

(* a visited node answered select is kept with its whole branch;
   one answered True or skip-but-keep-self is kept itself *)
Theorem accepted_kept f t : NoDup (ids f) -> In t (pre_f f) -> In (rid t) (visited v f) ->
  (accepts (v (rid t)) = true -> In (rid t) (ids (F v f))) /\
  (v (rid t) = VSelect -> forall n, In n (ids_t t) -> In n (ids (F v f))).
Proof.
  intros ND Ht Hv. split.
  - intros Ha. apply (F_ids_kept f ND). exists t. refine (conj Ht (conj Hv (conj Ha (or_introl eq_refl)))).
  - intros Hs n Hn. apply (F_ids_kept f ND). exists t.
    assert (Ha : accepts (v (rid t)) = true) by (rewrite Hs; reflexivity).
    refine (conj Ht (conj Hv (conj Ha _))). rewrite ids_t_unfold in Hn. destruct Hn as [Hn|Hn].
    + left. symmetry. exact Hn.
    + right; right. exact (conj Hs Hn).
Qed.

(* ------------------------------------------------------------------ *)
(* statements assembled for Properties/C08.v                           *)
Theorem F_subforest f : emb (F v f) f /\ sublist (ids (F v f)) (ids f).
Proof. exact (conj (F_emb f) (F_order f)). Qed.

Theorem F_nodes_parents f :
  (forall t', In t' (pre_f (F v f)) ->
     exists t, In t (pre_f f) /\ rid t = rid t' /\ rinfo t = rinfo t' /\ emb (rch t') (rch t)) /\
  (forall p c, child_in (F v f) p c -> child_in f p c).
Proof.
  split.
  - exact (emb_node _ _ (F_emb f)).
  - intros p c. exact (emb_child _ _ p c (F_emb f)).
Qed.

Theorem F_places_kept f : NoDup (ids f) ->
  (forall c, In c (map rid f) -> In c (ids (F v f)) -> In c (map rid (F v f))) /\
  (forall p c, child_in f p c -> In c (ids (F v f)) -> child_in (F v f) p c).
Proof.
  intros ND. split.
  - exact (emb_top_conv _ _ (F_emb f) ND).
  - exact (emb_child_conv _ _ (F_emb f) ND).
Qed.

(* ------------------------------------------------------------------ *)
(* a stop answer ends the scan: what was accepted so far is kept, the   *)
(* stopping node and everything later in pre-order is dropped           *)
Lemma upto_stop_app a b :
  upto_stop v (a ++ b) = if has_stop a then upto_stop v a else a ++ upto_stop v b.
Proof.
  induction a as [|x a IH]; [reflexivity|].
  cbn [app upto_stop]. unfold has_stop. cbn [existsb]. fold (has_stop a).
  destruct (is_stop (v x)); cbn [orb]; [reflexivity|].
  rewrite IH. destruct (has_stop a); reflexivity.
Qed.

Lemma ids_ocons_incl s x : incl (ids (ocons (fst (F_t v s x)) [])) (ids_t x).
Proof.
  intros m Hm. pose proof (emb_ids _ _ (F_t_emb x s)) as Hs.
  pose proof (sublist_in _ _ m Hs Hm) as H. rewrite ids_cons', ids_nil, app_nil_r in H. exact H.
Qed.

Definition stop_point (idl : list nat) (rl : list nat) (kept_ids : list nat) : Prop :=
  exists a s b, idl = a ++ s :: b /\ v s = VStop /\
    upto_stop v rl = before_stop v rl ++ [s] /\ incl kept_ids a.

Definition stop_pt_ok (t : rt) : Prop :=
  snd (F_t v false t) = true -> stop_point (ids_t t) (reach_t v t) (ids (ocons (fst (F_t v false t)) [])).

Lemma F_f_stop_point_of l : Forall stop_pt_ok l ->
  snd (F_f v false l) = true -> stop_point (ids l) (reach v l) (ids (fst (F_f v false l))).
Proof.
  induction 1 as [|x l Hx _ IH]; [cbn; discriminate|].
  rewrite F_f_cons. cbn [fst snd]. rewrite ids_ocons, ids_cons', reach_cons.
  unfold stop_pt_ok in Hx. pose proof (F_t_stop x false) as Es. cbn [orb] in Es.
  destruct (snd (F_t v false x)) eqn:E1.
  - intros _. destruct (Hx eq_refl) as [a [s [b [H1 [H2 [H3 H4]]]]]].
    exists a, s, (b ++ ids l). rewrite F_f_true. cbn [fst]. rewrite ids_nil, app_nil_r.
    refine (conj _ (conj H2 (conj _ H4))).
    + rewrite H1, <- app_assoc. reflexivity.
    + rewrite upto_stop_app, before_stop_app, <- Es. exact H3.
  - intros E2. destruct (IH E2) as [a [s [b [H1 [H2 [H3 H4]]]]]].
    exists (ids_t x ++ a), s, b. refine (conj _ (conj H2 (conj _ _))).
    + rewrite H1, <- app_assoc. reflexivity.
    + rewrite upto_stop_app, before_stop_app, <- Es, H3, app_assoc. reflexivity.
    + intros m Hm. apply in_or_app. apply in_app_or in Hm.
      destruct Hm as [Hm|Hm]; [left; exact (ids_ocons_incl false x m Hm)|right; apply H4, Hm].
Qed.

Lemma F_t_stop_point : forall t, stop_pt_ok t.
Proof.
  induction t as [id i ch IH] using rt_ind'. unfold stop_pt_ok.
  pose proof (F_f_stop_point_of ch IH) as Hk.
  rewrite F_t_unfold, reach_t_unfold, ids_t_unfold. cbv zeta. cbn [rid rch].
  assert (Hsub : forall kids, incl (ids kids) (ids ch) -> forall a s b, ids ch = a ++ s :: b -> incl (ids kids) a ->
                 incl (ids [T id i kids]) (id :: a)).
  { intros kids _ a s b _ Hin m Hm. rewrite ids_cons', ids_nil, app_nil_r, ids_t_unfold in Hm. cbn [rid rch] in Hm.
    destruct Hm as [Hm|Hm]; [left; exact Hm|right; apply Hin, Hm]. }
  destruct (v id) eqn:Ev; cbn [fst snd ocons opens]; try discriminate.
  - intros E. destruct (Hk E) as [a [s [b [H1 [H2 [H3 H4]]]]]].
    exists (id :: a), s, b. refine (conj _ (conj H2 (conj _ _))).
    + rewrite H1. reflexivity.
    + cbn [upto_stop before_stop]. rewrite Ev. cbn [is_stop]. rewrite H3. reflexivity.
    + apply (Hsub _ (fun m Hm => sublist_in _ _ m (emb_ids _ _ (F_f_emb false ch)) Hm) a s b H1 H4).
  - intros E. destruct (Hk E) as [a [s [b [H1 [H2 [H3 H4]]]]]].
    exists (id :: a), s, b. refine (conj _ (conj H2 (conj _ _))).
    + rewrite H1. reflexivity.
    + cbn [upto_stop before_stop]. rewrite Ev. cbn [is_stop]. rewrite H3. reflexivity.
    + destruct (is_nil (fst (F_f v false ch))); cbn [ocons]; [intros m []|].
      apply (Hsub _ (fun m Hm => sublist_in _ _ m (emb_ids _ _ (F_f_emb false ch)) Hm) a s b H1 H4).
  - intros _. exists [], id, (ids ch). refine (conj eq_refl (conj Ev (conj _ _))).
    + cbn [upto_stop before_stop]. rewrite Ev. reflexivity.
    + intros m [].
Qed.

Theorem stop_drops_the_rest f : has_stop (reach v f) = true ->
  exists a s b, ids f = a ++ s :: b /\ v s = VStop /\
    calls v f = visited v f ++ [s] /\ incl (ids (F v f)) a.
Proof.
  intros H. apply F_f_stop_point_of.
  - apply Forall_forall. intros t _. apply F_t_stop_point.
  - rewrite F_f_stop. exact H.
Qed.

Theorem stop_keeps_accepted f : NoDup (ids f) ->
  forall n, In n (visited v f) -> accepts (v n) = true -> In n (ids (F v f)).
Proof.
  intros ND n Hv Ha. apply (F_ids_kept f ND).
  pose proof (visited_incl f n Hv) as Hin. unfold ids in Hin. apply in_map_iff in Hin.
  destruct Hin as [t [E Ht]]. subst n. exists t. refine (conj Ht (conj Hv (conj Ha _))). left. reflexivity.
Qed.

Theorem no_stop_no_cut f : has_stop (reach v f) = false -> calls v f = reach v f /\ visited v f = reach v f.
Proof.
  intros H. unfold calls, visited. split; [|apply before_stop_nostop, H].
  revert H. generalize (reach v f). induction l as [|x l IH]; [reflexivity|].
  unfold has_stop. cbn [existsb upto_stop]. fold (has_stop l).
  destruct (is_stop (v x)); cbn [orb]; [discriminate|]. intros H. rewrite (IH H). reflexivity.
Qed.

(* ------------------------------------------------------------------ *)
(* the calls of the predicate: the reached nodes up to the stopping one *)
Lemma scan_go after l : forall s,
  (fix go (l : list rt) (s : bool) {struct l} : list nat :=
     match l with
     | [] => []
     | x :: xs => scan_calls v after s x ++ go xs (after s x)
     end) l s = scan_calls_f v after s l.
Proof. induction l as [|x l IH]; intros s; [reflexivity|]. cbn [scan_calls_f]. rewrite IH. reflexivity. Qed.

Lemma scan_calls_unfold after s id i ch :
  scan_calls v after s (T id i ch) =
  if s then [] else id :: (if opens (v id) then scan_calls_f v after false ch else []).
Proof. cbn [scan_calls]. rewrite scan_go. reflexivity. Qed.

Lemma upto_stop_nostop a : has_stop a = false -> upto_stop v a = a.
Proof.
  induction a as [|x a IH]; [reflexivity|]. unfold has_stop. cbn [existsb upto_stop]. fold (has_stop a).
  destruct (is_stop (v x)); cbn [orb]; [discriminate|]. intros H. rewrite (IH H). reflexivity.
Qed.

Section Scan.
Variable after : bool -> rt -> bool.
Hypothesis after_ok : forall s x, after s x = snd (F_t v s x).

Lemma scan_f_of l : Forall (fun t => forall s, scan_calls v after s t = if s then [] else upto_stop v (reach_t v t)) l ->
  forall s, scan_calls_f v after s l = if s then [] else upto_stop v (reach v l).
Proof.
  induction 1 as [|x l Hx _ IH]; intros s; [destruct s; reflexivity|].
  cbn [scan_calls_f]. rewrite Hx, IH, after_ok, F_t_stop, reach_cons, upto_stop_app.
  destruct s; [reflexivity|]. cbn [orb].
  destruct (has_stop (reach_t v x)) eqn:E; [apply app_nil_r|].
  rewrite (upto_stop_nostop _ E). reflexivity.
Qed.

Lemma scan_t : forall t s, scan_calls v after s t = if s then [] else upto_stop v (reach_t v t).
Proof.
  induction t as [id i ch IH] using rt_ind'. intros s. rewrite scan_calls_unfold, reach_t_unfold.
  destruct s; [reflexivity|]. rewrite (scan_f_of ch IH). cbn [upto_stop].
  destruct (v id); reflexivity.
Qed.

Lemma scan_f f : scan_calls_f v after false f = calls v f.
Proof. unfold calls. rewrite (scan_f_of f); [reflexivity|]. apply Forall_forall. intros t _. apply scan_t. Qed.
End Scan.

Lemma af_node_stop t stk nx s : snd (af_node v mk t (stk, nx, s)) = snd (F_t v s t).
Proof. destruct (af_node_ok t stk nx s) as [c' [nx' [E _]]]. rewrite E. reflexivity. Qed.

Lemma ip_children_cons s x xs :
  ip_children v s (x :: xs) =
  (fst (fst (fst (ip_node v s x))) :: fst (fst (fst (ip_children v (snd (ip_node v s x)) xs))),
   (if snd (fst (fst (ip_node v s x))) then rid x :: snd (fst (fst (ip_children v (snd (ip_node v s x)) xs)))
    else snd (fst (fst (ip_children v (snd (ip_node v s x)) xs)))),
   snd (fst (ip_node v s x)) || snd (fst (ip_children v (snd (ip_node v s x)) xs)),
   snd (ip_children v (snd (ip_node v s x)) xs)).
Proof. reflexivity. Qed.

Lemma ip_children_stop_of l : Forall (fun t => forall s, snd (ip_node v s t) = s || has_stop (reach_t v t)) l ->
  forall s, snd (ip_children v s l) = s || has_stop (reach v l).
Proof.
  induction 1 as [|x l Hx _ IH]; intros s; [cbn; rewrite orb_false_r; reflexivity|].
  rewrite ip_children_cons. cbn [snd]. rewrite IH, Hx, reach_cons, has_stop_app, orb_assoc. reflexivity.
Qed.

(* (no uniqueness of identities needed for the flag) *)
Lemma ip_node_stop : forall t s, snd (ip_node v s t) = snd (F_t v s t).
Proof.
  intros t s. rewrite F_t_stop. revert s.
  induction t as [id i ch IH] using rt_ind'. intros s. rewrite ip_node_unfold, reach_t_unfold.
  destruct s; [reflexivity|]. cbv zeta. unfold ip_visit. cbn [snd fst orb].
  pose proof (ip_children_stop_of ch IH false) as Hk. cbn [orb] in Hk.
  unfold has_stop. cbn [existsb]. fold (has_stop (if opens (v id) then reach v ch else [])).
  destruct (v id); cbn [snd is_stop opens orb]; try reflexivity; exact Hk.
Qed.

Theorem ip_calls_spec f : ip_calls v f = calls v f.
Proof. apply scan_f. intros s x. apply ip_node_stop. Qed.

Theorem af_calls_spec f : af_calls v mk f = calls v f.
Proof. apply scan_f. intros s x. apply af_node_stop. Qed.

(* Node.filter on a branch: the children of the start node are filtered as a forest *)
Theorem branch_inplace_is_F n f : NoDup (ids f) -> map (upd_at n (filter_inplace v)) f = map (upd_at n (F v)) f.
Proof.
  intros ND. apply map_ext_in. intros t0 Ht0. apply upd_at_ext. intros p Hp _.
  apply filter_inplace_is_F. apply (NoDup_ids_children f p ND).
  apply in_flat_map. exists t0. split; assumption.
Qed.

Theorem branch_inplace_nodes n f t : NoDup (ids f) -> In t (pre_f f) -> rid t = n ->
  forall m, In m (ids (map (upd_at n (filter_inplace v)) f)) <->
            (In m (ids f) /\ ~ In m (ids (rch t))) \/ kept v (rch t) m.
Proof.
  intros ND Ht Hn m. rewrite (branch_inplace_is_F n f ND), (upd_at_ids n (F v) f t ND Ht Hn m).
  rewrite (F_ids_kept (rch t) (NoDup_ids_children f t ND Ht) m). reflexivity.
Qed.

(* the tree after Node.filter is an order- and ancestry-preserving sub-forest of the tree before, every node once *)
Theorem branch_inplace_wf n f : NoDup (ids f) ->
  emb (map (upd_at n (filter_inplace v)) f) f /\
  sublist (ids (map (upd_at n (filter_inplace v)) f)) (ids f) /\
  NoDup (ids (map (upd_at n (filter_inplace v)) f)).
Proof.
  intros ND. rewrite (branch_inplace_is_F n f ND).
  assert (E : emb (map (upd_at n (F v)) f) f) by (apply upd_at_emb; intros ch; apply F_emb).
  refine (conj E (conj (emb_ids _ _ E) _)). exact (sublist_NoDup _ _ (emb_ids _ _ E) ND).
Qed.

(* Node.filtered / Node.copy(predicate=): the start node on top of the filtered copy of its children *)
Theorem branch_copy t :
  same_modulo_ids [T 1 (mk (rinfo t)) (fst (add_filtered v mk (rch t) 2))] [T (rid t) (mk (rinfo t)) (dbl v mk (F v (rch t)))].
Proof.
  unfold same_modulo_ids. cbn [map erase]. rewrite (add_filtered_is_dbl_F (rch t) 2). reflexivity.
Qed.

Theorem calls_spec f : af_calls v mk f = calls v f /\ ip_calls v f = calls v f.
Proof. exact (conj (af_calls_spec f) (ip_calls_spec f)). Qed.

End P.

Section Plain.
Variable v : nat -> verdict.
(* outside the D24 region the copying form is F itself *)
Lemma dbl_f_id_of l : Forall (fun t => (forall n, In n (ids_t t) -> v n <> VTrue /\ v n <> VSkipKeepSelf) -> dbl_t v (fun i => i) t = t) l ->
  (forall n, In n (ids l) -> v n <> VTrue /\ v n <> VSkipKeepSelf) -> map (dbl_t v (fun i => i)) l = l.
Proof.
  induction 1 as [|x l Hx _ IH]; intros H; [reflexivity|]. cbn [map].
  rewrite Hx, IH; [reflexivity| |]; intros n Hn; apply H; rewrite ids_cons'; apply in_or_app; [right|left]; exact Hn.
Qed.

Lemma dbl_t_id : forall t, (forall n, In n (ids_t t) -> v n <> VTrue /\ v n <> VSkipKeepSelf) -> dbl_t v (fun i => i) t = t.
Proof.
  induction t as [id i ch IH] using rt_ind'. intros H. cbn [dbl_t].
  assert (Hid : v id <> VTrue /\ v id <> VSkipKeepSelf) by (apply H; rewrite ids_t_unfold; left; reflexivity).
  assert (Hch : map (dbl_t v (fun i => i)) ch = ch).
  { apply (dbl_f_id_of ch IH). intros n Hn. apply H. rewrite ids_t_unfold. right. exact Hn. }
  destruct Hid as [H1 H2]. destruct (v id); try reflexivity; try congruence; rewrite Hch; reflexivity.
Qed.

Theorem filtered_is_F_outside_D24 f :
  (forall n, In n (ids f) -> v n <> VTrue /\ v n <> VSkipKeepSelf) -> same_modulo_ids (filtered v (fun i => i) f) (F v f).
Proof.
  intros H. pose proof (filtered_is_dbl_F v (fun i => i) f) as E. unfold dbl in E.
  rewrite (dbl_f_id_of (F v f)) in E; [exact E| |].
  - apply Forall_forall. intros t _. apply dbl_t_id.
  - intros n Hn. apply H. eapply sublist_in; [apply (F_order v)|exact Hn].
Qed.
End Plain.


(* ------------------------------------------------------------------ *)
(* only the answers on the nodes of the forest matter                   *)
Lemma F_f_ext_of v w l :
  Forall (fun t => (forall n, In n (ids_t t) -> v n = w n) -> forall s, F_t v s t = F_t w s t) l ->
  (forall n, In n (ids l) -> v n = w n) -> forall s, F_f v s l = F_f w s l.
Proof.
  induction 1 as [|x l Hx _ IH]; intros H s; [reflexivity|].
  rewrite !F_f_cons. rewrite Hx, IH; [reflexivity| |]; intros n Hn; apply H; rewrite ids_cons'; apply in_or_app; [right|left]; exact Hn.
Qed.

Lemma F_t_ext v w : forall t, (forall n, In n (ids_t t) -> v n = w n) -> forall s, F_t v s t = F_t w s t.
Proof.
  induction t as [id i ch IH] using rt_ind'. intros H s. rewrite !F_t_unfold.
  rewrite <- (H id) by (rewrite ids_t_unfold; left; reflexivity).
  rewrite (F_f_ext_of v w ch IH); [reflexivity|].
  intros n Hn. apply H. rewrite ids_t_unfold. right. exact Hn.
Qed.

Theorem F_ext v w f : (forall n, In n (ids f) -> v n = w n) -> F v f = F w f.
Proof.
  intros H. unfold F. rewrite (F_f_ext_of v w f); [reflexivity| |exact H].
  apply Forall_forall. intros t _. apply F_t_ext.
Qed.

Lemma dbl_f_ext_of v w mk l :
  Forall (fun t => (forall n, In n (ids_t t) -> v n = w n) -> dbl_t v mk t = dbl_t w mk t) l ->
  (forall n, In n (ids l) -> v n = w n) -> map (dbl_t v mk) l = map (dbl_t w mk) l.
Proof.
  induction 1 as [|x l Hx _ IH]; intros H; [reflexivity|]. cbn [map].
  rewrite Hx, IH; [reflexivity| |]; intros n Hn; apply H; rewrite ids_cons'; apply in_or_app; [right|left]; exact Hn.
Qed.

Lemma dbl_t_ext v w mk : forall t, (forall n, In n (ids_t t) -> v n = w n) -> dbl_t v mk t = dbl_t w mk t.
Proof.
  induction t as [id i ch IH] using rt_ind'. intros H. cbn [dbl_t].
  rewrite <- (H id) by (rewrite ids_t_unfold; left; reflexivity).
  rewrite (dbl_f_ext_of v w mk ch IH); [reflexivity|].
  intros n Hn. apply H. rewrite ids_t_unfold. right. exact Hn.
Qed.

Lemma dbl_ext v w mk f : (forall n, In n (ids f) -> v n = w n) -> dbl v mk f = dbl w mk f.
Proof.
  intros H. apply dbl_f_ext_of; [|exact H]. apply Forall_forall. intros t _. apply dbl_t_ext.
Qed.

(* the property for a predicate given by what it *does* (returns or raises):
   the in-place form sees it through Node.filter's chain of tests, the copying
   form through _add_filtered's chain; both give the same sub-forest (modulo
   the D24 leaves), and two predicates that differ only in returning or
   raising a signal cannot be told apart *)
Theorem inplace_vs_copy_raw (p : nat -> raw) mk f : NoDup (ids f) ->
  same_modulo_ids (filtered (fun n => classify_cp (call_predicate (p n))) mk f)
                  (dbl (fun n => classify_cp (call_predicate (p n))) mk (filter_inplace (fun n => classify_ip (call_predicate (p n))) f)).
Proof.
  intros ND. rewrite (filter_inplace_is_F _ f ND).
  rewrite (F_ext (fun n => classify_ip (call_predicate (p n))) (fun n => classify_cp (call_predicate (p n))) f).
  - apply filtered_is_dbl_F.
  - intros n _. apply classify_same.
Qed.

Theorem raw_predicates_equal (p q : nat -> raw) mk f : NoDup (ids f) ->
  (forall n, In n (ids f) -> call_predicate (p n) = call_predicate (q n)) ->
  filter_inplace (fun n => classify_ip (call_predicate (p n))) f = filter_inplace (fun n => classify_ip (call_predicate (q n))) f /\
  same_modulo_ids (filtered (fun n => classify_cp (call_predicate (p n))) mk f) (filtered (fun n => classify_cp (call_predicate (q n))) mk f).
Proof.
  intros ND H. split.
  - rewrite !(filter_inplace_is_F _ f ND). apply F_ext. intros n Hn. rewrite (H n Hn). reflexivity.
  - unfold same_modulo_ids. rewrite (filtered_is_dbl_F _ mk f), (filtered_is_dbl_F (fun n => classify_cp (call_predicate (q n))) mk f).
    assert (E : forall n, In n (ids f) -> classify_cp (call_predicate (p n)) = classify_cp (call_predicate (q n)))
      by (intros n Hn; rewrite (H n Hn); reflexivity).
    rewrite (F_ext _ _ f E). rewrite (dbl_ext _ _ mk _ (fun n Hn => E n (sublist_in _ _ n (F_order _ f) Hn))). reflexivity.
Qed.

(* ------------------------------------------------------------------ *)
(* the entry points with an optional predicate                           *)
Theorem api_without_predicate mk f nx :
  api_filter None f = EValue /\ api_filtered mk None f nx = EValue /\
  api_copy mk None f nx = copy_result (fst (copy_f f nx)) /\
  same_modulo_ids (fst (copy_f f nx)) f /\
  ids (fst (copy_f f nx)) = seq nx (length (ids f)).
Proof.
  refine (conj eq_refl (conj eq_refl (conj eq_refl (conj _ _)))).
  - apply copy_f_erase.
  - apply copy_f_ids.
Qed.

Theorem api_with_predicate v mk f nx : NoDup (ids f) ->
  api_filter (Some v) f = Ok (F v f) /\
  api_filtered mk (Some v) f nx = copy_result (fst (add_filtered v mk f nx)) /\
  api_copy mk (Some v) f nx = copy_result (fst (add_filtered v mk f nx)) /\
  same_modulo_ids (fst (add_filtered v mk f nx)) (dbl v mk (F v f)).
Proof.
  intros ND. refine (conj _ (conj eq_refl (conj eq_refl (add_filtered_is_dbl_F v mk f nx)))).
  unfold api_filter. rewrite (filter_inplace_is_F v f ND). reflexivity.
Qed.

(* ------------------------------------------------------------------ *)
(* a checker for NoDup, for examples                                    *)
Fixpoint nodupb (l : list nat) : bool :=
  match l with [] => true | x :: r => negb (existsb (Nat.eqb x) r) && nodupb r end.

Lemma nodupb_sound l : nodupb l = true -> NoDup l.
Proof.
  induction l as [|x l IH]; intros H; [constructor|]. cbn [nodupb] in H.
  apply andb_true_iff in H. destruct H as [H1 H2]. constructor; [|apply IH, H2].
  intros Hin. apply (existsb_eqb_in x l) in Hin. rewrite Hin in H1. discriminate H1.
Qed.

Lemma in_b n l : existsb (Nat.eqb n) l = true -> In n l.
Proof. apply existsb_eqb_in. Qed.

Lemma notin_b n l : existsb (Nat.eqb n) l = false -> ~ In n l.
Proof. intros H Hin. apply (existsb_eqb_in n l) in Hin. rewrite Hin in H. discriminate H. Qed.

Lemma incl_b a l : forallb (fun n => existsb (Nat.eqb n) l) a = true -> incl a l.
Proof. intros H n Hn. rewrite forallb_forall in H. apply in_b. exact (H n Hn). Qed.

Lemma find_node_in n f t : find_node n f = Some t -> In t (pre_f f) /\ rid t = n.
Proof.
  unfold find_node. intros H. apply find_some in H. destruct H as [H1 H2]. split; [exact H1|].
  apply Nat.eqb_eq. exact H2.
Qed.
