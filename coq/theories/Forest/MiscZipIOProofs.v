(* Theorems about the byte transport (model: MiscZipIO.v). *)
From Coq Require Import List ZArith Bool.
From NT Require Import Sx Rose MiscZipIO.
Import ListNotations.

(* whatever was written comes back, for every accepted compression setting, with auto_uncompress on *)
Theorem transport_roundtrip name c t f : write_file name c t = inr f -> read_file f true = RText t.
Proof.
  destruct c as [| |z]; cbn.
  - intros E. injection E as <-. reflexivity.
  - intros E. injection E as <-. reflexivity.
  - destruct (known_method z); [|discriminate]. intros E. injection E as <-. reflexivity.
Qed.

(* the only refusal of the writer: an int that is not a ZIP method *)
Theorem write_refused_iff name c t : (exists e, write_file name c t = inl e) <-> exists z, c = CInt z /\ known_method z = false.
Proof.
  split.
  - intros [e H]. destruct c as [| |z]; cbn in H; try discriminate. exists z. split; [reflexivity|]. destruct (known_method z); [discriminate|reflexivity].
  - intros (z & -> & K). cbn. rewrite K. eexists; reflexivity.
Qed.

(* False is the only setting that writes a plain file: 0 (ZIP_STORED) is a container; True means BZIP2; one member "<name>.json" *)
Theorem write_shapes name t :
  write_file name CFalse t = inr (FPlain t) /\
  write_file name CTrue t = inr (FZip [(name ++ t_json, ZIP_BZIP2, t)]) /\
  write_file name (CInt 0) t = inr (FZip [(name ++ t_json, ZIP_STORED, t)]) /\
  (forall z, known_method z = true -> write_file name (CInt z) t = inr (FZip [(name ++ t_json, z, t)])).
Proof. repeat split. intros z K. cbn. rewrite K. reflexivity. Qed.

(* with auto_uncompress off a plain file still reads; a container is not interpreted *)
Theorem read_without_uncompress f : read_file f false = match f with FPlain t => RText t | FZip _ => RRaw end.
Proof. destruct f; reflexivity. Qed.

(* the reader accepts containers with exactly one member, whatever its name and method *)
Theorem read_single_member_iff ms : (exists t, read_file (FZip ms) true = RText t) <-> length ms = 1.
Proof.
  split.
  - intros [t H]. destruct ms as [|[[n m] x] [|? ?]]; cbn in H; try discriminate; reflexivity.
  - intros H. destruct ms as [|[[n m] x] [|? ?]]; try discriminate. eexists; reflexivity.
Qed.
