(* node.py: Node.__getattr__ – attribute forwarding ("aliasing") to the data object.  Executable model, no proofs.

       def __getattr__(self, name):                 # Python calls it only when the normal lookup on the node fails
           if self._tree._forward_attrs:
               return getattr(self._data, name)
           raise AttributeError

   [own] = the names the normal lookup finds on the node object (slots, properties, methods of its class);
   [tree_forward] = None for a node without a tree (removed: `None._forward_attrs` is an AttributeError as well),
   else the tree's flag; [data_attrs] = the attributes of the data object. *)
From Coq Require Import List ZArith Bool.
From NT Require Import Sx Rose MiscMapper.
Import ListNotations.

Inductive got :=
| GOwn                 (* the node's own attribute (its value is the business of the other models) *)
| GData (v : pv)       (* forwarded: the data object's attribute                                   *)
| GAttrErr.            (* AttributeError                                                            *)

Definition mem_text (n : text) (l : list text) : bool := existsb (text_eqb n) l.

Definition node_getattr (own : list text) (tree_forward : option bool) (data_attrs : dict) (name : text) : got :=
  if mem_text name own then GOwn
  else match tree_forward with
       | Some true => match d_get data_attrs name with Some v => GData v | None => GAttrErr end
       | _ => GAttrErr
       end.

Definition sx_got (g : got) : sx :=
  match g with GOwn => L [A 0%Z] | GData v => L [A 1%Z; sx_pv v] | GAttrErr => L [A (-1)%Z] end.
