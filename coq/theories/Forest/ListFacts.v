(* Small list lemmas used across the development (stdlib only). *)
From Coq Require Import List Bool Arith Lia Permutation.
Import ListNotations.

Ltac la := repeat (rewrite <- app_assoc || rewrite <- app_comm_cons); try reflexivity.

Lemma find_hd_filter {X} (p : X -> bool) (l : list X) : find p l = hd_error (filter p l).
Proof. induction l as [|x l IH]; cbn; [reflexivity|]. destruct (p x); cbn; auto. Qed.

Lemma filter_rev' {X} (p : X -> bool) (l : list X) : filter p (rev l) = rev (filter p l).
Proof.
  induction l as [|x l IH]; cbn; [reflexivity|].
  rewrite filter_app, IH. cbn. destruct (p x); cbn; [reflexivity|now rewrite app_nil_r].
Qed.

Lemma filter_filter_comm {X} (p q : X -> bool) (l : list X) :
  filter p (filter q l) = filter (fun x => p x && q x) l.
Proof.
  induction l as [|x l IH]; cbn; [reflexivity|].
  destruct (q x); cbn; destruct (p x); cbn; rewrite ?IH; reflexivity.
Qed.

Lemma filter_ext_in' {X} (p q : X -> bool) (l : list X) :
  (forall x, In x l -> p x = q x) -> filter p l = filter q l.
Proof.
  induction l as [|x l IH]; intros H; cbn; [reflexivity|].
  rewrite (H x (or_introl eq_refl)), IH; [reflexivity|]. intros y Hy. apply H. now right.
Qed.

Lemma filter_all_true {X} (p : X -> bool) (l : list X) : (forall x, In x l -> p x = true) -> filter p l = l.
Proof.
  induction l as [|x l IH]; intros H; cbn; [reflexivity|].
  rewrite (H x (or_introl eq_refl)), IH; [reflexivity|]. intros y Hy. apply H. now right.
Qed.

Lemma filter_true {X} (l : list X) : filter (fun _ => true) l = l.
Proof. induction l; cbn; congruence. Qed.

Lemma hd_error_app {X} (a b : list X) :
  hd_error (a ++ b) = match a with [] => hd_error b | x :: _ => Some x end.
Proof. destruct a; reflexivity. Qed.

Lemma hd_error_rev_app_cons {X} (a : list X) (x : X) : hd_error (rev (a ++ [x])) = Some x.
Proof. rewrite rev_app_distr. reflexivity. Qed.

Lemma nth_error_app_len {X} (a : list X) (x : X) (b : list X) : nth_error (a ++ x :: b) (length a) = Some x.
Proof. induction a; cbn; auto. Qed.

Lemma nth_error_app_S_len {X} (a : list X) (x : X) (b : list X) :
  nth_error (a ++ x :: b) (S (length a)) = hd_error b.
Proof. induction a; cbn; auto. Qed.

Lemma nth_error_last {X} (a : list X) (b : list X) k :
  length a = S k -> nth_error (a ++ b) k = hd_error (rev a).
Proof.
  revert k. induction a as [|x a IH] using rev_ind; intros k E; [discriminate|].
  rewrite app_length in E. cbn in E. assert (length a = k) as <- by lia.
  rewrite rev_app_distr. cbn. rewrite <- app_assoc. cbn. apply nth_error_app_len.
Qed.

Lemma hd_error_rev_nil {X} (a : list X) : hd_error (rev a) = None -> a = [].
Proof.
  destruct a as [|x a] using rev_ind; [reflexivity|]. rewrite rev_app_distr. discriminate.
Qed.

Lemma firstn_app_len {X} (a b : list X) : firstn (length a) (a ++ b) = a.
Proof. induction a; cbn; [now destruct b|congruence]. Qed.

Lemma skipn_app_len {X} (a b : list X) : skipn (length a) (a ++ b) = b.
Proof. induction a; cbn; auto. Qed.

Lemma skipn_S_app_len {X} (a : list X) x b : skipn (S (length a)) (a ++ x :: b) = b.
Proof. induction a; cbn; auto. Qed.

Lemma NoDup_app_l {X} (a b : list X) : NoDup (a ++ b) -> NoDup a.
Proof. induction a as [|x a IH]; cbn; intros H; [constructor|]. inversion H; subst. constructor; [|auto]. intros Hi; apply H2, in_or_app; now left. Qed.

Lemma NoDup_app_r {X} (a b : list X) : NoDup (a ++ b) -> NoDup b.
Proof. induction a as [|x a IH]; cbn; intros H; [assumption|]. inversion H; subst. auto. Qed.

Lemma NoDup_app_disj {X} (a b : list X) x : NoDup (a ++ b) -> In x a -> In x b -> False.
Proof.
  induction a as [|y a IH]; cbn; intros H Ha Hb; [contradiction|].
  inversion H; subst. destruct Ha as [->|Ha]; [apply H2, in_or_app; now right|eauto].
Qed.

Lemma NoDup_app_intro {X} (a b : list X) :
  NoDup a -> NoDup b -> (forall x, In x a -> In x b -> False) -> NoDup (a ++ b).
Proof.
  induction a as [|y a IH]; cbn; intros Ha Hb Hd; [assumption|].
  inversion Ha; subst. constructor.
  - intros Hi. apply in_app_or in Hi as [Hi|Hi]; [contradiction|]. eapply Hd; [now left|eassumption].
  - apply IH; auto. intros x Hx. apply Hd. now right.
Qed.

Lemma flat_map_in_split {X Y} (g : X -> list Y) a x b :
  flat_map g (a ++ x :: b) = flat_map g a ++ g x ++ flat_map g b.
Proof. rewrite flat_map_app. reflexivity. Qed.
